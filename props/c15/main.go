// C15: after a crash, every object the metadata lists as available is readable.
// Every history of up to N shard operations (Put, Put tombstone, MarkGarbage default/redundant,
// Delete, GC pass, FlushWriteCache; with and without write-cache) runs on a real shard under the
// controlled scheduler; a crash image (copy of blobstor tree, metabase file, write-cache tree) is
// taken at EVERY scheduling point (each lock / channel / blobstor call / metabase call boundary,
// i.e. every step boundary between blob write, cache write, metadata update, cache removal and blob
// removal). Each distinct on-disk state is judged in place (live metabase handle, files on disk):
// every address the metabase reports as available must be readable in full, identical, from the
// blobstor tree or the write-cache tree. Every state judged inconsistent, and the final state of
// every execution, is also copied, reopened offline (fresh metabase + FSTree handles) and judged
// again; the two verdicts must agree.
package main

import (
	"bytes"
	"fmt"
	"os"
	"path/filepath"
	"sort"
	"strings"
	"time"

	"github.com/nspcc-dev/bbolt"
	"github.com/nspcc-dev/neofs-node/pkg/local_object_storage/blobstor/fstree"
	meta "github.com/nspcc-dev/neofs-node/pkg/local_object_storage/metabase"
	"github.com/nspcc-dev/neofs-node/pkg/local_object_storage/writecache"
	"github.com/nspcc-dev/neofs-node/verif/lib/ev"
	"github.com/nspcc-dev/neofs-node/verif/lib/sched"
	ss "github.com/nspcc-dev/neofs-node/verif/worlds/schedshard"
	"github.com/nspcc-dev/neofs-sdk-go/object"
	oid "github.com/nspcc-dev/neofs-sdk-go/object/id"
	"go.uber.org/zap"
)

const (
	objA = 0 // small
	objB = 1 // big (above the flush batch threshold)
	tsA  = 2 // tombstone for A
	lkB  = 3 // lock for B
	objC = 4 // small: with A it forms a flush batch (flushBatch / PutBatch path)
	objD = 5 // larger than the whole write-cache: the cache refuses it and the shard writes it to the blobstor directly
)

// wcCapacity is the write-cache capacity used by the histories (A, B, C fit together, D never does).
const wcCapacity = 900

var sizes = map[int]int{objA: 4, objB: 60, objC: 5, objD: 1200}

type opT struct {
	Name string
	Do   func(w *ss.World)
}

func ops() []opT {
	ids := func(i int) []oid.ID { return []oid.ID{ss.OID(i)} }
	return []opT{
		{"Put(A)", func(w *ss.World) { w.Sh.Put(ss.Obj(objA, sizes[objA]), nil) }},
		{"Put(B)", func(w *ss.World) { w.Sh.Put(ss.Obj(objB, sizes[objB]), nil) }},
		{"Put(C)", func(w *ss.World) { w.Sh.Put(ss.Obj(objC, sizes[objC]), nil) }},
		{"Put(D)", func(w *ss.World) { w.Sh.Put(ss.Obj(objD, sizes[objD]), nil) }},
		{"Delete(D)", func(w *ss.World) { w.Sh.Delete(ss.Cnr, ids(objD)) }},
		{"Put(T->A)", func(w *ss.World) { w.Sh.Put(ss.Tombstone(tsA, objA, 0), nil) }},
		{"MarkGarbage(A)", func(w *ss.World) { w.Sh.MarkGarbage(ss.Cnr, ids(objA), meta.GarbageMarkDefault) }},
		{"MarkRedundant(B)", func(w *ss.World) { w.Sh.MarkGarbage(ss.Cnr, ids(objB), meta.GarbageMarkRedundant) }},
		{"Delete(A)", func(w *ss.World) { w.Sh.Delete(ss.Cnr, ids(objA)) }},
		{"Delete(B)", func(w *ss.World) { w.Sh.Delete(ss.Cnr, ids(objB)) }},
		{"Put(Lock->B)", func(w *ss.World) { w.Sh.Put(ss.Lock(lkB, objB, 0), nil) }},
		{"GCPass", func(w *ss.World) { w.Sh.VerifSSGCPass() }},
		{"Flush", func(w *ss.World) { w.Sh.FlushWriteCache(false) }},
	}
}

type image struct {
	Digest string
	Dir    string
	Label  string
	After  []string // operations started so far
	Live   int      // verdict of the in-place check: index of the first unreadable available object, -1 if none
}

// discard removes the scratch directory of an execution that is not checked by this worker.
func discard(x *sched.Exec) {
	if res, _ := x.Result.(*result); res != nil && res.Root != "" {
		os.RemoveAll(res.Root)
	}
}

// liveCheck judges the current on-disk state in place: every address the (live) metabase reports
// as available must be readable, identical, from the blobstor tree or the write-cache tree.
func liveCheck(w *ss.World, res *result) int {
	w.Quiet = true
	defer func() { w.Quiet = false }()
	db := w.Sh.VerifSSMetabase()
	wcT := fstree.New(fstree.WithPath(w.WCDir()), fstree.WithDepth(1))
	wcT.Open(true)
	for i := 0; i <= objD; i++ {
		ex, err := db.Exists(ss.Addr(i), false)
		if err != nil || !ex {
			continue
		}
		res.avail++
		ok := false
		for _, t := range []*fstree.FSTree{wcT, w.FST} {
			if b, err := t.GetBytes(ss.Addr(i)); err == nil && bytes.Equal(b, blobs[i]) {
				ok = true
				break
			}
		}
		if !ok {
			return i
		}
	}
	return -1
}

type result struct {
	Root    string
	Images  []image
	History []string
	WC      bool
	// closed concurrent scenario only
	Concurrent, Reput         bool
	FlushWrittenBeforeRemoval bool
	Points                    int
	checked                   int
	reopened                  int
	avail                     int
}

var blobs = func() map[int][]byte {
	m := map[int][]byte{objA: ss.Obj(objA, sizes[objA]).Marshal(), objB: ss.Obj(objB, sizes[objB]).Marshal(), tsA: ss.Tombstone(tsA, objA, 0).Marshal(), lkB: ss.Lock(lkB, objB, 0).Marshal(), objC: ss.Obj(objC, sizes[objC]).Marshal(), objD: ss.Obj(objD, sizes[objD]).Marshal()}
	return m
}()

// stateKey identifies the on-disk state exactly and cheaply: the id of the last committed metabase
// transaction (the bbolt file changes only at a commit) and the (path, size) listing of the blobstor
// and write-cache trees (every address of the alphabet has one fixed content, so a file differs
// from an earlier one at the same path only while it is partially written, i.e. in size).
func stateKey(w *ss.World) string {
	w.Quiet = true
	tx := w.Sh.VerifSSMetabase().VerifSSTxID()
	w.Quiet = false
	var b strings.Builder
	fmt.Fprintf(&b, "tx%d", tx)
	for _, root := range []string{w.BlobDir(), w.WCDir()} {
		l1, _ := os.ReadDir(root)
		for _, e := range l1 {
			if !e.IsDir() {
				if fi, err := e.Info(); err == nil {
					fmt.Fprintf(&b, "|%s:%d", e.Name(), fi.Size())
				}
				continue
			}
			l2, _ := os.ReadDir(filepath.Join(root, e.Name()))
			fmt.Fprintf(&b, "|%s/", e.Name())
			for _, f := range l2 {
				if fi, err := f.Info(); err == nil {
					fmt.Fprintf(&b, "%s:%d,", f.Name(), fi.Size())
				}
			}
		}
		b.WriteString("#")
	}
	return b.String()
}

func scenario(wc bool, depth int, pre int) sched.Scenario {
	all := ops()
	name := fmt.Sprintf("histories<=%d write-cache=%v", depth, wc)
	body := func(s *sched.S) any {
		root, err := os.MkdirTemp("/dev/shm", "verif-c15-")
		if err != nil {
			panic(err)
		}
		res := &result{Root: root, WC: wc}
		s.Result = res
		live := filepath.Join(root, "live")
		w, err := ss.New(s, live, ss.Opts{WriteCache: wc, RmBatch: 10, WCMaxSize: wcCapacity})
		if err != nil {
			panic(err)
		}
		defer w.Close()
		seen := map[string]bool{}
		capturing := false
		snap := func(label string) {
			if !capturing {
				return
			}
			res.Points++
			dg := stateKey(w)
			if seen[dg] {
				return
			}
			seen[dg] = true
			// fast path: the state is judged in place (live metabase handle + the files on disk); only a
			// state the fast path finds inconsistent, and the final one, are copied and reopened offline
			res.checked++
			if i := liveCheck(w, res); i >= 0 || label == "quiescent" {
				d := filepath.Join(root, fmt.Sprintf("img%d", len(res.Images)))
				ss.CopyTree(live, d)
				res.Images = append(res.Images, image{dg, d, label, append([]string(nil), res.History...), i})
			}
		}
		s.OnPoint = func(l string) { snap("t" + fmt.Sprint(s.Cur().ID) + ":" + l) }
		w.OnStep = func(l string) { snap("step:" + l) }
		capturing = true
		// the history is an explored environment choice: op index per step, or stop
		for step := 0; step < depth; step++ {
			k := s.Choose(len(all)+1, sched.Fault, fmt.Sprintf("op%d", step))
			if k == 0 {
				break
			}
			o := all[k-1]
			res.History = append(res.History, o.Name)
			o.Do(w)
			snap("after " + o.Name)
		}
		s.AwaitQuiescence()
		snap("quiescent")
		capturing = false
		s.OnPoint = nil
		return res
	}
	check := func(x *sched.Exec) (string, string) {
		res, _ := x.Result.(*result)
		if res == nil {
			return "", ""
		}
		defer os.RemoveAll(res.Root)
		if len(x.Panics) > 0 {
			return "panic", x.Panics[0]
		}
		if x.Deadlock {
			return "deadlock", strings.Join(x.Blocked, ";")
		}
		for _, im := range res.Images {
			res.reopened++
			fp, what := checkImage(im, res)
			if (fp != "") != (im.Live >= 0) {
				return "harness:in-place-and-reopened-verdicts-differ", fmt.Sprintf("history %v, crash at %q: in place %d, reopened %q", res.History, im.Label, im.Live, fp)
			}
			if fp != "" {
				return fp, fmt.Sprintf("history %v, crash at %q (after starting %v): %s", res.History, im.Label, im.After, what)
			}
		}
		return "", ""
	}
	outcome := func(x *sched.Exec) string {
		res, _ := x.Result.(*result)
		if res == nil {
			return "aborted"
		}
		h := append([]string(nil), res.History...)
		sort.Strings(h)
		return fmt.Sprintf("wc=%v ops=%s", res.WC, strings.Join(h, ","))
	}
	counters := func(x *sched.Exec) map[string]int {
		res, _ := x.Result.(*result)
		if res == nil {
			return nil
		}
		return map[string]int{"crash_points": res.Points, "distinct_crash_images_checked": res.checked, "crash_images_copied_and_reopened_offline": res.reopened, "available_objects_read_back": res.avail}
	}
	return sched.Scenario{Name: name, Opt: sched.Options{PreemptBound: pre, FaultBound: depth, FreeBound: -1, MaxSteps: 8000,
		Setup: func(s *sched.S) { s.TimerFires = 2 }}, Body: body, Check: check, Outcome: outcome, Counters: counters, Discard: discard}
}

// concurrent is the closed flush/removal/new-upload scenario: A and C (small, one flush batch) are
// put; a second client removes A once the flusher has marked it (or once the batch is being
// written, when early is false) and uploads A again while the batch is being written. Crash
// images are taken at every scheduling point of every schedule within the bounds.
func concurrent(early bool, pre int) sched.Scenario {
	name := fmt.Sprintf("put A,C | remove A (batch %s) + upload A again while the flusher writes", map[bool]string{true: "formed", false: "being written"}[early])
	body := func(s *sched.S) any {
		root, err := os.MkdirTemp("/dev/shm", "verif-c15-")
		if err != nil {
			panic(err)
		}
		res := &result{Root: root, WC: true, Concurrent: true}
		s.Result = res
		live := filepath.Join(root, "live")
		w, err := ss.New(s, live, ss.Opts{WriteCache: true, RmBatch: 10, WCMaxSize: wcCapacity})
		if err != nil {
			panic(err)
		}
		defer w.Close()
		seen := map[string]bool{}
		blobWrites, blobWritesDone := 0, 0
		snap := func(label string) {
			res.Points++
			dg := stateKey(w)
			if seen[dg] {
				return
			}
			seen[dg] = true
			// fast path: the state is judged in place (live metabase handle + the files on disk); only a
			// state the fast path finds inconsistent, and the final one, are copied and reopened offline
			res.checked++
			if i := liveCheck(w, res); i >= 0 || label == "quiescent" {
				d := filepath.Join(root, fmt.Sprintf("img%d", len(res.Images)))
				ss.CopyTree(live, d)
				res.Images = append(res.Images, image{dg, d, label, append([]string(nil), res.History...), i})
			}
		}
		s.OnPoint = func(l string) { snap("t" + fmt.Sprint(s.Cur().ID) + ":" + l) }
		w.OnStep = func(l string) {
			switch l {
			case "blob.Put", "blob.PutBatch":
				blobWrites++
			case "blob.Put.done", "blob.PutBatch.done":
				blobWritesDone++
			case "blob.Delete":
				res.FlushWrittenBeforeRemoval = blobWritesDone > 0
			}
			snap("step:" + l)
		}
		putsDone := false
		s.Go("client0", false, func() {
			res.History = append(res.History, "Put(A)")
			w.Sh.Put(ss.Obj(objA, sizes[objA]), nil)
			res.History = append(res.History, "Put(C)")
			w.Sh.Put(ss.Obj(objC, sizes[objC]), nil)
			putsDone = true
		})
		s.Go("client1", false, func() {
			s.Block("wait puts", func() bool { return putsDone })
			if early {
				s.Block("wait marked", func() bool {
					return writecache.VerifFlushMarked(w.Sh.VerifSSWriteCache(), ss.Addr(objA)) || s.TimerFires <= 0
				})
			} else {
				s.Block("wait blob write", func() bool { return blobWrites > 0 || s.TimerFires <= 0 })
			}
			res.History = append(res.History, "Delete(A)")
			w.Sh.Delete(ss.Cnr, []oid.ID{ss.OID(objA)})
			if early {
				s.Block("wait blob write", func() bool { return blobWrites > 0 || s.TimerFires <= 0 })
			}
			res.History = append(res.History, "Put(A)")
			w.Sh.Put(ss.Obj(objA, sizes[objA]), nil)
			res.Reput = true
		})
		s.AwaitQuiescence()
		snap("quiescent")
		s.OnPoint = nil
		w.OnStep = nil
		return res
	}
	sc := scenario(true, 0, pre) // oracle, outcome and counters are shared
	return sched.Scenario{Name: name, Opt: sched.Options{PreemptBound: pre, FaultBound: 0, FreeBound: 1, MaxSteps: 8000,
		Setup: func(s *sched.S) { s.TimerFires = 5 }}, Body: body, Check: sc.Check, Outcome: sc.Outcome, Counters: sc.Counters, Discard: discard}
}

// checkImage opens the metabase of a crash image read-only and checks that every address it
// reports as available is readable, identical, from the blobstor tree or the write-cache tree.
func checkImage(im image, res *result) (string, string) {
	ep := &ss.Epoch{}
	db := meta.New(meta.WithPath(filepath.Join(im.Dir, "meta")), meta.WithEpochState(ep), meta.WithPermissions(0o600),
		meta.WithMaxBatchSize(1), meta.WithMaxBatchDelay(time.Microsecond), meta.WithLogger(zap.NewNop()),
		meta.WithBoltDBOptions(&bbolt.Options{NoSync: true, NoFreelistSync: true, Timeout: time.Second}))
	if _, err := os.Stat(filepath.Join(im.Dir, "meta")); err != nil {
		return "", "" // crash before the metabase file existed: nothing is reported available
	}
	if err := db.Open(true); err != nil {
		return "image:metabase-does-not-open", err.Error()
	}
	defer db.Close()
	blob := fstree.New(fstree.WithPath(filepath.Join(im.Dir, "blob")), fstree.WithDepth(1))
	wcT := fstree.New(fstree.WithPath(filepath.Join(im.Dir, "wc")), fstree.WithDepth(1))
	blob.Open(true)
	wcT.Open(true)
	for i := 0; i <= objD; i++ {
		want := blobs[i]
		ex, err := db.Exists(ss.Addr(i), false)
		if err != nil || !ex {
			continue
		}
		res.avail++
		ok := false
		for _, t := range []*fstree.FSTree{wcT, blob} {
			b, err := t.GetBytes(ss.Addr(i))
			if err == nil && bytes.Equal(b, want) {
				ok = true
				// header + payload also decode
				var o object.Object
				if o.Unmarshal(b) != nil {
					ok = false
				}
				break
			}
		}
		if !ok {
			kind := map[int]string{objA: "regular-small", objB: "regular-big", tsA: "tombstone", lkB: "lock", objC: "regular-small", objD: "regular-bypassing-the-write-cache"}[i]
			last := "none"
			if len(im.After) > 0 {
				last = im.After[len(im.After)-1]
			}
			last = strings.NewReplacer("(A)", "", "(B)", "", "(C)", "", "(D)", "", "(T->A)", "-tombstone", "(Lock->B)", "-lock").Replace(last)
			if res.Concurrent {
				// a loss that needs the concurrent new upload: name the mechanism, not the crash point
				mech := "flusher-had-not-written-it-before-the-removal"
				if res.FlushWrittenBeforeRemoval {
					mech = "flusher-wrote-it-before-the-removal-and-dropped-the-new-cache-copy-afterwards"
				}
				return fmt.Sprintf("available-in-metadata-but-unreadable:%s:uploaded-again-after-removal-during-background-flush:%s", kind, mech),
					fmt.Sprintf("object %d is reported available by the metabase but is in neither the blobstor nor the write-cache", i)
			}
			return fmt.Sprintf("available-in-metadata-but-unreadable:%s:crash-during-%s:write-cache=%v", kind, last, res.WC),
				fmt.Sprintf("object %d is reported available by the metabase but is in neither the blobstor nor the write-cache", i)
		}
	}
	return "", ""
}

func main() {
	r := ev.Start("C15", ev.FaultEnum)
	depth := 3
	scs := []sched.Scenario{scenario(true, depth, 0), scenario(false, depth, 0), concurrent(true, 1), concurrent(false, 1)}
	if r.Thorough() {
		// deeper bounds after the quick ones (the budget is shared per scenario, leftovers roll on)
		depth = 4
		deep := []sched.Scenario{scenario(true, depth, 0), scenario(false, depth, 0), scenario(true, 3, 1), concurrent(true, 2), concurrent(false, 2)}
		for i := range deep {
			deep[i].Name += " [deep]"
		}
		scs = append(scs, deep...)
	}
	r.Rule(fmt.Sprintf("every history of <=%d operations over {Put(A small), Put(B big), Put(C small), Put(D larger than the write-cache), Delete(D), Put(tombstone->A), MarkGarbage(A), MarkRedundant(B), Delete(A), Delete(B), Put(lock->B), GC pass, FlushWriteCache} with and without write-cache (default schedule; thorough also <=1 preemption for depth 3), a crash image at every scheduling point (lock, channel, blobstor call, metabase call) and after every operation; plus the closed concurrent scenarios (put A,C | remove A and upload it again while the background flusher handles the batch) under <=1 (thorough <=2) preemptions with a crash image at every point; distinct images reopened and checked; non-trivial = distinct (write-cache, multiset of operations) classes", depth))
	r.Assume("process-crash model: the copied files are what the kernel holds at that point; a metabase call (one bbolt transaction) is atomic", "the write-cache FSTree and the blobstor FSTree write whole files (no combined files)")
	sched.Main(r, scs, 0)
}
