// Package polworld is the shared harness of C26/C27: one real policer.Policer wired to
//   - a fake Network (placement lists of the current case),
//   - a recording local storage fake,
//   - remote HEAD answers given by a per-node function (through the injected VerifConns),
//   - the REAL replicator.Replicator + REAL putsvc.RemoteSender whose API clients are fakes answering
//     per node (so TaskResult submissions are produced by the real HandleTask).
//
// Everything is synchronous and deterministic; there is no goroutine, timer or random source on the
// REP path (the EC path only runs checkECParts on its all-parts-healthy path).
package polworld

import (
	"bytes"
	"context"
	"crypto/ecdsa"
	"crypto/elliptic"
	"crypto/sha256"
	"errors"
	"fmt"
	"io"
	"math/big"
	"strconv"
	"strings"
	"sync"
	"time"

	iec "github.com/nspcc-dev/neofs-node/internal/ec"
	clientcore "github.com/nspcc-dev/neofs-node/pkg/core/client"
	objectcore "github.com/nspcc-dev/neofs-node/pkg/core/object"
	"github.com/nspcc-dev/neofs-node/pkg/local_object_storage/engine"
	putsvc "github.com/nspcc-dev/neofs-node/pkg/services/object/put"
	objutil "github.com/nspcc-dev/neofs-node/pkg/services/object/util"
	"github.com/nspcc-dev/neofs-node/pkg/services/policer"
	"github.com/nspcc-dev/neofs-node/pkg/services/replicator"
	"github.com/nspcc-dev/neofs-sdk-go/client"
	apistatus "github.com/nspcc-dev/neofs-sdk-go/client/status"
	cid "github.com/nspcc-dev/neofs-sdk-go/container/id"
	neofscrypto "github.com/nspcc-dev/neofs-sdk-go/crypto"
	neofsecdsa "github.com/nspcc-dev/neofs-sdk-go/crypto/ecdsa"
	"github.com/nspcc-dev/neofs-sdk-go/netmap"
	"github.com/nspcc-dev/neofs-sdk-go/object"
	oid "github.com/nspcc-dev/neofs-sdk-go/object/id"
	"github.com/nspcc-dev/neofs-sdk-go/user"
	"go.uber.org/zap"
)

// MaxNodes is the size of the fixed node universe.
const MaxNodes = 20

var (
	pubKeys [MaxNodes][]byte
	keyIdx  = map[string]int{}
	// Cnr, Obj, Parent are the fixed identifiers used by every case.
	Cnr    cid.ID
	Obj    oid.ID
	Parent oid.ID
	key    *ecdsa.PrivateKey
	// ErrGeneric stands for "node unreachable / any other error".
	ErrGeneric = errors.New("verif: connection refused")
)

func init() {
	for i := range pubKeys {
		h := sha256.Sum256([]byte("verif-policer-node-" + strconv.Itoa(i)))
		pubKeys[i] = append([]byte{2}, h[:]...)
		keyIdx[string(pubKeys[i])] = i
	}
	h := sha256.Sum256([]byte("verif-policer-cnr"))
	copy(Cnr[:], h[:])
	h = sha256.Sum256([]byte("verif-policer-obj"))
	copy(Obj[:], h[:])
	h = sha256.Sum256([]byte("verif-policer-parent"))
	copy(Parent[:], h[:])
	h = sha256.Sum256([]byte("verif-policer-key"))
	d := new(big.Int).SetBytes(h[:])
	key = &ecdsa.PrivateKey{D: d}
	key.Curve = elliptic.P256()
	key.X, key.Y = key.Curve.ScalarBaseMult(d.Bytes())

	for i := range pubKeys {
		nodesOnline[i], nodesMaint[i] = mkNode(i, false), mkNode(i, true)
	}
	engine.VerifPolicerWorldHook = func(e *engine.StorageEngine, name string, args []any) ([]any, bool) {
		switch name {
		case "GetBytes":
			return []any{bytes.Clone(ObjectBytes), nil}, true
		case "Put": // only intercepted when a check's overlay hooks (*StorageEngine).Put as well
			v, ok := engWorlds.Load(e)
			if !ok {
				return nil, false
			}
			w := v.(*World)
			o := args[1].(*object.Object)
			var err error = ErrGeneric
			if w.LocalPut != nil {
				err = w.LocalPut(o)
			} else {
				w.UnknownCalls = append(w.UnknownCalls, "replicator put to the local engine")
			}
			w.Sends = append(w.Sends, Send{o.GetID(), w.Local, err == nil})
			return []any{err}, true
		}
		return nil, false
	}
}

var engWorlds sync.Map // *engine.StorageEngine -> *World

// Node returns the descriptor of universe node i (optionally flagged as under maintenance in the
// network map).
func Node(i int, maintenance bool) netmap.NodeInfo {
	if maintenance {
		return nodesMaint[i]
	}
	return nodesOnline[i]
}

var nodesOnline, nodesMaint [MaxNodes]netmap.NodeInfo

func mkNode(i int, maintenance bool) netmap.NodeInfo {
	var n netmap.NodeInfo
	n.SetPublicKey(pubKeys[i])
	n.SetNetworkEndpoints("localhost:" + strconv.Itoa(10000+i))
	if maintenance {
		n.SetMaintenance()
	}
	return n
}

// NodeIndex maps a node descriptor back to its universe index.
func NodeIndex(n netmap.NodeInfo) int {
	i, ok := keyIdx[string(n.PublicKey())]
	if !ok {
		panic("unknown node")
	}
	return i
}

// Placement is what Network.GetNodesForObject answers.
type Placement struct {
	Lists [][]netmap.NodeInfo
	Rep   []uint
	EC    []iec.Rule
}

// Answer kinds of a remote HEAD for the checked object.
var (
	ErrNotFound    error = apistatus.ErrObjectNotFound
	ErrMaintenance error = apistatus.ErrNodeUnderMaintenance
)

// World is one policer instance ("the local node") plus what it did during the last run.
type World struct {
	P *policer.Policer

	Local     int  // universe index of the local node
	InNetmap  bool // IsLocalNodeInNetmap answer
	Placement Placement
	// HeadAnswer gives the answer of remote node i to a HEAD of the checked object (nil = header returned).
	HeadAnswer func(node int) error
	// Replicate is the remote node's answer to a replication request (nil = stored).
	Replicate func(node int) error

	// records of the last run
	HeadCalls      []int // remote nodes asked for the checked object's header
	HeadOK         []int // ... that returned it
	ReplCalls      []int // remote nodes the real RemoteSender sent the object to
	ReplOK         []int // ... that acknowledged
	CancelledCalls int   // remote calls attempted with an already cancelled context
	ReplPrepErrs   []int // nodes a replica was meant for but never sent to: building the request from the object source failed
	Submitted      []int // nodes reported to the policer through replicator.TaskResult
	Tasks          []Task
	Deletes        []engine.GarbageMark
	ShardTrims     [][]string
	PartHeads      int // HEAD-by-parent requests of checkECParts
	UnknownCalls   []string

	// Optional EC hooks (C22 "callers" part). nil = the default world: every sibling part is healthy.
	// PartHead answers a HEAD for part (rule, part) of the parent on node (remote node or the local one).
	PartHead func(node, rule, part int) (object.Object, error)
	// PartRange answers a remote payload request for part (rule, part) of the parent.
	PartRange func(node, rule, part int) ([]byte, error)
	// LocalRange / LocalHead answer the local storage reads of checkECParts.
	LocalRange func(id oid.ID) ([]byte, error)
	LocalHead  func(id oid.ID) (*object.Object, error)
	// LocalPut answers the replicator's attempt to store an object on the local node (needs the engine
	// Put hook in the overlay).
	LocalPut func(o *object.Object) error
	// CancelAt: 0 = the policer's context is never cancelled; k >= 1 = it is cancelled as soon as k-1 remote
	// HEADs of the checked object have returned (k = 1: before the pass starts). Remote calls made with a
	// cancelled context fail with the context's error, like real RPCs.
	CancelAt int
	cancel   context.CancelFunc

	// AllowForeign: replicas of objects other than the checked one (recreated EC parts) are expected.
	AllowForeign bool
	// Sends lists, in order, every attempt to place a replica: remote sends and local puts.
	Sends []Send

	partHdr map[[2]int]object.Object
	demux   map[io.ReadSeeker]demuxEntry
	eng     *engine.StorageEngine
}

// Send is one attempt to place a replica of object ID on a node.
type Send struct {
	ID   oid.ID
	Node int
	OK   bool
}

// Task is one replication task as the policer handed it to the replicator.
type Task struct {
	Nodes     []int
	Quantity  uint32
	Submitted []int // successes reported for this task
}

type network struct{ w *World }

func (n network) IsLocalNodeInNetmap() bool { return n.w.InNetmap }
func (n network) GetNodesForObject(oid.Address) ([][]netmap.NodeInfo, []uint, []iec.Rule, error) {
	return n.w.Placement.Lists, n.w.Placement.Rep, n.w.Placement.EC, nil
}
func (n network) IsLocalNodePublicKey(k []byte) bool {
	return n.w.Local >= 0 && string(k) == string(pubKeys[n.w.Local])
}

type localStorage struct{ w *World }

func (s localStorage) ListWithCursor(context.Context, uint32, *engine.Cursor, ...string) ([]objectcore.AddressWithAttributes, *engine.Cursor, error) {
	return nil, nil, engine.ErrEndOfListing
}
func (s localStorage) Delete(_ context.Context, a oid.Address, m engine.GarbageMark) error {
	if a.Object() != Obj {
		s.w.UnknownCalls = append(s.w.UnknownCalls, "Delete "+a.String())
	}
	s.w.Deletes = append(s.w.Deletes, m)
	return nil
}
func (s localStorage) DeleteRedundantCopies(_ context.Context, a oid.Address, shards []string) error {
	s.w.ShardTrims = append(s.w.ShardTrims, shards)
	return nil
}
func (s localStorage) Put(context.Context, *object.Object, []byte) error {
	s.w.UnknownCalls = append(s.w.UnknownCalls, "Put")
	return nil
}
func (s localStorage) Head(_ context.Context, a oid.Address, _ bool) (*object.Object, error) {
	if s.w.LocalHead != nil {
		return s.w.LocalHead(a.Object())
	}
	s.w.UnknownCalls = append(s.w.UnknownCalls, "Head")
	return nil, apistatus.ErrObjectNotFound
}
func (s localStorage) HeadECPart(_ context.Context, _ cid.ID, _ oid.ID, pi iec.PartInfo) (object.Object, error) {
	s.w.PartHeads++
	if s.w.PartHead != nil {
		return s.w.PartHead(s.w.Local, pi.RuleIndex, pi.Index)
	}
	return s.w.partHeader(pi.RuleIndex, pi.Index), nil
}
func (s localStorage) GetRange(_ context.Context, a oid.Address, off, ln uint64) ([]byte, error) {
	if s.w.LocalRange != nil {
		b, err := s.w.LocalRange(a.Object())
		if err != nil {
			return nil, err
		}
		if ln == 0 {
			return b[off:], nil
		}
		return b[off : off+ln], nil
	}
	s.w.UnknownCalls = append(s.w.UnknownCalls, "GetRange")
	return nil, apistatus.ErrObjectNotFound
}

// header of a healthy sibling EC part (all other parts of the parent are fine in every case).
func (w *World) partHeader(ruleIdx, partIdx int) object.Object {
	k := [2]int{ruleIdx, partIdx}
	if h, ok := w.partHdr[k]; ok {
		return h
	}
	var par object.Object
	par.SetContainerID(Cnr)
	par.SetOwner(user.ID{})
	par.SetID(Parent)
	o, err := iec.FormObjectForECPart(neofsecdsa.Signer(*key), par, nil, iec.PartInfo{RuleIndex: ruleIdx, Index: partIdx})
	if err != nil {
		panic(err)
	}
	o.SetPayload(nil)
	w.partHdr[k] = o
	return o
}

type fakeClient struct {
	clientcore.MultiAddressClient
	w    *World
	node int
}

// consumeLikeSDK takes the object out of src exactly the way neofs-sdk-go's Client.ReplicateObject does
// before it sends anything (client/object_replicate.go: prepareReplicateMessage / newReplicateMessage):
//   - a source wrapped by client.DemuxReplicatedObject is read ONCE, the prepared message (or the
//     preparation error) is cached in the wrapper and reused by every later call;
//   - any other source is sized (bytes.Reader: Size(); otherwise Seek(0,End) then Seek(-n,Current)) and then
//     read with io.ReadFull FROM ITS CURRENT POSITION; it is never rewound, so a second call on the same
//     plain reader fails with "read full object into the buffer: EOF" without contacting the node.
//
// CalibrateAgainstSDK checks at start-up that this model and the real SDK client leave identical traces.
func (w *World) consumeLikeSDK(src io.ReadSeeker) ([]byte, error) {
	if fmt.Sprintf("%T", src) != demuxTypeName {
		return readLikeSDK(src)
	}
	if e, ok := w.demux[src]; ok {
		return e.msg, e.err
	}
	msg, err := readLikeSDK(src)
	if w.demux == nil {
		w.demux = map[io.ReadSeeker]demuxEntry{}
	}
	w.demux[src] = demuxEntry{msg, err}
	return msg, err
}

const demuxTypeName = "*client.demuxReplicationMessage"

type demuxEntry struct {
	msg []byte
	err error
}

func readLikeSDK(src io.ReadSeeker) ([]byte, error) {
	var size int64
	switch v := src.(type) {
	default:
		n, err := src.Seek(0, io.SeekEnd)
		if err != nil {
			return nil, fmt.Errorf("seek to end: %w", err)
		}
		if _, err = src.Seek(-n, io.SeekCurrent); err != nil {
			return nil, fmt.Errorf("seek back to initial pos: %w", err)
		}
		size = n
	case *bytes.Reader:
		size = v.Size()
	}
	buf := make([]byte, size)
	if _, err := io.ReadFull(src, buf); err != nil {
		return nil, fmt.Errorf("read full object into the buffer: %w", err)
	}
	return buf, nil
}

// CalibrateAgainstSDK runs the REAL SDK client (no connection: the call dies at the gRPC send, after the
// request has been prepared from the source) and the model above on identical sources, three calls each on
// a plain *bytes.Reader and on a DemuxReplicatedObject wrapper, and compares after every call (a) whether
// the call got as far as sending and (b) how many bytes are left unread in the underlying reader.
func CalibrateAgainstSDK() error {
	type obs struct {
		sent bool
		left int
	}
	real := func(src io.ReadSeeker) (sent bool) {
		c, err := client.New(client.PrmInit{})
		if err != nil {
			panic(err)
		}
		defer func() {
			if recover() != nil {
				sent = true // nil connection dereferenced inside Invoke: the request had been prepared
			}
		}()
		_, err = c.ReplicateObject(context.Background(), Obj, src, neofsecdsa.Signer(*key), false)
		return err != nil && strings.Contains(err.Error(), "send request over gRPC")
	}
	w := &World{}
	model := func(src io.ReadSeeker) bool {
		_, err := w.consumeLikeSDK(src)
		return err == nil
	}
	for _, wrap := range []bool{false, true} {
		var got [2][]obs
		for k, f := range []func(io.ReadSeeker) bool{real, model} {
			under := bytes.NewReader(ObjectBytes)
			var src io.ReadSeeker = under
			if wrap {
				src = client.DemuxReplicatedObject(under)
			}
			for i := 0; i < 3; i++ {
				got[k] = append(got[k], obs{f(src), under.Len()})
			}
		}
		if fmt.Sprint(got[0]) != fmt.Sprint(got[1]) {
			return fmt.Errorf("stream consumption model differs from the SDK client (demux=%v): sdk %v, model %v", wrap, got[0], got[1])
		}
		if !got[0][0].sent {
			return fmt.Errorf("calibration is vacuous: the SDK client did not reach the send step (demux=%v): %v", wrap, got[0])
		}
	}
	if t := fmt.Sprintf("%T", client.DemuxReplicatedObject(bytes.NewReader(nil))); t != demuxTypeName {
		return fmt.Errorf("demux wrapper type is %s, model expects %s", t, demuxTypeName)
	}
	return nil
}

// ObjectBytes is what the replicator reads from the local engine for every task.
var ObjectBytes = []byte("verif-object-bytes")

func (c fakeClient) ReplicateObject(ctx context.Context, id oid.ID, src io.ReadSeeker, _ neofscrypto.Signer, _ bool) (*neofscrypto.Signature, error) {
	if err := ctx.Err(); err != nil {
		c.w.CancelledCalls++
		return nil, err
	}
	if id != Obj && !c.w.AllowForeign {
		c.w.UnknownCalls = append(c.w.UnknownCalls, "ReplicateObject "+id.String())
	}
	if id != Obj && c.w.AllowForeign {
		// a recreated EC part: the source is the marshalled part object, consumed like the SDK does
		if _, err := c.w.consumeLikeSDK(src); err != nil {
			c.w.ReplPrepErrs = append(c.w.ReplPrepErrs, c.node)
			return nil, err
		}
		err := c.w.Replicate(c.node)
		c.w.Sends = append(c.w.Sends, Send{id, c.node, err == nil})
		return nil, err
	}
	msg, err := c.w.consumeLikeSDK(src)
	if err != nil {
		// as in the SDK: nothing is sent, the node is never contacted
		c.w.ReplPrepErrs = append(c.w.ReplPrepErrs, c.node)
		return nil, err
	}
	if !bytes.Equal(msg, ObjectBytes) {
		c.w.UnknownCalls = append(c.w.UnknownCalls, fmt.Sprintf("node %d would receive a corrupted object %q", c.node, msg))
	}
	c.w.ReplCalls = append(c.w.ReplCalls, c.node)
	if err := c.w.Replicate(c.node); err != nil {
		c.w.Sends = append(c.w.Sends, Send{id, c.node, false})
		return nil, err
	}
	c.w.Sends = append(c.w.Sends, Send{id, c.node, true})
	c.w.ReplOK = append(c.w.ReplOK, c.node)
	return nil, nil
}

type clients struct{ w *World }

func (c clients) Get(_ context.Context, n netmap.NodeInfo) (clientcore.MultiAddressClient, error) {
	return fakeClient{w: c.w, node: NodeIndex(n)}, nil
}

// recording pass-through in front of the real replicator: records every task and every success the
// real HandleTask submits, and forwards both unchanged.
type replRecorder struct {
	w    *World
	real *replicator.Replicator
}

type resRecorder struct {
	w    *World
	t    int
	next replicator.TaskResult
}

func (r resRecorder) SubmitSuccessfulReplication(n netmap.NodeInfo) {
	i := NodeIndex(n)
	r.w.Submitted = append(r.w.Submitted, i)
	r.w.Tasks[r.t].Submitted = append(r.w.Tasks[r.t].Submitted, i)
	r.next.SubmitSuccessfulReplication(n)
}

func (x replRecorder) HandleTask(ctx context.Context, t replicator.Task, res replicator.TaskResult) {
	tk := Task{Quantity: t.VerifQuantity()}
	for _, n := range t.Nodes() {
		tk.Nodes = append(tk.Nodes, NodeIndex(n))
	}
	x.w.Tasks = append(x.w.Tasks, tk)
	x.real.HandleTask(ctx, t, resRecorder{w: x.w, t: len(x.w.Tasks) - 1, next: res})
}

// KeyStorage returns a key storage holding the fixed harness key.
func KeyStorage() *objutil.KeyStorage { return objutil.NewKeyStorage(key, nil, nil) }

// farCtx is a never-cancelled context that reports a deadline in the year 2200. The policer and the
// replicator wrap every remote call in context.WithTimeout(ctx, timeout); with timeouts of ~290 years
// the parent deadline is the earlier one, so the standard library returns a plain cancel context and
// arms no runtime timer (pure cost saving: no deadline can fire on any explored path either way).
type farCtx struct{}

var farDeadline = time.Date(2200, 1, 1, 0, 0, 0, 0, time.UTC)

func (farCtx) Deadline() (time.Time, bool) { return farDeadline, true }
func (farCtx) Done() <-chan struct{}       { return nil }
func (farCtx) Err() error                  { return nil }
func (farCtx) Value(any) any               { return nil }

const farTimeout = time.Duration(1<<63 - 1)

// New builds a world around one real Policer.
func New() *World {
	w := &World{partHdr: map[[2]int]object.Object{}}
	conns := &policer.VerifConns{
		Head: func(ctx context.Context, n netmap.NodeInfo, a oid.Address, _ bool, xs []string) (object.Object, error) {
			i := NodeIndex(n)
			if xs != nil { // checkECParts: sibling part requested by parent + EC attributes
				w.PartHeads++
				if a.Object() != Parent || len(xs) != 4 {
					w.UnknownCalls = append(w.UnknownCalls, fmt.Sprint("part head ", a, xs))
					return object.Object{}, ErrGeneric
				}
				ri, _ := strconv.Atoi(xs[1])
				pi, _ := strconv.Atoi(xs[3])
				if w.PartHead != nil {
					return w.PartHead(i, ri, pi)
				}
				return w.partHeader(ri, pi), nil
			}
			if a.Object() != Obj {
				w.UnknownCalls = append(w.UnknownCalls, "head "+a.String())
			}
			if err := ctx.Err(); err != nil {
				w.CancelledCalls++
				return object.Object{}, err
			}
			w.HeadCalls = append(w.HeadCalls, i)
			if w.cancel != nil && len(w.HeadCalls) == w.CancelAt-1 {
				defer w.cancel()
			}
			if err := w.HeadAnswer(i); err != nil {
				return object.Object{}, err
			}
			w.HeadOK = append(w.HeadOK, i)
			return object.Object{}, nil
		},
		Range: func(_ context.Context, n netmap.NodeInfo, _ cid.ID, id oid.ID, off, ln uint64, xs []string) (io.ReadCloser, error) {
			if w.PartRange != nil && id == Parent && len(xs) == 4 {
				ri, _ := strconv.Atoi(xs[1])
				pi, _ := strconv.Atoi(xs[3])
				b, err := w.PartRange(NodeIndex(n), ri, pi)
				if err != nil {
					return nil, err
				}
				if ln == 0 {
					b = b[off:]
				} else {
					b = b[off : off+ln]
				}
				return io.NopCloser(bytes.NewReader(b)), nil
			}
			w.UnknownCalls = append(w.UnknownCalls, "remote GetRange")
			return nil, ErrGeneric
		},
	}
	net := network{w}
	w.eng = new(engine.StorageEngine)
	engWorlds.Store(w.eng, w)
	rs := putsvc.NewRemoteSender(objutil.NewKeyStorage(key, nil, nil), clients{w})
	rp := replicator.New(
		replicator.WithLogger(zap.NewNop()),
		replicator.WithRemoteSender(rs),
		replicator.WithLocalStorage(w.eng),
		replicator.WithLocalNodeKey(net),
		replicator.WithPutTimeout(farTimeout),
	)
	w.P = policer.VerifNewPolicer(neofsecdsa.Signer(*key), net, localStorage{w}, conns, replRecorder{w, rp}, policer.WithHeadTimeout(farTimeout))
	return w
}

// Reset forgets the records of the previous run.
func (w *World) Reset() {
	w.HeadCalls, w.HeadOK, w.ReplCalls, w.ReplOK, w.Submitted = w.HeadCalls[:0], w.HeadOK[:0], w.ReplCalls[:0], w.ReplOK[:0], w.Submitted[:0]
	w.Tasks, w.Deletes, w.ShardTrims, w.UnknownCalls = nil, nil, nil, nil
	w.PartHeads = 0
	w.ReplPrepErrs = w.ReplPrepErrs[:0]
	w.CancelledCalls = 0
	w.Sends = w.Sends[:0]
	w.demux = nil
}

// Run performs one real policy check of the fixed object (what the policer does for every address its
// local storage lists).
func (w *World) Run(typ object.Type, shards []string, ecRuleIdx, ecPartIdx int) {
	w.Reset()
	a := objectcore.AddressWithAttributes{Address: oid.NewAddress(Cnr, Obj), Type: typ, Attributes: make([]string, 3), ShardIDs: shards}
	if ecPartIdx >= 0 {
		a.Attributes[0] = strconv.Itoa(ecRuleIdx)
		a.Attributes[1] = strconv.Itoa(ecPartIdx)
		a.Attributes[2] = string(Parent[:])
	}
	var ctx context.Context = farCtx{}
	w.cancel = nil
	if w.CancelAt > 0 {
		ctx, w.cancel = context.WithCancel(ctx)
		if w.CancelAt == 1 {
			w.cancel()
		}
	}
	w.P.VerifProcessObject(ctx, a)
	if w.cancel != nil {
		w.cancel()
		w.cancel = nil
	}
}
