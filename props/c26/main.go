// C26: the policer never drops a local copy that may be needed.
//
// Exhaustive product over placements x per-node answers x replication outcomes x object types,
// every case driven through the REAL processObject/processNodes/processECPartByRule (and the real
// replicator.HandleTask + putsvc.RemoteSender in front of fake per-node API clients).
// Oracle (from the property text only): a recorded localStorage.Delete implies, for every rule that
// lists the local node, #(other nodes of that list whose header was really read or that really
// acknowledged a replica) >= the rule's copy number; maintenance / failing nodes never count; LOCK/LINK
// are never dropped on a container node.
package main

import (
	"fmt"
	"hash/fnv"
	"os"
	"runtime/pprof"
	"sort"
	"strconv"
	"strings"
	"sync"
	"sync/atomic"

	iec "github.com/nspcc-dev/neofs-node/internal/ec"
	"github.com/nspcc-dev/neofs-node/verif/lib/enumx"
	"github.com/nspcc-dev/neofs-node/verif/lib/ev"
	"github.com/nspcc-dev/neofs-node/verif/props/c26/polworld"
	"github.com/nspcc-dev/neofs-sdk-go/netmap"
	"github.com/nspcc-dev/neofs-sdk-go/object"
)

// answer kinds of a remote node
const (
	aHas        = iota // returns the header
	aNFReplOK          // 404, accepts a replica
	aNFReplFail        // 404, refuses / fails a replica
	aMaintFlag         // flagged MAINTENANCE in the network map (and answers NODE_UNDER_MAINTENANCE)
	aMaintStat         // not flagged, answers NODE_UNDER_MAINTENANCE
	aError             // any other failure (unreachable)
	nAns
)

var ansName = [nAns]string{"has", "404+repl-ok", "404+repl-fail", "maint-flag", "maint-status", "error"}

var shardNames = []string{"shard0", "shard1"}

var types = []object.Type{object.TypeRegular, object.TypeTombstone, object.TypeLock, object.TypeLink}

type tcase struct {
	Kind     string  // "rep" | "ec-part" | "ec-plain" | "mixed" (REP lists first, then one list per EC rule of ECs)
	Lists    [][]int // node ids: 0 = the local node, 1..K = remote nodes
	Reps     []int   // copies per REP rule
	InNetmap bool
	Ans      []int // Ans[k-1] = answer kind of remote node k
	Type     int   // index into types
	Shards   int   // number of local shards holding the copy
	ECData   int
	ECParity int
	Part     int      // EC part index held locally (ec-part; mixed: -1 = the object is not an EC part)
	ECs      [][2]int // mixed: (data, parity) per EC rule
	PartRule int      // mixed: EC rule of the locally held part
	CancelAt int      // 0 = never; k >= 1: the policer's context is cancelled as soon as k-1 remote HEADs have returned
}

func (c tcase) String() string {
	var a []string
	for i, k := range c.Ans {
		a = append(a, fmt.Sprintf("n%d=%s", i+1, ansName[k]))
	}
	s := fmt.Sprintf("%s lists=%v (0=local)", c.Kind, c.Lists)
	if c.Kind == "rep" {
		s += fmt.Sprintf(" REP=%v", c.Reps)
	} else if c.Kind == "mixed" {
		s += fmt.Sprintf(" REP=%v (first %d lists) EC=%v (remaining lists)", c.Reps, len(c.Reps), c.ECs)
		if c.Part >= 0 {
			s += fmt.Sprintf(" object=part %d of EC rule #%d", c.Part, c.PartRule)
		}
	} else {
		s += fmt.Sprintf(" EC %d/%d part=%d", c.ECData, c.ECParity, c.Part)
	}
	s += fmt.Sprintf(" type=%v shards=%d inNetmap=%v answers[%s]", types[c.Type], c.Shards, c.InNetmap, strings.Join(a, " "))
	if c.CancelAt > 0 {
		s += fmt.Sprintf(" policer context cancelled when HEAD #%d returns (0 = before the pass)", c.CancelAt-1)
	}
	return s
}

type outcome struct {
	fp, what string
	class    string // outcome class for vacuity accounting
	trace    []byte // what the policer did (for distinct counting)
	contact  bool
	deleted  bool
	heads    int
}

func has(xs []int, v int) bool {
	for _, x := range xs {
		if x == v {
			return true
		}
	}
	return false
}

func run(w *polworld.World, c tcase) outcome {
	w.Local = 0
	w.CancelAt = c.CancelAt
	w.InNetmap = c.InNetmap
	w.Placement = polworld.Placement{}
	for _, l := range c.Lists {
		nl := make([]netmap.NodeInfo, len(l))
		for i, id := range l {
			nl[i] = polworld.Node(id, id > 0 && c.Ans[id-1] == aMaintFlag)
		}
		w.Placement.Lists = append(w.Placement.Lists, nl)
	}
	w.HeadAnswer = func(n int) error {
		switch c.Ans[n-1] {
		case aHas:
			return nil
		case aNFReplOK, aNFReplFail:
			return polworld.ErrNotFound
		case aMaintFlag, aMaintStat:
			return polworld.ErrMaintenance
		}
		return polworld.ErrGeneric
	}
	w.Replicate = func(n int) error {
		switch c.Ans[n-1] {
		case aHas, aNFReplOK:
			return nil
		case aMaintFlag, aMaintStat:
			return polworld.ErrMaintenance
		}
		return polworld.ErrGeneric
	}
	shards := shardNames[:c.Shards]
	switch c.Kind {
	case "rep":
		for _, r := range c.Reps {
			w.Placement.Rep = append(w.Placement.Rep, uint(r))
		}
		w.Run(types[c.Type], shards, -1, -1)
	case "ec-part":
		w.Placement.EC = []iec.Rule{{DataPartNum: uint8(c.ECData), ParityPartNum: uint8(c.ECParity)}}
		w.Run(object.TypeRegular, shards, 0, c.Part)
	case "ec-plain":
		w.Placement.EC = []iec.Rule{{DataPartNum: uint8(c.ECData), ParityPartNum: uint8(c.ECParity)}}
		w.Run(types[c.Type], shards, -1, -1)
	case "mixed":
		w.Placement.Rep = make([]uint, 0, len(c.Reps))
		for _, r := range c.Reps {
			w.Placement.Rep = append(w.Placement.Rep, uint(r))
		}
		for _, e := range c.ECs {
			w.Placement.EC = append(w.Placement.EC, iec.Rule{DataPartNum: uint8(e[0]), ParityPartNum: uint8(e[1])})
		}
		if c.Part >= 0 {
			w.Run(object.TypeRegular, shards, c.PartRule, c.Part)
		} else {
			w.Run(types[c.Type], shards, -1, -1)
		}
	}
	return judge(w, c)
}

// judge is the oracle. Ground truth of "confirmed" comes from the fakes (a header was actually
// returned / a replica was actually acknowledged), not from the policer's bookkeeping.
func judge(w *polworld.World, c tcase) (o outcome) {
	o.deleted = len(w.Deletes) > 0
	o.heads = len(w.HeadCalls)
	o.contact = len(w.HeadCalls)+len(w.ReplCalls) > 0
	for _, l := range [][]int{w.HeadCalls, w.HeadOK, w.ReplCalls, w.ReplOK} {
		for _, n := range l {
			o.trace = append(o.trace, byte(n))
		}
		o.trace = append(o.trace, 0xff)
	}
	o.trace = append(o.trace, byte(len(w.Deletes)), byte(len(w.ShardTrims)))
	switch {
	case o.deleted && len(w.ReplOK) > 0:
		o.class = "dropped-after-replication"
	case o.deleted:
		o.class = "dropped"
	case len(w.ShardTrims) > 0 && len(w.Tasks) > 0:
		o.class = "held+replicated+shard-duplicates-trimmed"
	case len(w.ShardTrims) > 0:
		o.class = "held+shard-duplicates-trimmed"
	case len(w.ReplOK) > 0:
		o.class = "held+replicated"
	case len(w.Tasks) > 0:
		o.class = "held+replication-failed"
	default:
		o.class = "held"
	}
	fail := func(fp, f string, a ...any) outcome {
		if c.CancelAt > 0 && !strings.HasPrefix(fp, "harness:") {
			fp += ";policer-context-cancelled-mid-pass"
		}
		o.fp, o.what = fp, c.String()+": "+fmt.Sprintf(f, a...)+fmt.Sprintf(" [policer: HEAD asked %v ok %v; replicated to %v ok %v; deletes %v]", w.HeadCalls, w.HeadOK, w.ReplCalls, w.ReplOK, w.Deletes)
		return o
	}
	if len(w.UnknownCalls) > 0 {
		return fail("harness:unexpected-call", "unexpected dependency call %v", w.UnknownCalls)
	}
	// fakes must be honest by construction (guards the harness itself)
	for _, n := range w.HeadOK {
		if c.Ans[n-1] != aHas {
			return fail("harness:head-ok-from-non-holder", "node %d", n)
		}
	}
	// replicator reporting (property anchor: Replicator.HandleTask success reporting)
	for _, t := range w.Tasks {
		if uint32(len(t.Submitted)) > t.Quantity {
			return fail("replicator:more-successes-than-asked", "task %v asked %d got %d", t.Nodes, t.Quantity, len(t.Submitted))
		}
		for _, n := range t.Submitted {
			if !has(w.ReplOK, n) {
				return fail("replicator:success-reported-for-node-that-did-not-store", "node %d", n)
			}
		}
	}
	// every candidate the task loop reaches must actually be sent the replica: the object source has to
	// serve all candidates of one task (stream-consuming clients, see polworld.consumeLikeSDK)
	if len(w.ReplPrepErrs) > 0 {
		return fail("replicator:candidate-not-contacted:object-source-exhausted-by-an-earlier-candidate", "candidate(s) %v were never sent the replica", w.ReplPrepErrs)
	}
	if len(w.ShardTrims) > 0 {
		if o.deleted {
			return fail("shard-trim-and-drop-in-one-pass", "DeleteRedundantCopies and Delete both called")
		}
		if c.Shards < 2 || len(w.ShardTrims[0]) != c.Shards {
			return fail("shard-trim-of-single-copy", "DeleteRedundantCopies(%v) for a copy on %d shard(s)", w.ShardTrims[0], c.Shards)
		}
	}
	if !o.deleted {
		return o
	}
	confirmed := func(n int) bool { return n > 0 && (has(w.HeadOK, n) || has(w.ReplOK, n)) }
	maint := func(n int) bool { return n > 0 && (c.Ans[n-1] == aMaintFlag || c.Ans[n-1] == aMaintStat) }
	cause := func(deficit, nMaint int, list []int) string {
		s := "no-maintenance-node-involved"
		if nMaint >= deficit {
			s = "assumed-copies-on-maintenance-nodes-counted"
		} else if nMaint > 0 {
			s = "assumed-copies-on-maintenance-nodes-counted+other-unconfirmed-nodes"
		}
		cand := false
		for _, n := range list {
			if n > 0 && (c.Ans[n-1] == aNFReplOK || c.Ans[n-1] == aNFReplFail) && has(w.HeadCalls, n) {
				cand = true
			}
		}
		if cand {
			s += ";a-checked-node-answered-404"
		} else {
			s += ";no-404-answer"
		}
		return s
	}
	localListed := false
	for _, l := range c.Lists {
		if has(l, 0) {
			localListed = true
		}
	}
	// The requirement is computed from the POLICY (never from the policer's intermediate arrays):
	//  - an EC part is needed unless another node of ITS rule's list is confirmed to hold it;
	//  - LOCK/LINK are kept on every node of every list; TOMBSTONE on every node of every EC list;
	//  - otherwise every REP rule listing the local node needs REP confirmed other holders of its list;
	//  - a copy no rule asks for may go only after at least one real confirmation.
	nRep := 0
	switch c.Kind {
	case "rep":
		nRep = len(c.Lists)
	case "mixed":
		nRep = len(c.Reps)
	}
	if c.Kind == "ec-part" || (c.Kind == "mixed" && c.Part >= 0) {
		list := c.Lists[0]
		if c.Kind == "mixed" {
			list = c.Lists[nRep+c.PartRule]
		}
		cnt, nm := 0, 0
		for _, n := range list {
			if confirmed(n) {
				cnt++
			}
			if maint(n) {
				nm++
			}
		}
		if cnt == 0 {
			return fail("ec-part:dropped-without-any-confirmed-holder:"+cause(1, nm, list), "EC part removed with no confirmed other holder in its rule's list %v", list)
		}
		return o
	}
	typ := types[c.Type]
	if localListed && (typ == object.TypeLock || typ == object.TypeLink) {
		return fail("lock-or-link-dropped-on-container-node", "%v removed from a container node", typ)
	}
	localInRep := false
	for i, l := range c.Lists {
		if !has(l, 0) {
			continue
		}
		if i >= nRep {
			if typ == object.TypeTombstone {
				return fail("tombstone-dropped-on-node-of-an-EC-list", "TOMBSTONE removed from a node of EC list #%d %v (tombstones are kept on every node of every EC list)", i-nRep, l)
			}
			continue // a whole REGULAR object is not required by an EC rule
		}
		localInRep = true
		req := c.Reps[i]
		cnt, nm := 0, 0
		for _, n := range l {
			if confirmed(n) {
				cnt++
			}
			if maint(n) {
				nm++
			}
		}
		if cnt < req {
			return fail("in-container:local-copy-dropped-with-confirmed<required:"+cause(req-cnt, nm, l),
				"local copy removed although rule #%d (REP %d over %v) has only %d confirmed other holder(s)", i, req, l, cnt)
		}
	}
	if !localInRep {
		// No rule asks for this copy: the text still forbids maintenance/unreachable nodes to serve as the
		// confirmation a removal is based on, so at least one real confirmation must exist.
		cnt, nm := 0, 0
		seen := map[int]bool{}
		var all []int
		for _, l := range c.Lists {
			for _, n := range l {
				if seen[n] {
					continue
				}
				seen[n] = true
				all = append(all, n)
				if confirmed(n) {
					cnt++
				}
				if maint(n) {
					nm++
				}
			}
		}
		if cnt == 0 {
			return fail("outside-container:local-copy-dropped-with-no-confirmed-holder:"+cause(1, nm, all),
				"node that no rule asks to keep the copy removed it with no confirmed holder at all")
		}
	}
	return o
}

// ---- enumeration ------------------------------------------------------------------------------------

// lists2 enumerates, up to renaming of remote nodes, every pair (or single) of ordered lists of
// distinct nodes: the local node (0) at any position or absent, remote nodes numbered in order of
// first appearance, the second list drawing from the first list's nodes and fresh ones.
func genLists(nRules int, lens []int, maxRemotes int, f func(lists [][]int, remotes int)) {
	var rec func(li int, cur [][]int, k int)
	rec = func(li int, cur [][]int, k int) {
		if li == nRules {
			cp := make([][]int, len(cur))
			for i := range cur {
				cp[i] = append([]int(nil), cur[i]...)
			}
			f(cp, k)
			return
		}
		n := lens[li]
		list := make([]int, 0, n)
		var fill func(k2 int)
		fill = func(k2 int) {
			if len(list) == n {
				rec(li+1, append(cur, list), k2)
				return
			}
			for id := 0; id <= k2+1 && id <= maxRemotes; id++ {
				if has(list, id) {
					continue
				}
				list = append(list, id)
				nk := k2
				if id == k2+1 {
					nk = id
				}
				fill(nk)
				list = list[:len(list)-1]
			}
		}
		fill(k)
	}
	rec(0, nil, 0)
}

type job struct {
	base tcase
	k    int   // number of remote nodes
	tys  []int // object types (nil = default of the kind)
	ans  []int // answer kinds of the remote nodes (nil = all)
}

var stopProf = func() {}

func main() {
	r := ev.Start("C26", ev.Exploration)
	if pf := os.Getenv("VERIF_PROF"); pf != "" { // developer aid only
		f, _ := os.Create(pf)
		pprof.StartCPUProfile(f)
		stopProf = pprof.StopCPUProfile
	}
	if err := polworld.CalibrateAgainstSDK(); err != nil {
		r.Fatal("%v", err)
	}
	pool := sync.Pool{New: func() any { return polworld.New() }}
	if r.Replay != "" {
		var c tcase
		r.LoadReplay(&c)
		o := run(polworld.New(), c)
		r.Eval(1)
		fmt.Println("replay:", c, "->", o.class)
		if o.fp != "" {
			r.Violation(o.fp, o.what, c)
		}
		r.Finish()
	}

	var jobs []job
	// --- REP, one rule: full product, lists of 1..5 nodes
	for n := 1; n <= 5; n++ {
		genLists(1, []int{n}, 5, func(lists [][]int, k int) {
			for rep := 1; rep <= 3 && rep <= n; rep++ {
				jobs = append(jobs, job{tcase{Kind: "rep", Lists: lists, Reps: []int{rep}}, k, nil, nil})
			}
		})
	}
	oneRuleJobs := len(jobs)
	// --- REP, two rules: overlapping lists (reduced sizes)
	type b2 struct {
		maxLen, maxK int
		tys          []int
	}
	bounds2 := []b2{{3, 3, []int{0, 1, 2, 3}}}
	bounds2txt := "lists of 1..3 nodes over <=3 remote nodes + local"
	if r.Thorough() {
		bounds2 = []b2{{3, 5, []int{0, 1, 2, 3}}, {4, 4, []int{0, 2}}}
		bounds2txt = "lists of 1..3 nodes over <=5 remote nodes + local (all types), and lists of 1..4 nodes over <=4 remote nodes + local (REGULAR and LOCK)"
	}
	for bi, b := range bounds2 {
		for n1 := 1; n1 <= b.maxLen; n1++ {
			for n2 := 1; n2 <= b.maxLen; n2++ {
				genLists(2, []int{n1, n2}, b.maxK, func(lists [][]int, k int) {
					if bi > 0 && n1 <= bounds2[0].maxLen && n2 <= bounds2[0].maxLen && k <= bounds2[0].maxK {
						return // already covered (with all types) by the first bound
					}
					for r1 := 1; r1 <= 3 && r1 <= n1; r1++ {
						for r2 := 1; r2 <= 3 && r2 <= n2; r2++ {
							jobs = append(jobs, job{tcase{Kind: "rep", Lists: lists, Reps: []int{r1, r2}}, k, b.tys, nil})
						}
					}
				})
			}
		}
	}
	twoRuleJobs := len(jobs) - oneRuleJobs
	// --- EC-only container: parts of 2/1 and 1/1 rules (lists of total..5 nodes), and TOMBSTONE/LOCK/LINK
	for _, rule := range [][2]int{{2, 1}, {1, 1}, {1, 2}} {
		tot := rule[0] + rule[1]
		for n := tot; n <= 5; n++ {
			genLists(1, []int{n}, 5, func(lists [][]int, k int) {
				for p := 0; p < tot; p++ {
					jobs = append(jobs, job{tcase{Kind: "ec-part", Lists: lists, ECData: rule[0], ECParity: rule[1], Part: p}, k, nil, nil})
				}
				jobs = append(jobs, job{tcase{Kind: "ec-plain", Lists: lists, ECData: rule[0], ECParity: rule[1]}, k, nil, nil})
			})
		}
	}
	ecJobs := len(jobs) - oneRuleJobs - twoRuleJobs
	// --- REP+EC mixed policies and several EC rules: REP lists first, then one list per EC rule; list lengths
	// on both sides of each other, lists overlapping in every way; object = REGULAR (if a REP rule exists),
	// TOMBSTONE, LOCK, LINK, or any part of any EC rule
	type mx struct {
		nRep, nEC int
		maxRepLen int
		maxECLen  int
		maxK      int
		ecRules   [][2]int
	}
	mixes := []mx{
		{1, 1, 3, 4, 3, [][2]int{{1, 1}, {2, 1}}},
		{2, 1, 2, 3, 2, [][2]int{{1, 1}}},
		{1, 2, 2, 3, 2, [][2]int{{1, 1}}},
		{0, 2, 0, 3, 3, [][2]int{{1, 1}, {2, 1}}},
	}
	mixTxt := "1 REP (1..3 nodes)+1 EC (1/1 or 2/1, total..4 nodes) over <=3 remotes+local; 2 REP (1..2)+1 EC 1/1 (2..3) and 1 REP (1..2)+2 EC 1/1 (2..3) over <=2 remotes+local; 2 EC rules (1/1, 2/1; total..3 nodes) over <=3 remotes+local; remote answers {has, 404+replica accepted, flagged maintenance, error}"
	if r.Thorough() {
		mixes = []mx{
			{1, 1, 4, 4, 4, [][2]int{{1, 1}, {2, 1}}},
			{2, 1, 2, 3, 3, [][2]int{{1, 1}, {2, 1}}},
			{1, 2, 2, 3, 3, [][2]int{{1, 1}, {2, 1}}},
			{0, 2, 0, 3, 4, [][2]int{{1, 1}, {2, 1}}},
		}
		mixTxt = "1 REP (1..4 nodes)+1 EC (1/1 or 2/1, total..4 nodes) over <=4 remotes+local; 2 REP (1..2)+1 EC (total..3) and 1 REP (1..2)+2 EC (total..3) over <=3 remotes+local; 2 EC rules (total..3 nodes) over <=4 remotes+local; remote answers {has, 404+replica accepted, flagged maintenance, error}"
	}
	mixAns := []int{aHas, aNFReplOK, aMaintFlag, aError}
	for mi, m := range mixes {
		before := len(jobs)
		n := m.nRep + m.nEC
		lens := make([]int, n)
		ecs := make([][2]int, m.nEC)
		var recLen func(i int)
		emit := func() {
			genLists(n, lens, m.maxK, func(lists [][]int, k int) {
				sizes := make([]int, m.nRep)
				for i := range sizes {
					sizes[i] = min(3, lens[i])
				}
				if m.nRep == 0 {
					sizes = []int{1}
				}
				enumx.Product(sizes, func(idx []int) bool {
					reps := make([]int, m.nRep)
					for i := range reps {
						reps[i] = idx[i] + 1
					}
					base := tcase{Kind: "mixed", Lists: lists, Reps: reps, ECs: append([][2]int(nil), ecs...), Part: -1}
					tys := []int{1, 2, 3}
					if m.nRep > 0 {
						tys = []int{0, 1, 2, 3}
					}
					jobs = append(jobs, job{base, k, tys, mixAns})
					for ri, e := range ecs {
						for pi := 0; pi < e[0]+e[1]; pi++ {
							b := base
							b.PartRule, b.Part = ri, pi
							jobs = append(jobs, job{b, k, []int{0}, mixAns})
						}
					}
					return true
				})
			})
		}
		recLen = func(i int) {
			if i == n {
				emit()
				return
			}
			if i < m.nRep {
				for l := 1; l <= m.maxRepLen; l++ {
					lens[i] = l
					recLen(i + 1)
				}
				return
			}
			for _, e := range m.ecRules {
				ecs[i-m.nRep] = e
				for l := e[0] + e[1]; l <= m.maxECLen; l++ {
					lens[i] = l
					recLen(i + 1)
				}
			}
		}
		recLen(0)
		if os.Getenv("VERIF_COUNT") != "" {
			var n int64
			for _, j := range jobs[before:] {
				c := int64(len(j.tys))
				for i := 0; i < j.k; i++ {
					c *= int64(len(j.ans))
				}
				n += c
			}
			fmt.Println("mix", mi, m, "jobs", len(jobs)-before, "cases", n)
		}
	}
	mixedJobs := len(jobs) - oneRuleJobs - twoRuleJobs - ecJobs
	if os.Getenv("VERIF_COUNT") != "" { // developer aid
		var n int64
		for _, j := range jobs[len(jobs)-mixedJobs:] {
			c := int64(1)
			for i := 0; i < j.k; i++ {
				c *= int64(len(j.ans))
			}
			n += c * int64(len(j.tys))
		}
		fmt.Println("mixed jobs", mixedJobs, "cases >=", n)
		os.Exit(0)
	}

	// simplest first: if the time budget ever cuts the run, only the largest placements are lost
	sort.SliceStable(jobs, func(a, b int) bool { return jobs[a].k < jobs[b].k })
	cancelK := 2 // the cancellation dimension is applied to placements with at most this many remote nodes
	if r.Thorough() {
		cancelK = 3
	}
	var mu sync.Mutex
	traces := map[uint64]struct{}{}
	classes := map[string]int64{}
	violClasses := map[string]int64{}
	violFirst := map[string]string{}
	var deletes, contacted atomic.Int64
	expired := atomic.Bool{}
	enumx.Parallel(len(jobs), func(ji int) {
		if r.Expired() {
			expired.Store(true)
			return
		}
		j := jobs[ji]
		w := pool.Get().(*polworld.World)
		defer pool.Put(w)
		localListed := false
		for _, l := range j.base.Lists {
			if has(l, 0) {
				localListed = true
			}
		}
		ltraces := map[uint64]struct{}{}
		lclasses := map[string]int64{}
		sizes := make([]int, j.k)
		for i := range sizes {
			sizes[i] = nAns
			if j.ans != nil {
				sizes[i] = len(j.ans)
			}
		}
		shape := fmt.Sprint(j.base.Kind, j.base.Lists, j.base.Reps, j.base.ECData, j.base.ECParity, j.base.Part, j.base.ECs, j.base.PartRule)
		one := func(c tcase) {
			o := run(w, c)
			r.Eval(1)
			lclasses[o.class]++
			if o.deleted {
				deletes.Add(1)
			}
			if o.contact {
				contacted.Add(1)
				h := fnv.New64a()
				h.Write([]byte(shape))
				h.Write([]byte{byte(c.Type), byte(len(o.trace))})
				h.Write(o.trace)
				ltraces[h.Sum64()] = struct{}{}
			}
			if o.fp != "" {
				r.Violation(o.fp, o.what, c)
				mu.Lock()
				if violClasses[o.fp] == 0 {
					violFirst[o.fp] = o.what
				}
				violClasses[o.fp]++
				mu.Unlock()
			} else if o.deleted && c.Kind == "rep" && len(c.Lists) == 2 && j.k >= 3 && r.WantSample() {
				r.Sample(map[string]any{"case": c.String(), "outcome": o.class})
			}
			// cancellation dimension (small placements): stop the policer as the k-th HEAD returns, every k
			if c.CancelAt == 0 && j.k <= cancelK && j.k > 0 {
				for k := 1; k <= o.heads+1; k++ {
					cc := c
					cc.CancelAt = k
					oc := run(w, cc)
					r.Eval(1)
					lclasses["cancelled:"+oc.class]++
					if oc.fp != "" {
						r.Violation(oc.fp, oc.what, cc)
						mu.Lock()
						if violClasses[oc.fp] == 0 {
							violFirst[oc.fp] = oc.what
						}
						violClasses[oc.fp]++
						mu.Unlock()
					}
				}
			}
		}
		var tys, shs []int
		var nms []bool
		switch j.base.Kind {
		case "rep":
			tys = []int{0, 1, 2, 3}
			shs = []int{1, 2}
			if len(j.base.Lists) == 2 {
				shs = []int{2}
			}
		case "ec-part":
			tys, shs = []int{0}, []int{1, 2}
		case "ec-plain":
			tys, shs = []int{1, 2, 3}, []int{2}
		case "mixed":
			shs = []int{2}
			if j.base.Part >= 0 {
				shs = []int{1}
			}
		}
		if j.tys != nil {
			tys = j.tys
		}
		nms = []bool{true}
		if !localListed {
			nms = []bool{true, false}
		}
		if j.k == 0 {
			sizes = []int{1}
		}
		enumx.Product(sizes, func(idx []int) bool {
			c := j.base
			c.Ans = append([]int(nil), idx[:j.k]...)
			if j.ans != nil {
				for i := range c.Ans {
					c.Ans[i] = j.ans[c.Ans[i]]
				}
			}
			for _, ty := range tys {
				for _, sh := range shs {
					for _, nm := range nms {
						c.Type, c.Shards, c.InNetmap = ty, sh, nm
						one(c)
					}
				}
			}
			return true
		})
		mu.Lock()
		for k := range ltraces {
			traces[k] = struct{}{}
		}
		for k, v := range lclasses {
			classes[k] += v
		}
		mu.Unlock()
	})
	for k := range traces {
		r.Nontrivial(strconv.FormatUint(k, 16))
	}
	var cl []string
	for k, v := range classes {
		cl = append(cl, fmt.Sprintf("%s=%d", k, v))
	}
	sort.Strings(cl)
	var vc []string
	for k, v := range violClasses {
		vc = append(vc, fmt.Sprintf("%s  x%d  first: %s", k, v, violFirst[k]))
	}
	sort.Strings(vc)
	for _, l := range vc {
		fmt.Println("violation-class:", l)
	}
	r.Set("violation_classes", vc)
	r.Set("outcome_classes", len(classes))
	r.Set("outcome_class_counts", cl)
	r.Set("cases_with_local_copy_dropped", deletes.Load())
	r.Set("cases_contacting_remote_nodes", contacted.Load())
	r.Set("placement_shapes", map[string]int{"rep_one_rule": oneRuleJobs, "rep_two_rules": twoRuleJobs, "ec": ecJobs, "mixed_rep+ec_and_multi_ec": mixedJobs})
	r.Rule(fmt.Sprintf("placements up to renaming of remote nodes: ONE REP rule = every list of 1..5 nodes with the local node at every position or absent x REP 1..3 (full product); TWO REP rules = every ordered pair of %s, lists sharing nodes in every way, REP 1..3 each; EC-only container with rule 2/1, 1/1 or 1/2 over 2..5 nodes: every part index, and TOMBSTONE/LOCK/LINK objects; MIXED policies (REP lists + EC lists, list lengths on both sides of each other, lists overlapping in every way): %s, object = REGULAR/TOMBSTONE/LOCK/LINK or any part of any EC rule; x every remote node answering one of {has, 404+replica accepted, 404+replica refused, flagged maintenance, NODE_UNDER_MAINTENANCE status, error} x type REGULAR/TOMBSTONE/LOCK/LINK x 1-2 local shards (2 only for two-rule and ec-plain cases) x in/out of the network map when no list has the local node. distinct non-trivial = distinct (placement shape, type, policer trace [nodes HEADed, headers read, replicas sent/acked, deletes]) with at least one remote node contacted. Cancellation dimension: every case over at most %d remote nodes is re-run with the policer's context cancelled as the k-th remote HEAD returns, for every k = 0..number of HEADs of the case (remote calls made afterwards fail with the context error); same oracle", bounds2txt, mixTxt, cancelK))
	r.Exhaustive(!expired.Load())
	r.Assume("every node answers the same way each time it is asked within one policer pass (per-node deterministic answers)",
		"GetNodesForObject succeeds (missing-container clean-up is outside the property); objects that are invalid for the policy (EC attributes without EC rule, REGULAR non-part object in an EC-only container: removed as garbage by design) are not enumerated; mixed REP+EC policies ARE enumerated although the Inner Ring refuses to register them today (the policer handles them)",
		"sibling EC parts are healthy, so checkECParts returns without recreating anything",
		"requirements are derived from the policy, never from the policer's intermediate arrays: LOCK/LINK stay on every node of every list, TOMBSTONE on every node of every EC list, a REP rule listing the local node needs REP confirmed other holders of its own list, an EC part needs one confirmed holder in its own rule's list; a copy no rule asks for (incl. a whole REGULAR object on a node that only EC rules list) may go after one real (non-maintenance, non-error) confirmation")
	stopProf()
	r.Finish()
}
