// C41: the fast header parsers (internal/object/wire.go, fstree/head.go) agree with full object
// decoding; malformed input gives an error, never a panic.
//
// Exhaustive enumeration (no sampling): a fixed family of valid objects x every truncation length x
// every single-byte substitution from a byte menu at every position, the header messages of the same
// objects truncated at every length, and every very short byte string. Oracles:
//   - reference scanners written from the protobuf wire spec and the functions' doc comments
//     (what must be found / must be rejected / unspecified),
//   - differential: whenever object.Unmarshal accepts the input, the slices/values returned by the
//     fast functions must decode to the same sub-messages as the full decoding,
//   - panics are recovered and reported.
//
// The file-level part stores large variants (payload > header buffer) into a real FSTree and checks
// Head/GetStream/ReadObjectParts/GetRangeStream(readHeader) against object.Unmarshal of the stored bytes.
package main

import (
	"bytes"
	"crypto/sha256"
	"encoding/hex"
	"errors"
	"fmt"
	"io"
	"math"
	"os"
	"runtime/pprof"
	"sort"
	"strings"
	"sync"
	"time"

	"github.com/nspcc-dev/neo-go/pkg/util"
	iobject "github.com/nspcc-dev/neofs-node/internal/object"
	"github.com/nspcc-dev/neofs-node/pkg/local_object_storage/blobstor/common"
	"github.com/nspcc-dev/neofs-node/pkg/local_object_storage/blobstor/fstree"
	"github.com/nspcc-dev/neofs-node/verif/lib/enumx"
	"github.com/nspcc-dev/neofs-node/verif/lib/ev"
	"github.com/nspcc-dev/neofs-sdk-go/checksum"
	cid "github.com/nspcc-dev/neofs-sdk-go/container/id"
	neofscrypto "github.com/nspcc-dev/neofs-sdk-go/crypto"
	"github.com/nspcc-dev/neofs-sdk-go/object"
	oid "github.com/nspcc-dev/neofs-sdk-go/object/id"
	protoobject "github.com/nspcc-dev/neofs-sdk-go/proto/object"
	iprotobuf "github.com/nspcc-dev/neofs-sdk-go/proto/protobuf"
	"github.com/nspcc-dev/neofs-sdk-go/proto/refs"
	"github.com/nspcc-dev/neofs-sdk-go/user"
	"github.com/nspcc-dev/neofs-sdk-go/version"
	"google.golang.org/protobuf/encoding/protowire"
	"google.golang.org/protobuf/proto"
)

// ---------- deterministic object family ----------

func h32(label string) [32]byte { return sha256.Sum256([]byte("verif-c41-" + label)) }

func mkOID(label string) oid.ID { return oid.ID(h32(label)) }
func mkCID(label string) cid.ID { return cid.ID(h32(label)) }
func mkOwner(label string) user.ID {
	h := h32(label)
	var u util.Uint160
	copy(u[:], h[:20])
	return user.NewFromScriptHash(u)
}
func mkSig(label string) *neofscrypto.Signature {
	k := h32(label + "-key")
	pub := append([]byte{2}, k[:]...)
	v1, v2 := h32(label+"-v1"), h32(label+"-v2")
	s := neofscrypto.NewSignatureFromRawKey(neofscrypto.ECDSA_DETERMINISTIC_SHA256, pub, append(v1[:], v2[:]...))
	return &s
}
func mkPayload(label string, n int) []byte {
	p := make([]byte, 0, n+32)
	for i := 0; len(p) < n; i++ {
		h := h32(fmt.Sprintf("%s-pld-%d", label, i))
		p = append(p, h[:]...)
	}
	return p[:n]
}

func fillHeader(o *object.Object, label string, rich bool) {
	o.SetContainerID(mkCID(label + "-cnr"))
	o.SetOwner(mkOwner(label + "-owner"))
	if rich {
		v := version.New(2, 18)
		o.SetVersion(&v)
		o.SetCreationEpoch(300)
		o.SetPayloadChecksum(checksum.NewSHA256(h32(label + "-cs")))
		hh := append(mkPayload(label+"-tz", 64)[:0:0], mkPayload(label+"-tz", 64)...)
		o.SetPayloadHomomorphicHash(checksum.New(checksum.TillichZemor, hh)) //nolint:staticcheck
		o.SetAttributes(object.NewAttribute("k1", "v1"), object.NewAttribute("FileName", "some file.txt"), object.NewAttribute("k3", strings.Repeat("x", 130)))
	}
}

type baseObj struct {
	Name string
	Enc  []byte
}

func family() []baseObj {
	var res []baseObj
	add := func(name string, o *object.Object) { res = append(res, baseObj{name, o.Marshal()}) }

	{ // payload only
		var o object.Object
		o.SetPayload(mkPayload("o0", 3))
		add("payload-only", &o)
	}
	{ // id only
		var o object.Object
		o.SetID(mkOID("o1"))
		add("id-only", &o)
	}
	{ // id + signature, no header
		var o object.Object
		o.SetID(mkOID("o2"))
		o.SetSignature(mkSig("o2"))
		add("id-sig", &o)
	}
	{ // small signed regular object with payload
		var o object.Object
		fillHeader(&o, "o3", false)
		o.SetID(mkOID("o3"))
		o.SetSignature(mkSig("o3"))
		o.SetPayload(mkPayload("o3", 5))
		o.SetPayloadSize(5)
		add("small-signed", &o)
	}
	{ // rich header, 300-byte payload (2-byte length varints), tombstone type
		var o object.Object
		fillHeader(&o, "o4", true)
		o.SetID(mkOID("o4"))
		o.SetSignature(mkSig("o4"))
		o.SetType(object.TypeTombstone)
		o.SetPayload(mkPayload("o4", 300))
		o.SetPayloadSize(300)
		add("rich-300", &o)
	}
	{ // header without signature and without payload, payload length 0
		var o object.Object
		fillHeader(&o, "o5", false)
		o.SetID(mkOID("o5"))
		o.SetType(object.TypeLock)
		add("unsigned-nopayload", &o)
	}
	{ // header-only form: payload length declared, payload absent
		var o object.Object
		fillHeader(&o, "o6", false)
		o.SetID(mkOID("o6"))
		o.SetSignature(mkSig("o6"))
		o.SetPayloadSize(777)
		add("declared-length-no-payload", &o)
	}
	{ // extreme varints
		var o object.Object
		fillHeader(&o, "o7", false)
		o.SetID(mkOID("o7"))
		o.SetCreationEpoch(math.MaxUint64)
		o.SetPayloadSize(math.MaxUint64)
		o.SetType(object.TypeLink)
		o.SetPayload(mkPayload("o7", 2))
		add("max-varints", &o)
	}
	{ // last split child: full parent (id, signature, rich header), previous, first
		var par object.Object
		fillHeader(&par, "o8p", true)
		par.SetID(mkOID("o8p"))
		par.SetSignature(mkSig("o8p"))
		par.SetPayloadSize(1000)
		var o object.Object
		fillHeader(&o, "o8", false)
		o.SetID(mkOID("o8"))
		o.SetSignature(mkSig("o8"))
		o.SetParent(&par)
		o.SetPreviousID(mkOID("o8prev"))
		o.SetFirstID(mkOID("o8first"))
		o.SetPayload(mkPayload("o8", 17))
		o.SetPayloadSize(17)
		add("child-full-parent", &o)
	}
	{ // first split child: parent header only (no parent id / signature)
		var par object.Object
		fillHeader(&par, "o9p", false)
		var o object.Object
		fillHeader(&o, "o9", false)
		o.SetID(mkOID("o9"))
		o.SetSignature(mkSig("o9"))
		o.SetParent(&par)
		o.SetPayload(mkPayload("o9", 9))
		o.SetPayloadSize(9)
		add("child-parent-header-only", &o)
	}
	{ // middle child: previous + first only
		var o object.Object
		fillHeader(&o, "o10", false)
		o.SetID(mkOID("o10"))
		o.SetSignature(mkSig("o10"))
		o.SetPreviousID(mkOID("o10prev"))
		o.SetFirstID(mkOID("o10first"))
		o.SetPayload(mkPayload("o10", 4))
		o.SetPayloadSize(4)
		add("child-no-parent", &o)
	}
	{ // link object: parent id + parent signature + parent header + children
		var par object.Object
		fillHeader(&par, "o11p", false)
		par.SetID(mkOID("o11p"))
		par.SetSignature(mkSig("o11p"))
		var o object.Object
		fillHeader(&o, "o11", false)
		o.SetID(mkOID("o11"))
		o.SetSignature(mkSig("o11"))
		o.SetType(object.TypeLink)
		o.SetParent(&par)
		o.SetChildren(mkOID("o11c1"), mkOID("o11c2"))
		o.SetFirstID(mkOID("o11c1"))
		add("link-with-children", &o)
	}
	{ // parent id only in split
		var o object.Object
		fillHeader(&o, "o12", false)
		o.SetID(mkOID("o12"))
		o.SetParentID(mkOID("o12p"))
		o.SetPayload(mkPayload("o12", 1))
		o.SetPayloadSize(1)
		add("split-parent-id-only", &o)
	}
	return res
}

// ---------- reference scanners (protobuf wire spec + doc comments of the functions) ----------

type status int

const (
	stOK status = iota
	stMustErr
	stAny // behaviour not determined by the documentation (either error or result accepted)
)

type fld struct {
	num             protowire.Number
	typ             protowire.Type
	from, vfrom, to int
	present         bool
}

func (f fld) fb() iprotobuf.FieldBounds {
	if !f.present {
		return iprotobuf.FieldBounds{}
	}
	return iprotobuf.FieldBounds{From: f.from, ValueFrom: f.vfrom, To: f.to}
}

func refTag(s []byte) (protowire.Number, protowire.Type, int, bool) {
	num, typ, n := protowire.ConsumeTag(s)
	if n < 0 || !num.IsValid() {
		return 0, 0, 0, false
	}
	return num, typ, n, true
}

// refLEN parses length prefix of a LEN field value starting at s[0]; returns (prefix len, value len, ok).
func refLEN(s []byte) (int, int, bool) {
	l, m := protowire.ConsumeVarint(s)
	if m < 0 || l > uint64(len(s)-m) {
		return 0, 0, false
	}
	return m, int(l), true
}

// refWalk: "seeks fields 1..maxNum of LEN type and parses their boundaries; a missing field is not an
// error; ascending field order required". s is the message, base its offset in the outer buffer.
func refWalk(s []byte, base int, maxNum protowire.Number) (map[protowire.Number]fld, status, string) {
	res := map[protowire.Number]fld{}
	off := 0
	var prev protowire.Number
	for off < len(s) {
		num, typ, n, ok := refTag(s[off:])
		if !ok {
			return nil, stMustErr, "bad-tag"
		}
		if num > maxNum {
			break
		}
		if num < prev {
			return nil, stMustErr, "unordered"
		}
		if num == prev {
			return nil, stAny, "repeated"
		}
		prev = num
		if typ != protowire.BytesType {
			return nil, stMustErr, "wrong-wire-type"
		}
		m, l, ok := refLEN(s[off+n:])
		if !ok {
			return nil, stMustErr, "bad-or-truncated-len"
		}
		f := fld{num: num, typ: typ, from: base + off, vfrom: base + off + n + m, present: true}
		f.to = f.vfrom + l
		res[num] = f
		if num == maxNum {
			break
		}
		off = f.to - base
	}
	return res, stOK, ""
}

// refSeek: "seeks field by number; missing is not an error; ascending order required; intermediate
// fields are traversed (so they must be well-formed)".
func refSeek(s []byte, target protowire.Number) (f fld, st status, why string) {
	off := 0
	var prev protowire.Number
	for off < len(s) {
		num, typ, n, ok := refTag(s[off:])
		if !ok {
			return fld{}, stMustErr, "bad-tag"
		}
		if num == target {
			return fld{num: num, typ: typ, from: off, vfrom: off + n, present: true}, stOK, ""
		}
		if num > target {
			break
		}
		if num < prev {
			return fld{}, stMustErr, "unordered"
		}
		prev = num
		off += n
		switch typ {
		case protowire.VarintType:
			_, m := protowire.ConsumeVarint(s[off:])
			if m < 0 {
				return fld{}, stMustErr, "bad-varint"
			}
			off += m
		case protowire.Fixed64Type:
			if len(s)-off < 8 {
				return fld{}, stMustErr, "truncated-fixed64"
			}
			off += 8
		case protowire.Fixed32Type:
			if len(s)-off < 4 {
				return fld{}, stMustErr, "truncated-fixed32"
			}
			off += 4
		case protowire.BytesType:
			m, l, ok := refLEN(s[off:])
			if !ok {
				return fld{}, stMustErr, "bad-or-truncated-len"
			}
			off += m + l
		case protowire.StartGroupType, protowire.EndGroupType:
			return fld{}, stAny, "group"
		default:
			return fld{}, stMustErr, "unknown-wire-type"
		}
	}
	return fld{}, stOK, ""
}

func refSeekLEN(s []byte, target protowire.Number) (fld, status, string) {
	f, st, why := refSeek(s, target)
	if st != stOK || !f.present {
		return f, st, why
	}
	if f.typ != protowire.BytesType {
		return fld{}, stMustErr, "wrong-wire-type"
	}
	m, l, ok := refLEN(s[f.vfrom:])
	if !ok {
		return fld{}, stMustErr, "bad-or-truncated-len"
	}
	f.vfrom += m
	f.to = f.vfrom + l
	return f, stOK, ""
}

func refSeekUint(s []byte, target protowire.Number) (uint64, status, string) {
	f, st, why := refSeek(s, target)
	if st != stOK || !f.present {
		return 0, st, why
	}
	if f.typ != protowire.VarintType {
		return 0, stMustErr, "wrong-wire-type"
	}
	u, m := protowire.ConsumeVarint(s[f.vfrom:])
	if m < 0 {
		return 0, stMustErr, "bad-varint"
	}
	return u, stOK, ""
}

// ascending reports whether s is a well-formed message whose field numbers ascend (equal numbers allowed
// only for the given repeated field).
func ascending(s []byte, repeated protowire.Number) bool {
	var prev protowire.Number
	for off := 0; off < len(s); {
		num, typ, n, ok := refTag(s[off:])
		if !ok || num < prev || (num == prev && num != repeated) {
			return false
		}
		prev = num
		m := protowire.ConsumeFieldValue(num, typ, s[off+n:])
		if m < 0 || typ == protowire.StartGroupType {
			return false
		}
		off += n + m
	}
	return true
}

// ascendingObject: the object, its header and its split header all have ascending field order.
func ascendingObject(b []byte) bool {
	if !ascending(b, 0) {
		return false
	}
	hf, st, _ := refSeekLEN(b, protoobject.FieldObjectHeader)
	if st != stOK {
		return false
	}
	if !hf.present {
		return true
	}
	return ascendingHeader(b[hf.vfrom:hf.to])
}

func ascendingHeader(h []byte) bool {
	if !ascending(h, protoobject.FieldHeaderAttributes) {
		return false
	}
	sp, st, _ := refSeekLEN(h, protoobject.FieldHeaderSplit)
	if st != stOK {
		return false
	}
	return !sp.present || ascending(h[sp.vfrom:sp.to], protoobject.FieldHeaderSplitChildren)
}

type boundsExp struct {
	st  status
	why string
	f   [3]iprotobuf.FieldBounds
}

func refObjBounds(b []byte) boundsExp {
	if len(b) == 0 {
		return boundsExp{st: stMustErr, why: "empty"}
	}
	m, st, why := refWalk(b, 0, protoobject.FieldObjectHeader)
	if st != stOK {
		return boundsExp{st: st, why: why}
	}
	return boundsExp{f: [3]iprotobuf.FieldBounds{m[1].fb(), m[2].fb(), m[3].fb()}}
}

// refParentInHeader: parent's id(1)/signature(3)/header(4) inside header.split(11); h at offset base of buf.
func refParentInHeader(h []byte, base int) boundsExp {
	sp, st, why := refSeekLEN(h, protoobject.FieldHeaderSplit)
	if st != stOK {
		return boundsExp{st: st, why: "split-" + why}
	}
	if !sp.present {
		return boundsExp{}
	}
	m, st, why := refWalk(h[sp.vfrom:sp.to], base+sp.vfrom, protoobject.FieldHeaderSplitParentHeader)
	if st != stOK {
		return boundsExp{st: st, why: "in-split-" + why}
	}
	e := boundsExp{f: [3]iprotobuf.FieldBounds{m[1].fb(), m[3].fb(), m[4].fb()}}
	if sp.vfrom == sp.to {
		e.why = "empty-split"
	}
	return e
}

func refParentInObject(b []byte) boundsExp {
	if len(b) == 0 {
		return boundsExp{st: stMustErr, why: "empty"}
	}
	hf, st, why := refSeekLEN(b, protoobject.FieldObjectHeader)
	if st != stOK {
		return boundsExp{st: st, why: "header-" + why}
	}
	if !hf.present {
		return boundsExp{}
	}
	return refParentInHeader(b[hf.vfrom:hf.to], hf.vfrom)
}

type extractExp struct {
	st     status
	why    string
	hdrBin []byte // canonical encoding of the expected header-only object
	prefix []byte
}

func refExtract(b []byte) extractExp {
	if len(b) == 0 {
		return extractExp{st: stMustErr, why: "empty"}
	}
	off := 0
	seen := map[protowire.Number]bool{}
	any := ""
	hdrEnd := len(b)
	prefix := []byte{}
	for off < len(b) {
		num, typ, n, ok := refTag(b[off:])
		if !ok {
			return extractExp{st: stMustErr, why: "bad-tag"}
		}
		if num > protoobject.FieldObjectPayload {
			// full decoding skips unknown fields, the fast path documents nothing about them
			return extractExp{st: stAny, why: "unknown-field"}
		}
		if typ != protowire.BytesType {
			return extractExp{st: stMustErr, why: "wrong-wire-type"}
		}
		if num == protoobject.FieldObjectPayload {
			_, m := protowire.ConsumeVarint(b[off+n:])
			if m < 0 {
				return extractExp{st: stMustErr, why: "bad-payload-len"}
			}
			hdrEnd = off
			prefix = b[off+n+m:]
			break
		}
		m, l, ok := refLEN(b[off+n:])
		if !ok {
			return extractExp{st: stMustErr, why: "bad-or-truncated-len"}
		}
		if seen[num] {
			any = "repeated" // merge semantics of full decoding vs replacement: unspecified
		}
		seen[num] = true
		off += n + m + l
	}
	if any != "" {
		return extractExp{st: stAny, why: any}
	}
	var o object.Object
	if err := o.Unmarshal(b[:hdrEnd]); err != nil {
		return extractExp{st: stMustErr, why: "non-payload-fields-fail-full-decoding"}
	}
	return extractExp{hdrBin: o.Marshal(), prefix: prefix}
}

// ---------- evaluation ----------

type tcase struct {
	Level string `json:"level"` // "obj" | "hdr"
	Hex   string `json:"hex"`
	Kind  string `json:"kind"`
}

var (
	run      *ev.Run
	classMu  sync.Mutex
	classSet = map[string]struct{}{}
)

func class(s string) {
	classMu.Lock()
	classSet[s] = struct{}{}
	classMu.Unlock()
}

func viol(fn, rule, why, kind, level string, in []byte, detail string) {
	// the object-level and header-level parent functions share one body: one fingerprint for both
	fp := strings.TrimSuffix(fn, "Header") + ":" + rule
	if why != "" {
		fp += ":" + why
	}
	run.Violation(fp, fmt.Sprintf("%s on %s input (%s) %x: %s", fn, level, kind, clip(in), detail),
		tcase{Level: level, Hex: hex.EncodeToString(in), Kind: kind})
}

func clip(b []byte) []byte {
	if len(b) > 96 {
		return b[:96]
	}
	return b
}

func guard(f func()) (panicked any) {
	defer func() { panicked = recover() }()
	f()
	return nil
}

type stable interface {
	MarshaledSize() int
	MarshalStable([]byte)
}

func canon(m stable) []byte {
	b := make([]byte, m.MarshaledSize())
	m.MarshalStable(b)
	return b
}

// sliceEq: does the slice at bounds f decode to the same message as want (nil = absent)?
func sliceEq(buf []byte, f iprotobuf.FieldBounds, want stable, wantNil bool, fresh func() proto.Message) (bool, string) {
	if f.IsMissing() {
		if wantNil {
			return true, ""
		}
		return false, "reported missing but full decoding has the field"
	}
	if f.From < 0 || f.From >= f.ValueFrom || f.ValueFrom > f.To || f.To > len(buf) {
		return false, fmt.Sprintf("bounds %+v outside buffer of %d", f, len(buf))
	}
	if wantNil {
		return false, "reported present but full decoding has no such field"
	}
	m := fresh()
	if err := proto.Unmarshal(buf[f.ValueFrom:f.To], m); err != nil {
		return false, "slice does not decode: " + err.Error()
	}
	if !bytes.Equal(canon(m.(stable)), canon(want)) {
		return false, "slice decodes to a different message"
	}
	return true, ""
}

func boundsSound(buf []byte, fs [3]iprotobuf.FieldBounds) string {
	for i, f := range fs {
		if f == (iprotobuf.FieldBounds{}) {
			continue
		}
		if f.From < 0 || f.From >= f.ValueFrom || f.ValueFrom > f.To || f.To > len(buf) {
			return fmt.Sprintf("field %d bounds %+v not inside buffer of %d bytes", i, f, len(buf))
		}
	}
	return ""
}

func checkBounds(fn, kind, level string, in []byte, exp boundsExp, got [3]iprotobuf.FieldBounds, err error, p any, fullOK bool) string {
	if p != nil {
		viol(fn, "panic", "", kind, level, in, fmt.Sprint(p))
		return "panic"
	}
	if err == nil {
		if s := boundsSound(in, got); s != "" {
			viol(fn, "bounds-outside-buffer", "", kind, level, in, s)
		}
	}
	switch exp.st {
	case stMustErr:
		if err == nil {
			viol(fn, "accepts-malformed", exp.why, kind, level, in, fmt.Sprintf("returned %+v", got))
		}
		return "err:" + exp.why
	case stAny:
		return "any:" + exp.why
	}
	if err != nil {
		viol(fn, "rejects-wellformed", exp.why, kind, level, in, fmt.Sprintf("%v (object.Unmarshal accepts this input: %v)", err, fullOK))
		return "ok"
	}
	if got != exp.f {
		viol(fn, "wrong-bounds", exp.why, kind, level, in, fmt.Sprintf("got %+v want %+v", got, exp.f))
	}
	n := 0
	for _, f := range got {
		if !f.IsMissing() {
			n++
		}
	}
	return fmt.Sprintf("ok:%d", n)
}

func unmarshalFull(b []byte) (*object.Object, *protoobject.Object) {
	var o object.Object
	if err := o.Unmarshal(b); err != nil {
		return nil, nil
	}
	m := new(protoobject.Object)
	if err := proto.Unmarshal(b, m); err != nil {
		return nil, nil
	}
	return &o, m
}

func nilID(x *refs.ObjectID) bool       { return x == nil }
func nilSig(x *refs.Signature) bool     { return x == nil }
func nilHdr(x *protoobject.Header) bool { return x == nil }
func newID() proto.Message              { return new(refs.ObjectID) }
func newSig() proto.Message             { return new(refs.Signature) }
func newHdr() proto.Message             { return new(protoobject.Header) }
func splitOf(h *protoobject.Header) *protoobject.Header_Split {
	if h == nil {
		return nil
	}
	return h.Split
}

func diffTriple(fn, kind, level string, in []byte, got [3]iprotobuf.FieldBounds, id *refs.ObjectID, sig *refs.Signature, hdr *protoobject.Header) {
	if ok, s := sliceEq(in, got[0], id, nilID(id), newID); !ok {
		viol(fn, "disagrees-with-full-decoding", "id", kind, level, in, s)
	}
	if ok, s := sliceEq(in, got[1], sig, nilSig(sig), newSig); !ok {
		viol(fn, "disagrees-with-full-decoding", "signature", kind, level, in, s)
	}
	if ok, s := sliceEq(in, got[2], hdr, nilHdr(hdr), newHdr); !ok {
		viol(fn, "disagrees-with-full-decoding", "header", kind, level, in, s)
	}
}

// evalHdr checks the header-level functions on h (a header message).
func evalHdr(h []byte, kind string, sig *strings.Builder) {
	run.Eval(1)
	// full decoding of an object consisting of this header only
	wrapped := protowire.AppendBytes(protowire.AppendTag(nil, protoobject.FieldObjectHeader, protowire.BytesType), h)
	full, fm := unmarshalFull(wrapped)
	if full != nil && !ascendingHeader(h) {
		full, fm = nil, nil // outside the domain of agreement (see assumptions)
	}
	ordered := true

	// GetPayloadLengthHeader
	{
		var u uint64
		var err error
		p := guard(func() { u, err = iobject.GetPayloadLengthHeader(h) })
		want, st, why := refSeekUint(h, protoobject.FieldHeaderPayloadLength)
		const fn = "GetPayloadLengthHeader"
		switch {
		case p != nil:
			viol(fn, "panic", "", kind, "hdr", h, fmt.Sprint(p))
		case st == stMustErr:
			ordered = ordered && why != "unordered"
			if err == nil {
				viol(fn, "accepts-malformed", why, kind, "hdr", h, fmt.Sprint(u))
			}
			sig.WriteString("L:err:" + why + ";")
		case st == stAny:
			sig.WriteString("L:any;")
		case err != nil:
			viol(fn, "rejects-wellformed", "", kind, "hdr", h, err.Error())
		default:
			if u != want {
				viol(fn, "wrong-value", "", kind, "hdr", h, fmt.Sprintf("got %d want %d", u, want))
			}
			if full != nil && u != full.PayloadSize() {
				viol(fn, "disagrees-with-full-decoding", "", kind, "hdr", h, fmt.Sprintf("got %d, full decoding %d", u, full.PayloadSize()))
			}
			if u != 0 {
				sig.WriteString("L:ok+;")
			} else {
				sig.WriteString("L:ok0;")
			}
		}
	}
	// GetTypeHeader
	{
		var t object.Type
		var err error
		p := guard(func() { t, err = iobject.GetTypeHeader(h) })
		want, st, why := refSeekUint(h, protoobject.FieldHeaderObjectType)
		if st == stOK && want > math.MaxInt32 {
			st, why = stAny, "enum-overflow"
		}
		const fn = "GetTypeHeader"
		switch {
		case p != nil:
			viol(fn, "panic", "", kind, "hdr", h, fmt.Sprint(p))
		case st == stMustErr:
			if err == nil {
				viol(fn, "accepts-malformed", why, kind, "hdr", h, fmt.Sprint(t))
			}
			sig.WriteString("T:err:" + why + ";")
		case st == stAny:
			sig.WriteString("T:any;")
		case err != nil:
			viol(fn, "rejects-wellformed", "", kind, "hdr", h, err.Error())
		default:
			if uint64(t) != want {
				viol(fn, "wrong-value", "", kind, "hdr", h, fmt.Sprintf("got %d want %d", t, want))
			}
			if full != nil && t != full.Type() {
				viol(fn, "disagrees-with-full-decoding", "", kind, "hdr", h, fmt.Sprintf("got %d, full decoding %d", t, full.Type()))
			}
			if t != 0 {
				sig.WriteString("T:ok+;")
			} else {
				sig.WriteString("T:ok0;")
			}
		}
	}
	// GetParentNonPayloadFieldBoundsHeader
	{
		var g [3]iprotobuf.FieldBounds
		var err error
		p := guard(func() { g[0], g[1], g[2], err = iobject.GetParentNonPayloadFieldBoundsHeader(h) })
		var exp boundsExp
		if len(h) == 0 {
			exp = boundsExp{st: stMustErr, why: "empty"}
		} else {
			exp = refParentInHeader(h, 0)
		}
		const fn = "GetParentNonPayloadFieldBoundsHeader"
		c := checkBounds(fn, kind, "hdr", h, exp, g, err, p, full != nil)
		sig.WriteString("PH:" + c + ";")
		if p == nil && err == nil && full != nil && exp.st == stOK {
			var sp *protoobject.Header_Split
			if fm != nil {
				sp = splitOf(fm.Header)
			}
			if sp == nil {
				sp = new(protoobject.Header_Split)
			}
			diffTriple(fn, kind, "hdr", h, g, sp.Parent, sp.ParentSignature, sp.ParentHeader)
		}
	}
	_ = ordered
}

// evalObj checks the object-level functions on b and the header-level ones on its header slice.
func evalObj(b []byte, kind string) {
	run.Eval(1)
	var sig strings.Builder
	full, fm := unmarshalFull(b)
	canonical := full != nil && len(b) > 0 && bytes.Equal(full.Marshal(), b) // empty input: documented error
	if full != nil && !ascendingObject(b) {
		full, fm = nil, nil // outside the domain of agreement (see assumptions)
	}

	// ExtractHeaderAndPayload (+ ReadHeaderPrefix which must behave identically on short inputs)
	{
		const fn = "ExtractHeaderAndPayload"
		var hdr *object.Object
		var pref []byte
		var err error
		p := guard(func() { hdr, pref, err = iobject.ExtractHeaderAndPayload(b) })
		exp := refExtract(b)
		switch {
		case p != nil:
			viol(fn, "panic", "", kind, "obj", b, fmt.Sprint(p))
		case exp.st == stMustErr:
			if err == nil {
				viol(fn, "accepts-malformed", exp.why, kind, "obj", b, "no error")
			}
			sig.WriteString("E:err:" + exp.why + ";")
		case exp.st == stAny:
			sig.WriteString("E:any:" + exp.why + ";")
		case err != nil:
			viol(fn, "rejects-wellformed", "", kind, "obj", b, err.Error())
		default:
			if hdr == nil || !bytes.Equal(hdr.Marshal(), exp.hdrBin) {
				viol(fn, "wrong-header", "", kind, "obj", b, "header differs from full decoding of the non-payload fields")
			}
			if !bytes.Equal(pref, exp.prefix) {
				viol(fn, "wrong-payload-prefix", "", kind, "obj", b, fmt.Sprintf("prefix %d bytes, want %d", len(pref), len(exp.prefix)))
			}
			if len(pref) > 0 {
				sig.WriteString("E:ok+pld;")
			} else {
				sig.WriteString("E:ok;")
			}
		}
		if p == nil && canonical {
			if err != nil {
				viol(fn, "disagrees-with-full-decoding", "error-on-canonical-encoding", kind, "obj", b, err.Error())
			} else if !bytes.Equal(hdr.Marshal(), full.CutPayload().Marshal()) || !bytes.Equal(pref, full.Payload()) {
				viol(fn, "disagrees-with-full-decoding", "canonical-encoding", kind, "obj", b, "header or payload differ")
			}
		}
		// ReadHeaderPrefix allocates 16 KiB per call: exercised on the valid / truncated / very short families only
		if len(b) <= object.MaxHeaderLen && (len(b) <= 1 || !strings.HasPrefix(kind, "subst:") && kind != "short") {
			var hdr2 *object.Object
			var pref2 []byte
			var err2 error
			p2 := guard(func() { hdr2, pref2, err2 = iobject.ReadHeaderPrefix(bytes.NewReader(b)) })
			switch {
			case p2 != nil:
				viol("ReadHeaderPrefix", "panic", "", kind, "obj", b, fmt.Sprint(p2))
			case p == nil && (err == nil) != (err2 == nil):
				viol("ReadHeaderPrefix", "differs-from-ExtractHeaderAndPayload", "error", kind, "obj", b, fmt.Sprintf("%v vs %v", err2, err))
			case p == nil && err == nil && (!bytes.Equal(hdr2.Marshal(), hdr.Marshal()) || !bytes.Equal(pref, pref2)):
				viol("ReadHeaderPrefix", "differs-from-ExtractHeaderAndPayload", "result", kind, "obj", b, "")
			}
		}
	}
	// GetNonPayloadFieldBounds
	var hdrSlice []byte
	haveHdr := false
	{
		const fn = "GetNonPayloadFieldBounds"
		var g [3]iprotobuf.FieldBounds
		var err error
		p := guard(func() { g[0], g[1], g[2], err = iobject.GetNonPayloadFieldBounds(b) })
		exp := refObjBounds(b)
		c := checkBounds(fn, kind, "obj", b, exp, g, err, p, full != nil)
		sig.WriteString("B:" + c + ";")
		if p == nil && err == nil && full != nil && exp.st == stOK {
			diffTriple(fn, kind, "obj", b, g, fm.ObjectId, fm.Signature, fm.Header)
		}
		if p == nil && canonical && err != nil {
			viol(fn, "disagrees-with-full-decoding", "error-on-canonical-encoding", kind, "obj", b, err.Error())
		}
		if exp.st == stOK && !exp.f[2].IsMissing() {
			hdrSlice, haveHdr = b[exp.f[2].ValueFrom:exp.f[2].To], true
		}
	}
	// GetParentNonPayloadFieldBounds
	{
		const fn = "GetParentNonPayloadFieldBounds"
		var g [3]iprotobuf.FieldBounds
		var err error
		p := guard(func() { g[0], g[1], g[2], err = iobject.GetParentNonPayloadFieldBounds(b) })
		exp := refParentInObject(b)
		c := checkBounds(fn, kind, "obj", b, exp, g, err, p, full != nil)
		sig.WriteString("P:" + c + ";")
		if p == nil && err == nil && full != nil && exp.st == stOK {
			sp := splitOf(fm.Header)
			if sp == nil {
				sp = new(protoobject.Header_Split)
			}
			diffTriple(fn, kind, "obj", b, g, sp.Parent, sp.ParentSignature, sp.ParentHeader)
		}
		if p == nil && canonical && err != nil {
			viol(fn, "disagrees-with-full-decoding", "error-on-canonical-encoding", kind, "obj", b, err.Error())
		}
	}
	if haveHdr {
		evalHdr(hdrSlice, kind+"/header-slice", &sig)
	}
	s := sig.String()
	class(s)
	if strings.Contains(s, ":ok") {
		run.Nontrivial(string(b))
	}
}

func evalHdrTop(h []byte, kind string) {
	var sig strings.Builder
	sig.WriteString("H|")
	evalHdr(h, kind, &sig)
	s := sig.String()
	class(s)
	if strings.Contains(s, ":ok+") || strings.Contains(s, "PH:ok:") {
		run.Nontrivial("h" + string(h))
	}
}

// ---------- file level (fstree/head.go) ----------

func fsPart(fam []baseObj, menu []byte) { // menu: the small byte menu in both tiers
	dir, err := os.MkdirTemp("/dev/shm", "verif-c41-")
	if err != nil {
		run.Fatal("tmp dir: %v", err)
	}
	defer os.RemoveAll(dir)

	type variant struct {
		name string
		enc  []byte
		o    *object.Object
	}
	var vars []variant
	// objects whose payload exceeds the header buffer (streaming path: ExtractHeaderAndPayload on the first
	// 20 KiB), and the same family as small files (full decoding path).
	sizes := []int{iobject.NonPayloadFieldsBufferLength - 300, iobject.NonPayloadFieldsBufferLength + 7, 2*iobject.NonPayloadFieldsBufferLength + 1}
	for _, bo := range fam {
		var o object.Object
		if err := o.Unmarshal(bo.Enc); err != nil {
			run.Fatal("family object %s: %v", bo.Name, err)
		}
		if o.GetID().IsZero() || o.GetContainerID().IsZero() {
			continue
		}
		vars = append(vars, variant{bo.Name, bo.Enc, &o})
		for _, sz := range sizes {
			var big object.Object
			o.CopyTo(&big)
			big.SetPayload(mkPayload(bo.Name+"-big", sz))
			big.SetPayloadSize(uint64(sz))
			vars = append(vars, variant{fmt.Sprintf("%s+payload%d", bo.Name, sz), big.Marshal(), &big})
		}
	}

	type job struct {
		v    variant
		pos  int // -1: unmodified
		val  byte
		kind string
	}
	var jobs []job
	quickMut := func(name string) bool {
		if !strings.Contains(name, fmt.Sprintf("+payload%d", sizes[1])) {
			return false
		}
		for _, n := range []string{"small-signed", "child-full-parent", "max-varints", "unsigned-nopayload"} {
			if strings.HasPrefix(name, n+"+") {
				return true
			}
		}
		return false
	}
	for _, v := range vars {
		jobs = append(jobs, job{v, -1, 0, "fs-valid:" + v.name})
		if len(v.enc) <= iobject.NonPayloadFieldsBufferLength {
			continue
		}
		step := 1
		if run.Quick() {
			// quick: mutants of the boundary-size variant of four objects, every third position
			if !quickMut(v.name) {
				continue
			}
			step = 3
		}
		// every single-byte substitution in the non-payload region (+ payload field prefix and 2 payload bytes)
		hdrLen := len(v.o.CutPayload().Marshal()) + 1 + protowire.SizeVarint(uint64(len(v.o.Payload()))) + 2
		for pos := 0; pos < hdrLen; pos += step {
			for _, val := range menu {
				if v.enc[pos] != val {
					jobs = append(jobs, job{v, pos, val, "fs-subst:" + v.name})
				}
			}
		}
	}
	run.Set("file_cases", len(jobs))

	// one FSTree per worker slot to keep files apart
	nw := 16
	trees := make([]*fstree.FSTree, nw)
	for i := range trees {
		t := fstree.New(fstree.WithPath(fmt.Sprintf("%s/t%d", dir, i)), fstree.WithDepth(1), fstree.WithNoSync(true), fstree.WithCombinedCountLimit(1))
		if err := t.Open(false); err != nil {
			run.Fatal("open: %v", err)
		}
		if err := t.Init(common.ID{}); err != nil {
			run.Fatal("init: %v", err)
		}
		trees[i] = t
	}
	var slot sync.Mutex
	free := make([]int, nw)
	for i := range free {
		free[i] = i
	}
	enumx.Parallel(len(jobs), func(i int) {
		if run.Expired() {
			return
		}
		slot.Lock()
		s := free[len(free)-1]
		free = free[:len(free)-1]
		slot.Unlock()
		data := jobs[i].v.enc
		if jobs[i].pos >= 0 {
			data = bytes.Clone(data)
			data[jobs[i].pos] = jobs[i].val
		}
		fsCase(trees[s], jobs[i].v.o.Address(), data, jobs[i].kind)
		slot.Lock()
		free = append(free, s)
		slot.Unlock()
	})
	for _, t := range trees {
		t.Close()
	}
}

func readAllClose(rc io.ReadCloser) ([]byte, error) {
	defer rc.Close()
	return io.ReadAll(rc)
}

func fsCase(t *fstree.FSTree, addr oid.Address, data []byte, kind string) {
	run.Eval(1)
	if err := t.Put(addr, data); err != nil {
		run.Fatal("put: %v", err)
	}
	defer func() {
		if err := t.Delete(addr); err != nil {
			run.Fatal("delete: %v", err)
		}
	}()
	full, _ := unmarshalFull(data)
	var wantHdr, wantPld []byte
	if full != nil {
		wantHdr, wantPld = full.CutPayload().Marshal(), full.Payload()
		// the streaming readers hand out "everything after the first payload field tag"; that equals the
		// payload only if the payload field is the last top-level field, which holds for canonical encodings
		if !bytes.Equal(full.Marshal(), data) {
			wantPld = nil
			full = nil
		}
	}
	fv := func(fn, rule, why, detail string) {
		fp := "fstree." + fn + ":" + rule
		if why != "" {
			fp += ":" + why
		}
		run.Violation(fp, fmt.Sprintf("%s on stored %s (%d bytes, first %x): %s", fn, kind, len(data), clip(data), detail),
			tcase{Level: "fs", Hex: hex.EncodeToString(data), Kind: kind})
	}
	sig := "FS|"
	// Head
	{
		var o *object.Object
		var err error
		if p := guard(func() { o, err = t.Head(addr) }); p != nil {
			fv("Head", "panic", "", fmt.Sprint(p))
		} else if err == nil {
			sig += "H:ok;"
			if full != nil && !bytes.Equal(o.Marshal(), wantHdr) {
				fv("Head", "disagrees-with-full-decoding", "", "header differs")
			}
		} else {
			sig += "H:err;"
			if full != nil {
				fv("Head", "error-on-valid-object", "", err.Error())
			}
		}
	}
	// GetStream
	{
		var o *object.Object
		var rc io.ReadCloser
		var err error
		var pld []byte
		if p := guard(func() {
			o, rc, err = t.GetStream(addr)
			if err == nil {
				pld, err = readAllClose(rc)
			}
		}); p != nil {
			fv("GetStream", "panic", "", fmt.Sprint(p))
		} else if err == nil {
			sig += "S:ok;"
			if full != nil && (!bytes.Equal(o.Marshal(), wantHdr) || !bytes.Equal(pld, wantPld)) {
				fv("GetStream", "disagrees-with-full-decoding", "", fmt.Sprintf("header equal=%v payload %d vs %d bytes", bytes.Equal(o.Marshal(), wantHdr), len(pld), len(wantPld)))
			}
		} else {
			sig += "S:err;"
			if full != nil {
				fv("GetStream", "error-on-valid-object", "", err.Error())
			}
		}
	}
	// ReadObjectParts without range, with header interception
	{
		buf := make([]byte, 2*iobject.NonPayloadFieldsBufferLength)
		var n int
		var rc io.ReadCloser
		var err error
		var rest, seenHdr []byte
		called := false
		if p := guard(func() {
			n, rc, err = t.ReadObjectParts(buf, addr, common.PayloadRange{}, func(h []byte) error { called = true; seenHdr = bytes.Clone(h); return nil })
			if err == nil {
				rest, err = readAllClose(rc)
			}
		}); p != nil {
			fv("ReadObjectParts", "panic", "", fmt.Sprint(p))
		} else if err == nil {
			sig += "P:ok;"
			if !bytes.Equal(append(bytes.Clone(buf[:n]), rest...), data) {
				fv("ReadObjectParts", "bytes-differ-from-stored", "", fmt.Sprintf("%d+%d bytes vs %d", n, len(rest), len(data)))
			}
			if full != nil {
				var ho object.Object
				if !called && full.HeaderLen() > 0 {
					fv("ReadObjectParts", "header-not-intercepted", "", "")
				} else if called {
					w := protowire.AppendBytes(protowire.AppendTag(nil, protoobject.FieldObjectHeader, protowire.BytesType), seenHdr)
					if err := ho.Unmarshal(w); err != nil {
						fv("ReadObjectParts", "intercepted-header-does-not-decode", "", err.Error())
					} else {
						var want object.Object
						full.CopyTo(&want)
						want.ResetID()
						want.SetSignature(nil)
						want.SetPayload(nil)
						if !bytes.Equal(ho.Marshal(), want.Marshal()) {
							fv("ReadObjectParts", "disagrees-with-full-decoding", "intercepted-header", "")
						}
					}
				}
			}
		} else {
			sig += "P:err;"
			if full != nil {
				fv("ReadObjectParts", "error-on-valid-object", "", err.Error())
			}
		}
	}
	// GetRangeStream, full range, with parsed header
	{
		var o *object.Object
		var pl uint64
		var rc io.ReadCloser
		var err error
		var pld []byte
		if p := guard(func() {
			o, pl, rc, err = t.GetRangeStream(addr, common.PayloadRange{}, true)
			if err == nil {
				pld, err = readAllClose(rc)
			}
		}); p != nil {
			fv("GetRangeStream", "panic", "", fmt.Sprint(p))
		} else if err == nil {
			sig += "R:ok;"
			if full != nil && full.PayloadSize() == uint64(len(wantPld)) {
				if !bytes.Equal(o.Marshal(), wantHdr) || !bytes.Equal(pld, wantPld) || pl != full.PayloadSize() {
					fv("GetRangeStream", "disagrees-with-full-decoding", "", fmt.Sprintf("header equal=%v payload %d vs %d bytes, len %d", bytes.Equal(o.Marshal(), wantHdr), len(pld), len(wantPld), pl))
				}
			}
		} else {
			sig += "R:err;"
			if full != nil && full.PayloadSize() == uint64(len(wantPld)) {
				fv("GetRangeStream", "error-on-valid-object", "", err.Error())
			}
		}
	}
	class(sig)
	if full != nil {
		run.Nontrivial("fs" + kind)
	}
}

// ---------- enumeration ----------

func wireTags() []byte {
	// every one-byte tag of the object / header / split messages
	return []byte{iprotobuf.TagBytes1, iprotobuf.TagBytes2, iprotobuf.TagBytes3, iprotobuf.TagBytes4, iprotobuf.TagBytes5, iprotobuf.TagBytes6,
		iprotobuf.TagBytes7, iprotobuf.TagBytes8, iprotobuf.TagBytes9, 82, 90, 98, // LEN 10, 11, 12
		iprotobuf.TagVarint1, iprotobuf.TagVarint2, iprotobuf.TagVarint3, iprotobuf.TagVarint4, iprotobuf.TagVarint5, iprotobuf.TagVarint6, 56, // VARINT 7
		9, 13, 11, 12, 29, 25} // fixed64 #1, fixed32 #1, sgroup #1, egroup #1, fixed32 #3, fixed64 #3
}

func main() {
	r := ev.Start("C41", ev.Exploration)
	run = r
	if pf := os.Getenv("VERIF_CPUPROFILE"); pf != "" {
		f, _ := os.Create(pf)
		pprof.StartCPUProfile(f)
		defer pprof.StopCPUProfile()
	}
	if r.Replay != "" {
		var c tcase
		r.LoadReplay(&c)
		b, err := hex.DecodeString(c.Hex)
		if err != nil {
			r.Fatal("replay hex: %v", err)
		}
		switch c.Level {
		case "hdr":
			evalHdrTop(b, c.Kind)
		case "fs":
			replayFS(b, c.Kind)
		default:
			evalObj(b, c.Kind)
		}
		r.Finish()
	}

	fam := family()
	for _, bo := range fam {
		o, _ := unmarshalFull(bo.Enc)
		if o == nil || !bytes.Equal(o.Marshal(), bo.Enc) {
			r.Fatal("family object %s does not round-trip through object.Unmarshal/Marshal", bo.Name)
		}
	}
	menu := append([]byte{0x00, 0x01, 0x7f, 0x80, 0xff}, wireTags()...)
	smallMenu := bytes.Clone(menu)
	if r.Thorough() {
		menu = menu[:0]
		for v := 0; v < 256; v++ {
			menu = append(menu, byte(v))
		}
	}

	var nTrunc, nSubst, nShort, nHdrTrunc int
	phases := map[string]float64{}
	t0 := time.Now()
	lap := func(n string) { phases[n] = time.Since(t0).Seconds(); t0 = time.Now() }
	// 1. valid objects, WriteWithoutPayload form, every truncation, every substitution
	enumx.Parallel(len(fam), func(i int) {
		bo := fam[i]
		evalObj(bo.Enc, "valid:"+bo.Name)
		var o object.Object
		_ = o.Unmarshal(bo.Enc)
		var w bytes.Buffer
		if err := iobject.WriteWithoutPayload(&w, o); err != nil {
			r.Violation("WriteWithoutPayload:error", err.Error(), tcase{Level: "obj", Hex: hex.EncodeToString(bo.Enc), Kind: "valid:" + bo.Name})
		} else if w.Len() > 0 {
			evalObj(w.Bytes(), "header-only-form:"+bo.Name)
			hdr, pref, err := iobject.ExtractHeaderAndPayload(w.Bytes())
			if err != nil || len(pref) != 0 || !bytes.Equal(hdr.Marshal(), o.CutPayload().Marshal()) {
				r.Violation("WriteWithoutPayload:not-inverse-of-ExtractHeaderAndPayload", fmt.Sprintf("%s: err=%v prefix=%d", bo.Name, err, len(pref)),
					tcase{Level: "obj", Hex: hex.EncodeToString(w.Bytes()), Kind: "header-only-form:" + bo.Name})
			}
		}
	})
	for _, bo := range fam {
		nTrunc += len(bo.Enc)
		enumx.Parallel(len(bo.Enc), func(l int) { evalObj(bo.Enc[:l], "trunc:"+bo.Name) })
		// header message truncated at every length
		if eb := refObjBounds(bo.Enc); eb.st == stOK && !eb.f[2].IsMissing() {
			h := bo.Enc[eb.f[2].ValueFrom:eb.f[2].To]
			nHdrTrunc += len(h)
			enumx.Parallel(len(h), func(l int) { evalHdrTop(h[:l], "hdr-trunc:"+bo.Name) })
		}
	}
	for _, bo := range fam {
		enumx.Parallel(len(bo.Enc), func(pos int) {
			if r.Expired() {
				return
			}
			m := bytes.Clone(bo.Enc)
			for _, v := range menu {
				if v == bo.Enc[pos] {
					continue
				}
				m[pos] = v
				evalObj(m, "subst:"+bo.Name)
			}
		})
		nSubst += len(bo.Enc) * (len(menu) - 1)
	}
	lap("objects_s")
	// 2. all very short byte strings (object level and header level)
	short := func(b []byte) {
		evalObj(b, "short")
		evalHdrTop(b, "short")
	}
	short(nil)
	enumx.Parallel(256, func(a int) {
		short([]byte{byte(a)})
		for b := 0; b < 256; b++ {
			short([]byte{byte(a), byte(b)})
		}
	})
	nShort = 1 + 256 + 65536
	alpha := []byte{0x00, 0x01, 0x02, 0x03, 0x7f, 0x80, 0x81, 0xff, 10, 18, 26, 34, 42, 8, 16, 40, 56, 90, 9, 13, 11, 12, 0x22, 0x04}
	if r.Thorough() {
		enumx.Parallel(256, func(a int) {
			for b := 0; b < 256; b++ {
				for c := 0; c < 256; c++ {
					short([]byte{byte(a), byte(b), byte(c)})
				}
			}
		})
		nShort += 1 << 24
		enumx.Parallel(len(alpha), func(a int) {
			enumx.Seqs(len(alpha), 3, func(s []int) bool {
				short([]byte{alpha[a], alpha[s[0]], alpha[s[1]], alpha[s[2]]})
				return true
			})
		})
		nShort += len(alpha) * len(alpha) * len(alpha) * len(alpha)
	} else {
		enumx.Parallel(len(alpha), func(a int) {
			enumx.Seqs(len(alpha), 2, func(s []int) bool {
				short([]byte{alpha[a], alpha[s[0]], alpha[s[1]]})
				return true
			})
		})
		nShort += len(alpha) * len(alpha) * len(alpha)
	}
	lap("short_s")
	// 3. file level
	fsPart(fam, smallMenu)
	lap("files_s")
	pprof.StopCPUProfile()
	r.Set("phase_seconds", phases)

	classMu.Lock()
	nc := len(classSet)
	var cl []string
	for k := range classSet {
		cl = append(cl, k)
	}
	classMu.Unlock()
	sort.Strings(cl)
	if len(cl) > 12 {
		cl = cl[:12]
	}
	r.Set("outcome_classes", nc)
	r.Set("outcome_class_examples", cl)
	r.Set("family", len(fam))
	r.Set("inputs", map[string]int{"truncations": nTrunc, "header_truncations": nHdrTrunc, "substitutions": nSubst, "short_strings": nShort, "menu": len(menu)})
	for _, bo := range fam[:4] {
		r.Sample(map[string]any{"object": bo.Name, "len": len(bo.Enc), "hex_prefix": hex.EncodeToString(clip(bo.Enc))})
	}
	r.Rule(fmt.Sprintf("%d hand-built valid objects (no/with id, signature, header, payload, parent id/signature/header, children, max varints) x every truncation length x every single-byte substitution from a %d-value menu at every position; header messages at every truncation length; every byte string of length <=2 (thorough: <=3) and length 3 (thorough: 4) over a 24-byte alphabet, each as object and as header; file level: valid objects with payload sizes around the 20 KiB header buffer and their header-region substitutions stored in a real FSTree. Non-trivial = input on which at least one fast function succeeds (finds a field / non-zero value); outcome_classes = distinct per-function outcome signatures", len(fam), len(menu)))
	r.Assume("domain of agreement = encodings with ascending field order (the functions document this restriction); for repeated fields, unknown fields, group wire types and enum values above int32 the documentation determines nothing and either outcome is accepted",
		"full decoding = object.Unmarshal (SDK) plus proto.Unmarshal of the same bytes for sub-message comparison")
	r.Exhaustive(!r.Expired())
	r.Finish()
}

func replayFS(data []byte, kind string) {
	dir, err := os.MkdirTemp("/dev/shm", "verif-c41-")
	if err != nil {
		run.Fatal("tmp dir: %v", err)
	}
	defer os.RemoveAll(dir)
	t := fstree.New(fstree.WithPath(dir), fstree.WithDepth(1), fstree.WithNoSync(true), fstree.WithCombinedCountLimit(1))
	if err := t.Open(false); err != nil {
		run.Fatal("open: %v", err)
	}
	if err := t.Init(common.ID{}); err != nil {
		run.Fatal("init: %v", err)
	}
	addr := oid.NewAddress(mkCID("replay"), mkOID("replay"))
	fsCase(t, addr, data, kind)
	t.Close()
}

var _ = errors.Is
