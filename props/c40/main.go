// C40: epoch timers fire each tick exactly once per epoch, at the right time.
// Explicit-state BFS to fixpoint (all sequence lengths) over Reset(t,dur)/UpdateTime(t) on the real
// EpochTimers, compared after every step with a reference automaton.
package main

import (
	"fmt"

	"github.com/nspcc-dev/neofs-node/pkg/timers"
	"github.com/nspcc-dev/neofs-node/verif/lib/ev"
	"github.com/nspcc-dev/neofs-node/verif/lib/seqx"
)

type frac struct{ mul, div uint32 }

var fracs = []frac{{1, 2}, {1, 3}, {2, 3}, {1, 1}}

const nEpochHandlers = 2

type op struct {
	reset  bool
	t, dur uint64
}

type sys struct {
	et    *timers.EpochTimers
	fired []int // per handler, during the last op
	// reference automaton
	armed bool
	due   []uint64
	done  []bool
	want  []int
	ops   []op
}

func newSys(ops []op) *sys {
	n := nEpochHandlers + len(fracs)
	s := &sys{fired: make([]int, n), due: make([]uint64, n), done: make([]bool, n), want: make([]int, n), ops: ops}
	var tt timers.EpochTicks
	for i := 0; i < nEpochHandlers; i++ {
		i := i
		tt.NewEpochTicks = append(tt.NewEpochTicks, func() { s.fired[i]++ })
	}
	for j, f := range fracs {
		j := j
		tt.DeltaTicks = append(tt.DeltaTicks, timers.SubEpochTick{Tick: func() { s.fired[nEpochHandlers+j]++ }, EpochMul: f.mul, EpochDiv: f.div})
	}
	s.et = timers.NewTimers(tt)
	return s
}

func (s *sys) Apply(i int) (string, bool) {
	o := s.ops[i]
	for k := range s.fired {
		s.fired[k], s.want[k] = 0, 0
	}
	if o.reset {
		s.et.Reset(o.t, o.dur)
		s.armed = true
		for k := range s.due {
			if k < nEpochHandlers {
				s.due[k] = o.t + o.dur
			} else {
				f := fracs[k-nEpochHandlers]
				s.due[k] = o.t + o.dur*uint64(f.mul)/uint64(f.div)
			}
			s.done[k] = false
		}
		return "reset", true
	}
	s.et.UpdateTime(o.t)
	if s.armed {
		for k := range s.due {
			if !s.done[k] && s.due[k] <= o.t {
				s.done[k] = true
				s.want[k] = 1
			}
		}
	}
	return fmt.Sprint(s.fired), true
}

func (s *sys) Key() string {
	return s.et.VerifDump() + fmt.Sprintf("|%v %v %v", s.armed, s.due, s.done)
}

func (s *sys) Check() (string, string) {
	if !s.armed {
		return "", "" // behaviour before the first reset is not specified by the property
	}
	for k := range s.fired {
		if s.fired[k] != s.want[k] {
			kind := "epoch-handler"
			if k >= nEpochHandlers {
				kind = fmt.Sprintf("sub-epoch-handler-%d/%d", fracs[k-nEpochHandlers].mul, fracs[k-nEpochHandlers].div)
			}
			cls := "fired-when-not-due-or-twice"
			if s.fired[k] < s.want[k] {
				cls = "did-not-fire-when-due"
			}
			return kind + ":" + cls, fmt.Sprintf("handler %d fired %d times, reference says %d (due %v done %v)", k, s.fired[k], s.want[k], s.due, s.done)
		}
	}
	return "", ""
}
func (s *sys) Close() {}

func main() {
	r := ev.Start("C40", ev.ModelChecking)
	maxT, maxDur := uint64(8), uint64(4)
	if r.Thorough() {
		maxT, maxDur = 12, 6
	}
	var ops []op
	for t := uint64(0); t <= maxT; t++ {
		ops = append(ops, op{false, t, 0})
	}
	for t := uint64(0); t <= maxT; t++ {
		for d := uint64(1); d <= maxDur; d++ {
			ops = append(ops, op{true, t, d})
		}
	}
	cfg := seqx.Config{NumOps: len(ops), New: func() seqx.Sys { return newSys(ops) },
		OpName: func(i int) string {
			if ops[i].reset {
				return fmt.Sprintf("Reset(%d,%d)", ops[i].t, ops[i].dur)
			}
			return fmt.Sprintf("UpdateTime(%d)", ops[i].t)
		}}
	if r.Replay != "" {
		var rp struct{ Ops []string }
		r.LoadReplay(&rp)
		fp, what, err := seqx.Replay(cfg, rp.Ops)
		if err != nil {
			r.Fatal("%v", err)
		}
		if fp != "" {
			r.Violation(fp, what, rp)
		}
		r.Finish()
	}
	res := seqx.Run(r, cfg)
	r.Rule(fmt.Sprintf("BFS to fixpoint over %d ops (UpdateTime t in 0..%d non-monotonic; Reset(t,dur) dur 1..%d) with 2 epoch handlers and sub-ticks 1/2,1/3,2/3,1/1; state = full internal timer state + reference automaton; fixpoint=%v so every operation sequence of any length is covered", len(ops), maxT, maxDur, res.Fixpoint))
	r.Assume("single-threaded histories; the UpdateTime||Reset interleavings are serialised by the timer's mutex (both methods hold it for their whole body)")
	r.Finish()
}
