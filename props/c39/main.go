// C39: converting GAS amounts between precisions never creates value or wraps.
// Exhaustive over a structured boundary alphabet of int64 amounts x precisions 0..18 on the real
// Fixed8Converter and Convert, against a math/big reference.
package main

import (
	"fmt"
	"math"
	"math/big"
	"sort"

	"github.com/nspcc-dev/neofs-node/pkg/util/precision"
	"github.com/nspcc-dev/neofs-node/verif/lib/enumx"
	"github.com/nspcc-dev/neofs-node/verif/lib/ev"
)

type tcase struct {
	Precision uint32
	Amount    int64
}

var (
	two53  = new(big.Int).Lsh(big.NewInt(1), 53)
	minI64 = big.NewInt(math.MinInt64)
	maxI64 = big.NewInt(math.MaxInt64)
)

func pow10(e int) *big.Int { return new(big.Int).Exp(big.NewInt(10), big.NewInt(int64(e)), nil) }

// reference: exact conversion, floor division
func refConv(from, to int, n *big.Int) *big.Int {
	if to >= from {
		return new(big.Int).Mul(n, pow10(to-from))
	}
	return new(big.Int).Div(n, pow10(from-to)) // Euclidean = floor for positive divisor
}

func fits(x *big.Int) bool { return x.Cmp(minI64) >= 0 && x.Cmp(maxI64) <= 0 }

func amounts(dense int64) []int64 {
	set := map[int64]struct{}{}
	add := func(b *big.Int) {
		for d := int64(-2); d <= 2; d++ {
			x := new(big.Int).Add(b, big.NewInt(d))
			if fits(x) {
				set[x.Int64()] = struct{}{}
			}
			x.Neg(x)
			if fits(x) {
				set[x.Int64()] = struct{}{}
			}
		}
	}
	add(big.NewInt(0))
	for k := 0; k <= 63; k++ {
		add(new(big.Int).Lsh(big.NewInt(1), uint(k)))
	}
	for k := 0; k <= 19; k++ {
		add(pow10(k))
		for m := int64(2); m <= 9; m++ {
			add(new(big.Int).Mul(big.NewInt(m), pow10(k)))
		}
	}
	for j := 0; j <= 18; j++ {
		add(new(big.Int).Div(maxI64, pow10(j)))
		add(new(big.Int).Div(two53, pow10(j)))
	}
	for x := -dense; x <= dense; x++ {
		set[x] = struct{}{}
	}
	for x := int64(1)<<53 - dense; x <= int64(1)<<53; x++ {
		set[x] = struct{}{}
		set[-x] = struct{}{}
	}
	r := make([]int64, 0, len(set))
	for x := range set {
		r = append(r, x)
	}
	sort.Slice(r, func(i, j int) bool { return r[i] < r[j] })
	return r
}

func main() {
	r := ev.Start("C39", ev.Exploration)
	check := func(c tcase) {
		r.Eval(1)
		p := int(c.Precision)
		conv := precision.NewConverter(c.Precision)
		n := big.NewInt(c.Amount)
		inRange := new(big.Int).Abs(n).Cmp(two53) < 0
		ovf := func(fn string, k int) string {
			// amounts below 2^53 overflow int64 only when scaled up by 10^k with k >= 4
			if k >= 4 {
				return "int64-overflow:scale-up-by-10^k:k>=4:amount<2^53"
			}
			return fmt.Sprintf("int64-overflow:%s:k=%d", fn, k)
		}
		// main-net (Fixed8) -> balance precision
		exactT := refConv(8, p, n)
		T := conv.ToBalancePrecision(c.Amount)
		if !fits(exactT) {
			if inRange {
				r.Violation(ovf("ToBalancePrecision", p-8), fmt.Sprintf("ToBalancePrecision precision %d amount %d: exact %s does not fit int64, silently returned %d", p, c.Amount, exactT, T), c)
			}
		} else {
			if big.NewInt(T).Cmp(exactT) != 0 {
				r.Violation(fmt.Sprintf("wrong-value:ToBalancePrecision:%s", dir(p)), fmt.Sprintf("precision %d amount %d: got %d want %s", p, c.Amount, T, exactT), c)
				return
			}
			if (T > 0 && c.Amount < 0) || (T < 0 && c.Amount > 0) {
				r.Violation("sign-change:ToBalancePrecision", fmt.Sprintf("precision %d amount %d -> %d", p, c.Amount, T), c)
				return
			}
			if fits(refConv(p, 8, exactT)) {
				back := conv.ToFixed8(T)
				if back > c.Amount {
					r.Violation(fmt.Sprintf("round-trip-creates-value:%s", dir(p)), fmt.Sprintf("precision %d amount %d -> %d -> %d", p, c.Amount, T, back), c)
					return
				}
				if p >= 8 && back != c.Amount {
					r.Violation("round-trip-not-exact:target>=source", fmt.Sprintf("precision %d amount %d -> %d -> %d", p, c.Amount, T, back), c)
					return
				}
			}
		}
		// balance precision -> Fixed8 (the Lock -> Cheque direction)
		exactF := refConv(p, 8, n)
		F := conv.ToFixed8(c.Amount)
		if !fits(exactF) {
			if inRange {
				r.Violation(ovf("ToFixed8", 8-p), fmt.Sprintf("ToFixed8 precision %d amount %d: exact %s does not fit int64, silently returned %d", p, c.Amount, exactF, F), c)
			}
		} else {
			if big.NewInt(F).Cmp(exactF) != 0 {
				r.Violation(fmt.Sprintf("wrong-value:ToFixed8:%s", dir(p)), fmt.Sprintf("precision %d amount %d: got %d want %s", p, c.Amount, F, exactF), c)
				return
			}
			if (F > 0 && c.Amount < 0) || (F < 0 && c.Amount > 0) {
				r.Violation("sign-change:ToFixed8", fmt.Sprintf("precision %d amount %d -> %d", p, c.Amount, F), c)
				return
			}
		}
		// generic big.Int Convert agrees with the reference for every precision pair involving p
		for q := 0; q <= 18; q += 3 {
			got := precision.Convert(uint32(p), uint32(q), n)
			if got.Cmp(refConv(p, q, n)) != 0 {
				r.Violation("Convert-disagrees-with-reference", fmt.Sprintf("Convert(%d,%d,%d)=%s", p, q, c.Amount, got), c)
				return
			}
		}
		if c.Amount != 0 && inRange {
			r.Nontrivial(fmt.Sprintf("%d/%d", p, c.Amount))
		}
	}
	if r.Replay != "" {
		var c tcase
		r.LoadReplay(&c)
		check(c)
		r.Finish()
	}
	dense := int64(1 << 12)
	if r.Thorough() {
		dense = 1 << 17
	}
	am := amounts(dense)
	enumx.Parallel(19, func(p int) {
		for _, a := range am {
			check(tcase{uint32(p), a})
		}
	})
	r.Sample(map[string]any{"precision": 12, "amount": am[len(am)/2+100]})
	r.Sample(map[string]any{"precision": 3, "amount": am[len(am)-5]})
	r.Rule(fmt.Sprintf("precisions 0..18 x %d amounts {0, +-(2^k+d), +-(m*10^k+d), +-(floor((2^63-1)/10^j)+d), +-(floor(2^53/10^j)+d), d in -2..2} plus dense windows [-%d,%d] and [2^53-%d,2^53] (both signs); non-trivial = distinct (precision, non-zero amount below 2^53)", len(am), dense, dense, dense))
	r.Exhaustive(true)
	r.Assume("exhaustive over the stated boundary alphabet, not over all 2^64 int64 values (a symbolic argument is outside this technique)")
	r.Finish()
}

func dir(p int) string {
	if p >= 8 {
		return "target>=source"
	}
	return "target<source"
}
