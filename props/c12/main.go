// C12: a crash during a blob write never exposes partial or wrong object bytes.
// Crash-image enumeration on the real FSTree (linux combined/single-file writer and the generic
// writer): the directory tree is captured before and after EVERY write-path syscall (and with torn
// prefixes of every write) of every explored execution of short histories (Put, PutBatch, Delete,
// two concurrent Puts); every image is reopened by a fresh FSTree and checked.
package main

import (
	"bytes"
	"errors"
	"fmt"
	"io"
	"os"
	"path/filepath"
	"sort"
	"strings"
	"time"

	"github.com/nspcc-dev/neo-go/pkg/util"
	"github.com/nspcc-dev/neofs-node/pkg/local_object_storage/blobstor/common"
	"github.com/nspcc-dev/neofs-node/pkg/local_object_storage/blobstor/fstree"
	"github.com/nspcc-dev/neofs-node/verif/lib/ev"
	"github.com/nspcc-dev/neofs-node/verif/lib/sched"
	"github.com/nspcc-dev/neofs-node/verif/shim/vunix"
	apistatus "github.com/nspcc-dev/neofs-sdk-go/client/status"
	cid "github.com/nspcc-dev/neofs-sdk-go/container/id"
	"github.com/nspcc-dev/neofs-sdk-go/object"
	oid "github.com/nspcc-dev/neofs-sdk-go/object/id"
	"github.com/nspcc-dev/neofs-sdk-go/user"
	"golang.org/x/sys/unix"
)

const nObj = 8

var (
	addrs [nObj]oid.Address
	blobs [nObj][]byte
	pays  [nObj][]byte
)

// payload sizes: small ones go to combined files, 300/700 exceed the 256-byte threshold
var paySizes = [nObj]int{3, 5, 300, 7, 700, 2, 9, 4}

func initObjects() {
	var c cid.ID
	c[0] = 0xC1
	owner := user.NewFromScriptHash(util.Uint160{1, 2, 3})
	for i := 0; i < nObj; i++ {
		var id oid.ID
		id[0] = byte(0x20 + i/2) // pairs share the first byte => same depth-1 directory prefix candidates
		id[31] = byte(i + 1)
		o := object.New(c, owner)
		o.SetID(id)
		pays[i] = bytes.Repeat([]byte{byte('A' + i)}, paySizes[i])
		o.SetPayload(pays[i])
		o.SetPayloadSize(uint64(len(pays[i])))
		blobs[i] = o.Marshal()
		addrs[i] = oid.NewAddress(c, id)
	}
}

type op struct {
	Kind string // put | batch | delete
	Objs []int
}

type history struct {
	name    string
	threads [][]op
	generic bool
}

type image struct {
	dir      string
	label    string
	acked    [nObj]bool // write returned success before this point
	delBegun [nObj]bool
	delDone  [nObj]bool
}

type result struct {
	root    string
	images  []image
	errs    []string
	checked int
	reads   int
	retries int
}

func copyTree(src, dst string) error {
	return filepath.Walk(src, func(p string, info os.FileInfo, err error) error {
		if err != nil {
			return nil // file vanished concurrently: not part of the image
		}
		rel, _ := filepath.Rel(src, p)
		t := filepath.Join(dst, rel)
		if info.IsDir() {
			return os.MkdirAll(t, 0o700)
		}
		b, err := os.ReadFile(p)
		if err != nil {
			return nil
		}
		return os.WriteFile(t, b, 0o600)
	})
}

func scenario(h history, pre int) sched.Scenario {
	body := func(s *sched.S) any {
		root, err := os.MkdirTemp("/dev/shm", "verif-c12-")
		if err != nil {
			panic(err)
		}
		res := &result{root: root}
		s.Result = res
		dir := filepath.Join(root, "live")
		var acked, delBegun, delDone [nObj]bool
		snap := func(label string) {
			d := filepath.Join(root, fmt.Sprintf("img%d", len(res.images)))
			if err := copyTree(dir, d); err != nil {
				res.errs = append(res.errs, err.Error())
			}
			res.images = append(res.images, image{d, label, acked, delBegun, delDone})
		}
		for k := range vunix.Calls {
			delete(vunix.Calls, k)
		}
		initPhase := true
		vunix.Fault = func(name string, nth int) unix.Errno {
			if initPhase && h.generic && name == "Open" {
				return unix.EOPNOTSUPP // O_TMPFILE unsupported: FSTree falls back to the generic writer
			}
			return 0
		}
		capturing := false
		vunix.Hook = func(name, phase string) {
			if capturing {
				snap(fmt.Sprintf("t%d %s %s", s.Cur().ID, phase, name))
			}
		}
		vunix.TornHook = func(name string, fd int, data []byte) {
			if !capturing || len(data) < 2 {
				return
			}
			var st unix.Stat_t
			if unix.Fstat(fd, &st) != nil {
				return
			}
			off, _ := unix.Seek(fd, 0, io.SeekCurrent)
			for _, cut := range []int{1, len(data) / 2, len(data) - 1} {
				unix.Pwrite(fd, data[:cut], off)
				snap(fmt.Sprintf("t%d torn %s %d/%d", s.Cur().ID, name, cut, len(data)))
				unix.Ftruncate(fd, st.Size)
			}
			unix.Seek(fd, off, io.SeekStart)
		}
		defer func() { vunix.Fault, vunix.Hook, vunix.TornHook = nil, nil, nil }()
		fs := fstree.New(fstree.WithPath(dir), fstree.WithDepth(1), fstree.WithPerm(0o700),
			fstree.WithCombinedCountLimit(3), fstree.WithCombinedSizeLimit(4096), fstree.WithCombinedSizeThreshold(256))
		if err := fs.Open(false); err != nil {
			panic(err)
		}
		if err := fs.Init(common.ID{}); err != nil {
			panic(err)
		}
		initPhase = false
		capturing = true
		done := 0
		for ti, ops := range h.threads {
			ops := ops
			s.Go(fmt.Sprintf("w%d", ti), false, func() {
				for _, o := range ops {
					switch o.Kind {
					case "put":
						i := o.Objs[0]
						if err := fs.Put(addrs[i], blobs[i]); err == nil {
							acked[i] = true
						} else {
							res.errs = append(res.errs, err.Error())
						}
					case "batch":
						m := map[oid.Address][]byte{}
						for _, i := range o.Objs {
							m[addrs[i]] = blobs[i]
						}
						if err := fs.PutBatch(m); err == nil {
							for _, i := range o.Objs {
								acked[i] = true
							}
						} else {
							res.errs = append(res.errs, err.Error())
						}
					case "delete":
						i := o.Objs[0]
						delBegun[i] = true
						snap("before Delete")
						if err := fs.Delete(addrs[i]); err == nil {
							delDone[i] = true
						} else {
							res.errs = append(res.errs, err.Error())
						}
					}
					snap(fmt.Sprintf("after %s%v returned", o.Kind, o.Objs))
				}
				done++
			})
		}
		s.Block("join", func() bool { return done == len(h.threads) })
		capturing = false
		fs.Close()
		snap("final")
		return res
	}
	check := func(x *sched.Exec) (string, string) {
		res, _ := x.Result.(*result)
		if res == nil {
			return "", ""
		}
		defer os.RemoveAll(res.root)
		if len(x.Panics) > 0 {
			return "panic", x.Panics[0]
		}
		if x.Deadlock {
			return "deadlock", strings.Join(x.Blocked, ";")
		}
		if len(res.errs) > 0 {
			return "write-error-without-fault", strings.Join(res.errs, "; ")
		}
		for _, im := range res.images {
			res.checked++
			res.reads += nObj
			r0 := retriesChecked
			fp, what := checkImage(im, h.generic)
			res.retries += retriesChecked - r0
			if fp != "" {
				return fp, fmt.Sprintf("history %q crash image %q: %s", h.name, im.label, what)
			}
		}
		return "", ""
	}
	outcome := func(x *sched.Exec) string {
		res, _ := x.Result.(*result)
		if res == nil {
			return "aborted"
		}
		labels := map[string]bool{}
		for _, im := range res.images {
			f := strings.Fields(im.label)
			if len(f) >= 3 {
				labels[f[1]+" "+f[2]] = true
			}
		}
		var l []string
		for k := range labels {
			l = append(l, k)
		}
		sort.Strings(l)
		return fmt.Sprintf("%d images: %s", len(res.images), strings.Join(l, ","))
	}
	counters := func(x *sched.Exec) map[string]int {
		res, _ := x.Result.(*result)
		if res == nil {
			return nil
		}
		return map[string]int{"crash_images_reopened_and_checked": res.checked, "object_reads_on_images": res.reads, "puts_retried_on_recovered_images": res.retries}
	}
	return sched.Scenario{Name: h.name, Opt: sched.Options{PreemptBound: pre, MaxSteps: 4000}, Body: body, Check: check, Outcome: outcome, Counters: counters, Discard: func(x *sched.Exec) {
		if res, _ := x.Result.(*result); res != nil && res.root != "" {
			os.RemoveAll(res.root)
		}
	}}
}

var imagesChecked, readsChecked, retriesChecked int

// checkImage reopens one crash image with a fresh FSTree and evaluates the recovery oracle.
func checkImage(im image, generic bool) (string, string) {
	imagesChecked++
	fs := fstree.New(fstree.WithPath(im.dir), fstree.WithDepth(1), fstree.WithPerm(0o700),
		fstree.WithCombinedCountLimit(3), fstree.WithCombinedSizeLimit(4096), fstree.WithCombinedSizeThreshold(256),
		fstree.WithCombinedWriteInterval(time.Millisecond))
	if err := fs.Open(false); err != nil {
		return "reopen-failed", err.Error()
	}
	// the restarted node runs on the same kind of file system: the generic histories keep the generic writer
	saved := vunix.Fault
	vunix.Fault = func(name string, nth int) unix.Errno {
		if generic && name == "Open" {
			return unix.EOPNOTSUPP
		}
		return 0
	}
	err := fs.Init(common.ID{})
	vunix.Fault = func(string, int) unix.Errno { return 0 }
	defer func() { vunix.Fault = saved }()
	if err != nil {
		return "reopen-failed", err.Error()
	}
	defer fs.Close()
	wk := "linux"
	if generic {
		wk = "generic"
	}
	present := map[oid.Address]bool{}
	for i := 0; i < nObj; i++ {
		readsChecked++
		b, err := fs.GetBytes(addrs[i])
		mustHave := im.acked[i] && !im.delBegun[i]
		mustNot := im.delDone[i]
		switch {
		case err == nil && !bytes.Equal(b, blobs[i]):
			return wk + ":readable-with-wrong-bytes", fmt.Sprintf("object %d: got %d bytes, want %d", i, len(b), len(blobs[i]))
		case err == nil && mustNot:
			return wk + ":deleted-object-readable", fmt.Sprintf("object %d", i)
		case err != nil && mustHave:
			return wk + ":acknowledged-object-lost", fmt.Sprintf("object %d: %v", i, err)
		case err != nil && !errors.As(err, new(apistatus.ObjectNotFound)) && !im.delBegun[i]:
			// unacknowledged write in flight: an error (not partial data) is tolerated by the property, but
			// a corrupt-file error for a never-written object would be suspicious: report as own class
			return wk + ":read-error-not-notfound", fmt.Sprintf("object %d: %v", i, err)
		}
		if err == nil {
			present[addrs[i]] = true
			// the other read paths must agree
			o, err := fs.Get(addrs[i])
			if err != nil || !bytes.Equal(o.Payload(), pays[i]) {
				return wk + ":Get-disagrees", fmt.Sprintf("object %d: %v", i, err)
			}
			hdr, rc, err := fs.GetStream(addrs[i])
			if err != nil {
				return wk + ":GetStream-disagrees", fmt.Sprintf("object %d: %v", i, err)
			}
			pl, _ := io.ReadAll(rc)
			rc.Close()
			if !bytes.Equal(pl, pays[i]) || hdr.GetID() != addrs[i].Object() {
				return wk + ":GetStream-wrong-bytes", fmt.Sprintf("object %d", i)
			}
			if h, err := fs.Head(addrs[i]); err != nil || h.GetID() != addrs[i].Object() {
				return wk + ":Head-disagrees", fmt.Sprintf("object %d: %v", i, err)
			}
		}
		if ex, err := fs.Exists(addrs[i]); err != nil || ex != (err == nil && present[addrs[i]]) {
			return wk + ":Exists-disagrees", fmt.Sprintf("object %d exists=%v err=%v", i, ex, err)
		}
	}
	// the clients retry after the restart: every object that is absent now is put again through the
	// recovered storage (real writer, free running); an acknowledged retry must be readable
	for i := 0; i < nObj; i++ {
		if present[addrs[i]] || im.delBegun[i] {
			continue
		}
		retriesChecked++
		if err := fs.Put(addrs[i], blobs[i]); err != nil {
			continue // a refused retry is not this property's business
		}
		b, err := fs.GetBytes(addrs[i])
		if err != nil || !bytes.Equal(b, blobs[i]) {
			return wk + ":retried-put-acknowledged-but-unreadable", fmt.Sprintf("object %d: put on the recovered storage returned nil, read: %v", i, err)
		}
		present[addrs[i]] = true
	}
	seen := map[oid.Address]int{}
	err = fs.Iterate(func(a oid.Address, data []byte) error {
		seen[a]++
		for i := range addrs {
			if addrs[i] == a {
				if !bytes.Equal(data, blobs[i]) {
					return fmt.Errorf("iterate yields wrong bytes for object %d", i)
				}
				return nil
			}
		}
		return fmt.Errorf("iterate yields a foreign address %s", a)
	}, nil)
	if err != nil {
		return wk + ":iterate-wrong", err.Error()
	}
	for a, n := range seen {
		if n != 1 || !present[a] {
			return wk + ":iterate-duplicate-or-unreadable", fmt.Sprintf("%s listed %d times, readable=%v", a, n, present[a])
		}
	}
	for a := range present {
		if seen[a] != 1 {
			return wk + ":iterate-misses-readable-object", a.String()
		}
	}
	return "", ""
}

func main() {
	initObjects()
	r := ev.Start("C12", ev.FaultEnum)
	put := func(i int) op { return op{"put", []int{i}} }
	del := func(i int) op { return op{"delete", []int{i}} }
	batch := func(is ...int) op { return op{"batch", is} }
	var hs []history
	for _, g := range []bool{false, true} {
		w := "linux"
		if g {
			w = "generic"
		}
		hs = append(hs,
			history{w + ": put small (combined, timer sync)", [][]op{{put(0)}}, g},
			history{w + ": put large (single file)", [][]op{{put(2)}}, g},
			history{w + ": put small, put large, put small, delete first", [][]op{{put(0), put(4), put(1), del(0)}}, g},
			history{w + ": batch of 1", [][]op{{batch(3)}}, g},
			history{w + ": batch of 4 mixed sizes, then delete a member", [][]op{{batch(0, 1, 2, 3), del(1)}}, g},
			history{w + ": put, then batch of 3 containing a large one, then put", [][]op{{put(5), batch(4, 6, 7), put(0)}}, g},
			history{w + ": two concurrent small puts sharing a batch", [][]op{{put(0)}, {put(1)}}, g},
			history{w + ": concurrent put and batch, then delete", [][]op{{put(0), del(0)}, {batch(1, 3)}}, g},
			history{w + ": same small object put twice, same large object put twice", [][]op{{put(0), put(0), put(2), put(2)}}, g},
			history{w + ": batch over already stored objects", [][]op{{put(1), put(4), batch(1, 3, 4)}}, g},
			history{w + ": two concurrent puts of the same object", [][]op{{put(0)}, {put(0)}}, g},
		)
		if r.Thorough() {
			hs = append(hs,
				history{w + ": batch of 8", [][]op{{batch(0, 1, 2, 3, 4, 5, 6, 7)}}, g},
				history{w + ": three concurrent puts crossing the count limit", [][]op{{put(0)}, {put(1)}, {put(3)}}, g},
				history{w + ": 4 puts crossing the count limit then deletes", [][]op{{put(0), put(1), put(3), put(5), del(1), del(5)}}, g},
			)
		}
	}
	var scs []sched.Scenario
	for _, h := range hs {
		p := 1
		if len(h.threads) == 1 {
			p = 0 // a single writer: only the timer can interleave; its firing points are explored with 1 preemption
			if !h.generic {
				p = 1
			}
		}
		scs = append(scs, scenario(h, p))
	}
	if r.Thorough() {
		// concurrent histories again with <=2 preemptions, after the quick bounds (the budget is shared
		// per scenario, leftovers roll on)
		for _, h := range hs {
			if len(h.threads) > 1 {
				h.name += " [deep]"
				scs = append(scs, scenario(h, 2))
			}
		}
	}
	r.Rule("every execution (schedules within the preemption bound) of the listed histories x a crash image before and after every write-path syscall (open/write/writev/link/rename/fdatasync/close), after every returned operation, and with torn prefixes (1 byte, half, all-but-one) of every write; each image reopened by a fresh FSTree; non-trivial = distinct (history, set of syscall boundaries captured) classes")
	r.Assume("process-crash model: bytes handed to the kernel survive, O_TMPFILE data without a link does not", "os.Remove in Delete is atomic (images before/after it)")
	sched.Main(r, scs, 0)
}
