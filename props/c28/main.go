// C28: object access decisions follow basic ACL, sticky bit, eACL and bearer rules.
//
// Engine enumx. The real acl/v2.Service (request -> RequestInfo: sender classification, bearer applicability) and
// the real acl.Checker (CheckBasicACL, StickyBitCheck, CheckEACL with the real eACL validator and header sources, a
// real one-shard storage engine as "local object storage") are composed exactly as pkg/services/object/server.go
// composes them for every operation (request phase, and for GET/HEAD the re-check on the object header when the
// request phase could not see the header). The decision is compared with an independent reference decision
// function written from the property text, the container/acl documentation (bit layout, default rights of container
// and Inner Ring nodes) and the eACL rules (first matching record wins; SYSTEM requesters are outside eACL).
//
// Products (no sampling):
//
//	P1  op(8) x role(5) x all 64 values of the op's bits {U,S,O,B} x F x X (other ops' bits complemented) x small
//	    stored tables x bearer variants {absent, valid allow/deny, wrong issuer, wrong container, wrong subject} x
//	    object owner match/mismatch (PUT) x object location
//	P4  the operation a request is CHECKED as: RPC / object type of the PUT {REGULAR, TOMBSTONE, LOCK, LINK} x requester
//	    (5 kinds) x TTL {1,2} x server in container {yes,no} x all 16 values of the checked operation's bits (other
//	    operations complemented: PUT and DELETE always differ) x final bit x tables denying/allowing PUT and DELETE
//	    separately (stored / valid bearer)
//	R   header representations: see representations.go
//	P2  every 1-record table (2 actions x op match x 7 targets x 5 filters) stored or carried by a valid bearer token
//	    x op x role x B bit x object attribute x location
//	P3  every 2-record table (quick: over a reduced record space, 80 records -> 6400 tables, 4 operations, stored only;
//	    thorough: all 140 records -> 19600 tables, all operations, stored and bearer) x op x role x attribute x location
package main

import (
	"context"
	"errors"
	"flag"
	"fmt"
	"os"
	"runtime"
	"runtime/pprof"
	"strings"
	"sync"
	"sync/atomic"

	"github.com/nspcc-dev/neo-go/pkg/crypto/keys"
	aclchk "github.com/nspcc-dev/neofs-node/pkg/services/object/acl"
	aclsvc "github.com/nspcc-dev/neofs-node/pkg/services/object/acl/v2"
	"github.com/nspcc-dev/neofs-node/pkg/services/object/common"
	"github.com/nspcc-dev/neofs-node/verif/lib/ev"
	"github.com/nspcc-dev/neofs-node/verif/props/c30/aclworld"
	"github.com/nspcc-dev/neofs-node/verif/props/c33/vkit"
	"github.com/nspcc-dev/neofs-sdk-go/bearer"
	apistatus "github.com/nspcc-dev/neofs-sdk-go/client/status"
	"github.com/nspcc-dev/neofs-sdk-go/container"
	"github.com/nspcc-dev/neofs-sdk-go/container/acl"
	cid "github.com/nspcc-dev/neofs-sdk-go/container/id"
	"github.com/nspcc-dev/neofs-sdk-go/eacl"
	"github.com/nspcc-dev/neofs-sdk-go/object"
	oid "github.com/nspcc-dev/neofs-sdk-go/object/id"
	protoobject "github.com/nspcc-dev/neofs-sdk-go/proto/object"
	"github.com/nspcc-dev/neofs-sdk-go/proto/refs"
	protosession "github.com/nspcc-dev/neofs-sdk-go/proto/session"
	"github.com/nspcc-dev/neofs-sdk-go/session"
	"github.com/nspcc-dev/neofs-sdk-go/user"
	"google.golang.org/protobuf/proto"

	"crypto/sha256"
)

const curEpoch = 10

func hashID(label string) (r [32]byte) { return sha256.Sum256([]byte(label)) }

var (
	cA, cB = cid.ID(hashID("c28-cA")), cid.ID(hashID("c28-cB"))
)

func key(who string) *keys.PrivateKey { return vkit.Key("c28-" + who) }

type ident struct {
	pub []byte
	uid user.ID
}

var idents sync.Map

func identOf(who string) ident {
	if v, ok := idents.Load(who); ok {
		return v.(ident)
	}
	i := ident{key(who).PublicKey().Bytes(), user.NewFromScriptHash(key(who).PublicKey().GetScriptHash())}
	idents.Store(who, i)
	return i
}
func pub(who string) []byte  { return identOf(who).pub }
func uid(who string) user.ID { return identOf(who).uid }

// ---------------------------------------------------------------- case description

type recSpec struct {
	Deny   bool   `json:"deny"`
	SameOp bool   `json:"same_op"`
	Target string `json:"target"` // USER OTHERS SYSTEM key-me key-stranger acc-me acc-stranger
	Filter string `json:"filter"` // "" req:x=v req:x=w obj:k=v obj:k!=v
	// OnOp, when set ("PUT" | "DELETE"), names the record's operation explicitly (SameOp is then ignored): used by the
	// checked-operation product where PUT and DELETE rules must be told apart.
	OnOp string `json:"on_op,omitempty"`
}

func (r recSpec) String() string {
	a := "ALLOW"
	if r.Deny {
		a = "DENY"
	}
	o := "op"
	if !r.SameOp {
		o = "other-op"
	}
	if r.OnOp != "" {
		o = r.OnOp
	}
	return fmt.Sprintf("%s/%s/%s/%s", a, o, r.Target, r.Filter)
}

type tableSpec struct {
	None bool      `json:"none,omitempty"` // no table stored for the container
	Recs []recSpec `json:"recs,omitempty"`
}

type bearerSpec struct {
	Kind string    `json:"kind,omitempty"` // "" absent | valid | valid-unbound | wrong-issuer | wrong-container | wrong-subject
	Recs []recSpec `json:"recs,omitempty"`
}

type tcase struct {
	Op         string     `json:"op"`   // GET HEAD PUT DELETE SEARCH RANGE HASH PUT-TOMBSTONE
	Role       string     `json:"role"` // owner container ir others owner-session
	Bits       uint8      `json:"bits"` // U=8 S=4 O=2 B=1 of the effective operation
	Final      bool       `json:"final"`
	Sticky     bool       `json:"sticky"`
	Stored     tableSpec  `json:"stored"`
	Bearer     bearerSpec `json:"bearer"`
	ObjAttr    string     `json:"obj_attr"`              // v | w
	Loc        string     `json:"loc,omitempty"`         // local | remote-binary | remote-resp (GET/HEAD)
	OwnerMatch bool       `json:"owner_match,omitempty"` // PUT: object owner is the requester
	TTL1       bool       `json:"ttl1,omitempty"`        // request TTL 1 (replication of tombstones by container nodes)
	// NotInContainer: the server handling the request is NOT a node of the container (default: it is)
	NotInContainer bool `json:"not_in_container,omitempty"`
	// part R (representations.go)
	Rep *repCase `json:"representation_case,omitempty"`
}

var opIndex = map[string]int{"GET": 0, "HEAD": 1, "PUT": 2, "DELETE": 3, "SEARCH": 4, "RANGE": 5, "HASH": 6}
var opACL = map[string]acl.Op{"GET": acl.OpObjectGet, "HEAD": acl.OpObjectHead, "PUT": acl.OpObjectPut, "DELETE": acl.OpObjectDelete,
	"SEARCH": acl.OpObjectSearch, "RANGE": acl.OpObjectRange, "HASH": acl.OpObjectHash}

// effective operation for access control
func isPut(op string) bool { return strings.HasPrefix(op, "PUT") }

// effOp: the operation a request is CHECKED as. It is a function of the RPC, the object type in the PUT header, the
// sender's role and the TTL only (not of where the request is handled):
//
//	Get/Head/Delete/Search/Range RPC      -> that operation
//	Put RPC, REGULAR / LOCK / LINK object -> PUT
//	Put RPC, TOMBSTONE object             -> DELETE (saving a tombstone removes objects), except
//	                                         sender is a container node AND TTL == 1 (replication) -> PUT
func (c tcase) effOp() string {
	if c.Op == "PUT-LOCK" || c.Op == "PUT-LINK" {
		return "PUT"
	}
	if c.Op != "PUT-TOMBSTONE" {
		return c.Op
	}
	// spec (server.go/PutRequestToInfo comments): saving a tombstone is the removal of other objects, except for
	// intra-container replication (container node, TTL 1) which is a plain PUT
	if c.Role == "container" && c.TTL1 {
		return "PUT"
	}
	return "DELETE"
}

func (c tcase) basic() acl.Basic {
	var bits uint32
	for i := 0; i < 7; i++ {
		n := uint32(^c.Bits) & 0xF
		if i == opIndex[c.effOp()] {
			n = uint32(c.Bits)
		}
		bits |= n << (4 * uint(i))
	}
	if c.Final {
		bits |= 1 << 28
	}
	if c.Sticky {
		bits |= 1 << 29
	}
	var b acl.Basic
	b.FromBits(bits)
	return b
}

// ---------------------------------------------------------------- reference decision (the specification)

type refResult struct {
	served bool
	why    string // deciding rule
	// bearerRejectAllowed: the implementation may refuse the request outright because an attached bearer token is not
	// applicable (the property would fall back to the stored table; refusing is stricter, never weaker)
	bearerRejectAllowed bool
	detail              string
	src                 string
}

func uniq(a []string) []string {
	var r []string
	seen := map[string]bool{}
	for _, x := range a {
		if !seen[x] {
			seen[x] = true
			r = append(r, x)
		}
	}
	return r
}

func refBasic(role, op string, bits uint8) bool {
	switch role {
	case "owner", "owner-session":
		return bits&8 != 0
	case "others":
		return bits&2 != 0
	case "ir": // Inner Ring: data audit operations only, not configurable
		return op == "GET" || op == "HEAD" || op == "SEARCH" || op == "HASH"
	case "container": // container nodes: replication operations always, the rest by the S bit
		switch op {
		case "GET", "HEAD", "PUT", "SEARCH", "HASH":
			return true
		}
		return bits&4 != 0
	}
	panic("role")
}

func objectHeadersKnown(op string) bool {
	// eACL object-attribute filters can only be evaluated where the protocol carries the object header:
	// PUT (request), GET and HEAD (stored object / response). DELETE, RANGE, SEARCH know the address only.
	return op == "GET" || op == "HEAD" || isPut(op)
}

func refRecordMatches(r recSpec, c tcase, group string) bool {
	if r.OnOp != "" {
		if r.OnOp != c.effOp() {
			return false
		}
	} else if !r.SameOp {
		return false
	}
	switch r.Target {
	case "USER", "OTHERS":
		if r.Target != group {
			return false
		}
	case "SYSTEM", "key-stranger", "acc-stranger":
		return false
	case "key-me", "acc-me":
	default:
		panic("target")
	}
	switch r.Filter {
	case "":
		return true
	case "req:x=v":
		return true // every request of the harness carries X-header x=v
	case "req:x=w":
		return false
	case "obj:k=v":
		return objectHeadersKnown(c.Op) && c.ObjAttr == "v"
	case "obj:k!=v":
		return objectHeadersKnown(c.Op) && c.ObjAttr != "v"
	}
	panic("filter")
}

func reference(c tcase) refResult {
	op := c.effOp()
	var res refResult
	if c.Op == "PUT-LINK" && c.NotInContainer {
		// documented in PutRequestToInfo: a node outside the container does not check split-chain objects (it will not store
		// them and would need other parts of the chain); the container nodes it forwards to do
		res.served, res.why = true, "acl-skipped-split-object-on-non-container-node"
		return res
	}
	if c.Bearer.Kind != "" && c.Bearer.Kind != "valid" && c.Bearer.Kind != "valid-unbound" {
		res.bearerRejectAllowed = true
	}
	if !refBasic(c.Role, op, c.Bits) {
		res.why = "basic"
		return res
	}
	system := c.Role == "container" || c.Role == "ir"
	if isPut(c.Op) && c.Sticky && !system && !c.OwnerMatch {
		res.why = "sticky"
		return res
	}
	if c.Final || system {
		res.served, res.why = true, "basic-only"
		return res
	}
	group := "OTHERS"
	if c.Role == "owner" || c.Role == "owner-session" {
		group = "USER"
	}
	tbl, src := c.Stored, "stored"
	if (c.Bearer.Kind == "valid" || c.Bearer.Kind == "valid-unbound") && c.Bits&1 != 0 {
		tbl, src = tableSpec{Recs: c.Bearer.Recs}, "bearer"
	}
	if tbl.None {
		res.served, res.why = true, "no-table"
		return res
	}
	var before []string
	for i, r := range tbl.Recs {
		if refRecordMatches(r, c, group) {
			res.served = !r.Deny
			res.why = "eacl"
			_ = i
			res.detail = fmt.Sprintf("deciding-record-filter=%s:earlier-non-matching-record-filters=[%s]", filterKind(r.Filter), strings.Join(uniq(before), ","))
			res.src = src
			return res
		}
		if r.SameOp {
			before = append(before, filterKind(r.Filter))
		}
	}
	res.served, res.why = true, "eacl-no-match"
	res.detail = fmt.Sprintf("earlier-non-matching-record-filters=[%s]", strings.Join(uniq(before), ","))
	res.src = src
	return res
}

func filterKind(f string) string {
	switch {
	case f == "":
		return "none"
	case strings.HasPrefix(f, "req:"):
		return "req"
	}
	return "obj"
}

// ---------------------------------------------------------------- implementation under test, composed as server.go does

type env struct {
	w       *aclworld.World
	chk     *aclchk.Checker
	stored  *tableSpec // current case's stored table (read by the eACL source)
	checked acl.Op     // operation the service resolved the last request to (0 = none)
	curCase *tcase
}

var objects = map[string]*object.Object{} // local-v local-w remote-v remote-w

func mkObject(label, attr string) *object.Object {
	o := object.New(cA, uid("alice"))
	o.SetCreationEpoch(curEpoch - 1)
	o.SetAttributes(object.NewAttribute("k", attr))
	o.SetPayload([]byte("payload-" + label))
	o.SetPayloadSize(uint64(len(o.Payload())))
	if err := o.SetVerificationFields(user.NewAutoIDSignerRFC6979(key("alice").PrivateKey)); err != nil {
		panic(err)
	}
	return o
}

func requesterWho(role string) string {
	switch role {
	case "owner", "owner-session":
		return "alice"
	case "container":
		return "node"
	case "ir":
		return "ir"
	}
	return "carol"
}

func eaclTable(recs []recSpec, c tcase, cnr *cid.ID) eacl.Table {
	me := requesterWho(c.Role)
	var rs []eacl.Record
	for _, r := range recs {
		act := eacl.ActionAllow
		if r.Deny {
			act = eacl.ActionDeny
		}
		op := eacl.Operation(opACL[c.effOp()])
		if !r.SameOp {
			op = eacl.Operation(opACL[c.effOp()]%7 + 1)
		}
		if r.OnOp != "" {
			op = eacl.Operation(opACL[r.OnOp])
		}
		var t eacl.Target
		switch r.Target {
		case "USER":
			t = eacl.NewTargetByRole(eacl.RoleUser)
		case "OTHERS":
			t = eacl.NewTargetByRole(eacl.RoleOthers)
		case "SYSTEM":
			t = eacl.NewTargetByRole(eacl.RoleSystem)
		case "key-me":
			t.SetRawSubjects([][]byte{pub("dave"), pub(me)})
		case "key-stranger":
			t.SetRawSubjects([][]byte{pub("dave")})
		case "acc-me":
			t = eacl.NewTargetByAccounts([]user.ID{uid("dave"), uid(me)})
		case "acc-stranger":
			t = eacl.NewTargetByAccounts([]user.ID{uid("dave")})
		}
		var fs []eacl.Filter
		switch r.Filter {
		case "req:x=v":
			fs = append(fs, eacl.NewRequestHeaderFilter("x", eacl.MatchStringEqual, "v"))
		case "req:x=w":
			fs = append(fs, eacl.NewRequestHeaderFilter("x", eacl.MatchStringEqual, "w"))
		case "obj:k=v":
			fs = append(fs, eacl.NewObjectPropertyFilter("k", eacl.MatchStringEqual, "v"))
		case "obj:k!=v":
			fs = append(fs, eacl.NewObjectPropertyFilter("k", eacl.MatchStringNotEqual, "v"))
		}
		rs = append(rs, eacl.ConstructRecord(act, op, []eacl.Target{t}, fs...))
	}
	if cnr != nil {
		return eacl.NewTableForContainer(*cnr, rs)
	}
	return eacl.ConstructTable(rs)
}

func newEnv(le *aclworld.LocalEngine) *env {
	e := &env{}
	e.w = aclworld.New(aclworld.Config{
		Epoch:          curEpoch,
		Containers:     map[cid.ID]container.Container{},
		InnerRing:      [][]byte{pub("ir0"), pub("ir")},
		ContainerNodes: map[cid.ID][][]byte{cA: {pub("node0"), pub("node")}},
		InContainer:    true,
	})
	e.chk = aclworld.NewChecker(le.Eng, func(c cid.ID) (eacl.Table, error) {
		if c != cA || e.stored == nil || e.stored.None {
			return eacl.Table{}, apistatus.ErrEACLNotFound
		}
		return eaclTable(e.stored.Recs, *e.curCase, &cA), nil
	})
	return e
}

func sessionV1For(op string) *session.Object {
	verb := map[string]protosession.ObjectSessionContext_Verb{"GET": 2, "HEAD": 3, "PUT": 1, "DELETE": 5, "SEARCH": 4, "RANGE": 6, "PUT-TOMBSTONE": 5, "PUT-LOCK": 1, "PUT-LINK": 1}[op]
	a := uid("alice")
	body := &protosession.SessionToken_Body{
		Id:         []byte{1, 2, 3, 4, 5, 6, 0x47, 8, 0x89, 10, 11, 12, 13, 14, 15, 16},
		OwnerId:    &refs.OwnerID{Value: a[:]},
		Lifetime:   &protosession.SessionToken_Body_TokenLifetime{Exp: curEpoch + 1, Nbf: curEpoch - 1, Iat: curEpoch - 1},
		SessionKey: pub("carol"),
		Context: &protosession.SessionToken_Body_Object{Object: &protosession.ObjectSessionContext{Verb: verb,
			Target: &protosession.ObjectSessionContext_Target{Container: &refs.ContainerID{Value: cA[:]}}}},
	}
	s := vkit.Signer{Label: "c28-alice", Priv: key("alice"), Scheme: vkit.RFC6979}
	m := &protosession.SessionToken{Body: body, Signature: &refs.Signature{Key: s.KeyBytes(), Sign: s.Sign(vkit.Enc(body)), Scheme: refs.SignatureScheme(s.Scheme)}}
	var so session.Object
	if err := so.FromProtoMessage(m); err != nil {
		panic(err)
	}
	return &so
}

var sessionCache sync.Map

func (e *env) tokens(c tcase) common.RequestTokens {
	var t common.RequestTokens
	if c.Role == "owner-session" {
		v, ok := sessionCache.Load(c.Op)
		if !ok {
			v, _ = sessionCache.LoadOrStore(c.Op, sessionV1For(c.Op))
		}
		t.SessionV1 = v.(*session.Object)
	}
	if c.Bearer.Kind != "" {
		var bt bearer.Token
		tblCnr := &cA
		issuer := "alice"
		subject := requesterWho(c.Role)
		switch c.Bearer.Kind {
		case "valid-unbound":
			tblCnr, subject = nil, ""
		case "wrong-issuer":
			issuer = "bob"
		case "wrong-container":
			tblCnr = &cB
		case "wrong-subject":
			subject = "dave"
		}
		bt.SetEACLTable(eaclTable(c.Bearer.Recs, c, tblCnr))
		bt.SetIssuer(uid(issuer))
		if subject != "" {
			bt.ForUser(uid(subject))
		}
		bt.SetExp(curEpoch + 1)
		bt.SetNbf(curEpoch - 1)
		bt.SetIat(curEpoch - 1)
		t.Bearer = &bt
	}
	return t
}

func verifyHeader(who string) *protosession.RequestVerificationHeader {
	return &protosession.RequestVerificationHeader{
		BodySignature: &refs.Signature{Key: pub(who), Sign: []byte{1}, Scheme: refs.SignatureScheme_ECDSA_RFC6979_SHA256},
		MetaSignature: &refs.Signature{Key: pub(who), Sign: []byte{1}, Scheme: refs.SignatureScheme_ECDSA_RFC6979_SHA256},
	}
}

func (c tcase) signerWho() string {
	if c.Role == "owner-session" {
		return "carol" // the session subject signs; the requester is the session issuer (owner)
	}
	return requesterWho(c.Role)
}

func (c tcase) object() *object.Object {
	loc := "remote"
	if c.Loc == "local" {
		loc = "local"
	}
	return objects[loc+"-"+c.ObjAttr]
}

func headerBinary(o *object.Object) []byte {
	return vkit.Enc(o.ProtoMessage().Header)
}

// decide runs the implementation the way the object server does. stage tells where a refusal happened.
func (e *env) decide(c tcase) (served bool, stage string) {
	ctx := context.Background()
	cnr := container.Container{}
	cnr.SetOwner(uid("alice"))
	cnr.SetBasicACL(c.basic())
	e.w.SetContainer(cA, cnr)
	e.w.SetInContainer(!c.NotInContainer)
	e.stored, e.curCase = &c.Stored, &c
	ttl := uint32(2)
	if c.TTL1 {
		ttl = 1
	}
	meta := &protosession.RequestMetaHeader{Ttl: ttl, Version: &refs.Version{Major: 2, Minor: 25},
		XHeaders: []*protosession.XHeader{{Key: "x", Value: "v"}}}
	vh := verifyHeader(c.signerWho())
	tok := e.tokens(c)
	obj := c.object()
	objID := obj.GetID()
	addr := &refs.Address{ContainerId: &refs.ContainerID{Value: cA[:]}, ObjectId: &refs.ObjectID{Value: objID[:]}}

	var info aclsvc.RequestInfo
	var err error
	var req any
	var objOwner user.ID
	switch c.Op {
	case "GET":
		r := &protoobject.GetRequest{Body: &protoobject.GetRequest_Body{Address: addr}, MetaHeader: meta, VerifyHeader: vh}
		info, err = e.w.Svc.GetRequestToInfo(ctx, r, cA, tok)
		req = r
	case "HEAD":
		r := &protoobject.HeadRequest{Body: &protoobject.HeadRequest_Body{Address: addr}, MetaHeader: meta, VerifyHeader: vh}
		info, err = e.w.Svc.HeadRequestToInfo(ctx, r, cA, tok)
		req = r
	case "RANGE":
		r := &protoobject.GetRangeRequest{Body: &protoobject.GetRangeRequest_Body{Address: addr, Range: &protoobject.Range{Length: 1}}, MetaHeader: meta, VerifyHeader: vh}
		info, err = e.w.Svc.RangeRequestToInfo(ctx, r, cA, tok)
		req = r
	case "DELETE":
		r := &protoobject.DeleteRequest{Body: &protoobject.DeleteRequest_Body{Address: addr}, MetaHeader: meta, VerifyHeader: vh}
		info, err = e.w.Svc.DeleteRequestToInfo(ctx, r, cA, tok)
		req = r
	case "SEARCH":
		r := &protoobject.SearchV2Request{Body: &protoobject.SearchV2Request_Body{ContainerId: addr.ContainerId, Version: 1}, MetaHeader: meta, VerifyHeader: vh}
		info, err = e.w.Svc.SearchV2RequestToInfo(ctx, r, cA, tok)
		req = r
		objID = oid.ID{}
	case "PUT", "PUT-TOMBSTONE", "PUT-LOCK", "PUT-LINK":
		ow := uid("dave")
		if c.OwnerMatch {
			ow = uid(requesterWho(c.Role))
		}
		hdr := &protoobject.Header{Version: &refs.Version{Major: 2, Minor: 18}, ContainerId: addr.ContainerId, OwnerId: &refs.OwnerID{Value: ow[:]},
			CreationEpoch: curEpoch, Attributes: []*protoobject.Header_Attribute{{Key: "k", Value: c.ObjAttr}}}
		op := acl.OpObjectPut
		switch c.Op {
		case "PUT-TOMBSTONE":
			hdr.ObjectType = protoobject.ObjectType_TOMBSTONE
			op = acl.OpObjectDelete // what server.go passes for tombstones
		case "PUT-LOCK":
			hdr.ObjectType = protoobject.ObjectType_LOCK
		case "PUT-LINK":
			// link object of a V2 split chain: split header with parent header (the eACL headers of such a PUT are the parent's)
			par := &protoobject.Header{Version: hdr.Version, ContainerId: hdr.ContainerId, OwnerId: hdr.OwnerId, CreationEpoch: curEpoch,
				Attributes: hdr.Attributes}
			pid, fid := hashID("c28-link-parent"), hashID("c28-link-first")
			hdr = &protoobject.Header{Version: hdr.Version, ContainerId: hdr.ContainerId, OwnerId: hdr.OwnerId, CreationEpoch: curEpoch,
				ObjectType: protoobject.ObjectType_LINK,
				Split:      &protoobject.Header_Split{Parent: &refs.ObjectID{Value: pid[:]}, ParentHeader: par, First: &refs.ObjectID{Value: fid[:]}}}
		}
		init := &protoobject.PutRequest_Body_Init{Header: hdr}
		r := &protoobject.PutRequest{Body: &protoobject.PutRequest_Body{ObjectPart: &protoobject.PutRequest_Body_Init_{Init: init}}, MetaHeader: meta, VerifyHeader: vh}
		info, objOwner, err = e.w.Svc.PutRequestToInfo(ctx, r, init, cA, op, tok)
		req = r
		objID = oid.ID{}
	case "HASH":
		// no RPC handler resolves HASH requests any more; only the checker's basic decision is reachable
		role := map[string]acl.Role{"owner": acl.RoleOwner, "owner-session": acl.RoleOwner, "container": acl.RoleContainer, "ir": acl.RoleInnerRing, "others": acl.RoleOthers}[c.Role]
		info = aclsvc.RequestInfo{RequestRole: role, Operation: acl.OpObjectHash, Container: cnr}
		if !e.chk.CheckBasicACL(info) {
			return false, "basic"
		}
		return true, ""
	}
	if errors.Is(err, aclsvc.ErrSkipRequest) {
		return true, "acl-skipped" // server.go: no ACL check at all for this request
	}
	if err != nil {
		return false, "request-info"
	}
	e.checked = info.Operation
	if !e.chk.CheckBasicACL(info) {
		return false, "basic"
	}
	if isPut(c.Op) {
		if !e.chk.StickyBitCheck(info, objOwner) {
			return false, "sticky"
		}
	}
	err = e.chk.CheckEACL(ctx, req, cA, objID, info)
	if err == nil {
		return true, ""
	}
	if !errors.Is(err, aclsvc.ErrNotMatched) {
		return false, "eacl-request-phase"
	}
	if c.Op != "GET" && c.Op != "HEAD" {
		return true, "" // not matched -> follow basic ACL
	}
	// GET/HEAD: the header became known only with the response; the server re-checks on it
	var msg any = headerBinary(obj)
	if c.Loc == "remote-resp" {
		m := obj.ProtoMessage()
		msg = &protoobject.HeadResponse{Body: &protoobject.HeadResponse_Body{Head: &protoobject.HeadResponse_Body_Header{
			Header: &protoobject.HeaderWithSignature{Header: m.Header, Signature: m.Signature}}}}
	}
	err = e.chk.CheckEACL(ctx, msg, cA, objID, info)
	if err != nil && !errors.Is(err, aclsvc.ErrNotMatched) {
		return false, "eacl-response-phase"
	}
	return true, ""
}

// ---------------------------------------------------------------- driver

type runner struct {
	r       *ev.Run
	mu      sync.Mutex
	classes map[string]int64
	viols   map[string]int64
}

func (x *runner) check(e *env, c tcase) {
	r := x.r
	r.Eval(1)
	ref := reference(c)
	var served bool
	var stage string
	var pan any
	func() {
		defer func() { pan = recover() }()
		e.checked = 0
		served, stage = e.decide(c)
	}()
	if pan != nil {
		x.viol("panic:op="+c.Op, fmt.Sprintf("%+v: %v", c, pan), c)
		return
	}
	if want := opACL[c.effOp()]; pan == nil && e.checked != 0 && c.Op != "HASH" && e.checked != want {
		// direct oracle on the resolved RequestInfo: the operation the request is checked as
		x.viol(fmt.Sprintf("checked-as-wrong-operation:rpc=%s:checked-as=%s:spec=%s:sender-is-container-node=%v:ttl1=%v:server-in-container=%v",
			c.Op, e.checked, want, c.Role == "container", c.TTL1, !c.NotInContainer),
			fmt.Sprintf("%+v: the service resolved the request to operation %s; spec (RPC, object type, sender role, TTL): %s", c, e.checked, want), c)
		return
	}
	key := fmt.Sprintf("ref=%v(%s) impl=%v(%s)", ref.served, ref.why, served, stage)
	x.mu.Lock()
	x.classes[key]++
	x.mu.Unlock()
	if ref.why != "basic" && ref.why != "basic-only" {
		r.Nontrivial(fmt.Sprintf("%+v", c))
	}
	switch {
	case served && !ref.served:
		fp := fmt.Sprintf("served-though-reference-denies:%s:op=%s", ref.why, c.Op)
		if ref.why == "eacl" {
			phase := "request-phase"
			if c.Loc == "remote-binary" || c.Loc == "remote-resp" {
				phase = "header-recheck:" + c.Loc
			}
			fp = fmt.Sprintf("served-though-reference-denies:eacl:%s:%s", phase, ref.detail)
		}
		x.viol(fp, fmt.Sprintf("%+v: served, reference: denied by %s %s", c, ref.why, ref.detail), c)
	case !served && ref.served:
		if stage == "request-info" && ref.bearerRejectAllowed {
			x.mu.Lock()
			x.classes["refused-because-of-inapplicable-bearer-token (stricter than the property; not judged)"]++
			x.mu.Unlock()
			return
		}
		fp := fmt.Sprintf("denied-though-reference-allows:stage=%s:ref=%s:%s", stage, ref.why, ref.detail)
		x.viol(fp, fmt.Sprintf("%+v: refused at %s, reference: allowed (%s %s)", c, stage, ref.why, ref.detail), c)
	}
	if r.WantSample() && ref.why == "eacl" && len(c.Stored.Recs) == 2 {
		r.Sample(map[string]any{"case": c, "reference_served": ref.served, "impl_served": served})
	}
}

func (x *runner) viol(fp, what string, rep any) {
	x.mu.Lock()
	x.viols[fp]++
	x.mu.Unlock()
	x.r.Violation(fp, what, rep)
}

var (
	allOps    = []string{"GET", "HEAD", "PUT", "DELETE", "SEARCH", "RANGE", "PUT-TOMBSTONE", "PUT-LOCK"}
	allRoles  = []string{"owner", "container", "ir", "others", "owner-session"}
	targets7  = []string{"USER", "OTHERS", "SYSTEM", "key-me", "key-stranger", "acc-me", "acc-stranger"}
	targets4  = []string{"USER", "OTHERS", "key-me", "key-stranger"}
	filters5  = []string{"", "req:x=v", "req:x=w", "obj:k=v", "obj:k!=v"}
	bearerAll = []string{"", "valid", "valid-unbound", "wrong-issuer", "wrong-container", "wrong-subject"}
)

func records(targets []string) []recSpec {
	var r []recSpec
	for _, deny := range []bool{false, true} {
		for _, same := range []bool{true, false} {
			for _, t := range targets {
				for _, f := range filters5 {
					r = append(r, recSpec{deny, same, t, f, ""})
				}
			}
		}
	}
	return r
}

func locs(op string) []string {
	if op == "GET" {
		return []string{"local", "remote-binary"}
	}
	if op == "HEAD" {
		return []string{"local", "remote-binary", "remote-resp"}
	}
	return []string{""}
}

func groupTarget(role string) string {
	if role == "owner" || role == "owner-session" {
		return "USER"
	}
	return "OTHERS"
}

// generate emits every case of the three products.
func generate(quick bool, emit func(tcase)) {
	// ---- P1
	ops1 := append(append([]string{}, allOps...), "HASH")
	for _, op := range ops1 {
		for _, role := range allRoles {
			for bits := 0; bits < 16; bits++ {
				for _, fin := range []bool{false, true} {
					for _, st := range []bool{false, true} {
						base := tcase{Op: op, Role: role, Bits: uint8(bits), Final: fin, Sticky: st, ObjAttr: "v"}
						if op == "HASH" {
							base.Stored.None = true
							emit(base)
							continue
						}
						g := groupTarget(role)
						other := map[string]string{"USER": "OTHERS", "OTHERS": "USER"}[g]
						stored := []tableSpec{{None: true}, {}, {Recs: []recSpec{{true, true, g, "", ""}}}, {Recs: []recSpec{{false, true, g, "", ""}}},
							{Recs: []recSpec{{true, true, other, "", ""}}}, {Recs: []recSpec{{true, true, "key-me", "", ""}, {false, true, g, "", ""}}}}
						for _, stb := range stored {
							for _, bk := range bearerAll {
								brs := [][]recSpec{nil}
								if bk != "" {
									brs = [][]recSpec{{{false, true, g, "", ""}}, {{true, true, g, "", ""}}}
								}
								for _, br := range brs {
									for _, loc := range locs(op) {
										c := base
										c.Stored, c.Bearer, c.Loc = stb, bearerSpec{bk, br}, loc
										if isPut(op) {
											for _, om := range []bool{true, false} {
												c.OwnerMatch = om
												emit(c)
												if op == "PUT-TOMBSTONE" {
													c.TTL1 = true
													emit(c)
													c.TTL1 = false
												}
											}
											continue
										}
										emit(c)
									}
								}
							}
						}
					}
				}
			}
		}
	}
	// ---- P4: the operation a request is checked as. RPC / object type of the PUT x requester x TTL x server in container
	// x all 16 values of the checked operation's bits (the other operations complemented, so PUT and DELETE always differ)
	// x final bit x tables that deny or allow PUT and DELETE separately, stored or carried by a valid bearer token.
	for _, op := range []string{"PUT", "PUT-TOMBSTONE", "PUT-LOCK", "PUT-LINK", "GET", "HEAD", "DELETE", "SEARCH", "RANGE"} {
		for _, role := range allRoles {
			g := groupTarget(role)
			on := func(deny bool, o string) recSpec { return recSpec{Deny: deny, Target: g, OnOp: o} }
			tables := []tableSpec{{None: true}, {Recs: []recSpec{on(true, "PUT")}}, {Recs: []recSpec{on(true, "DELETE")}},
				{Recs: []recSpec{on(false, "PUT"), on(true, "DELETE")}}, {Recs: []recSpec{on(true, "PUT"), on(false, "DELETE")}}}
			if !isPut(op) {
				tables = tables[:3]
			}
			for _, ttl1 := range []bool{false, true} {
				for _, notIn := range []bool{false, true} {
					for bits := 0; bits < 16; bits++ {
						for _, fin := range []bool{false, true} {
							for _, loc := range locs(op)[:1] {
								base := tcase{Op: op, Role: role, Bits: uint8(bits), Final: fin, ObjAttr: "v", Loc: loc, OwnerMatch: true, TTL1: ttl1, NotInContainer: notIn}
								for _, tb := range tables {
									c := base
									c.Stored = tb
									emit(c)
									if !tb.None && isPut(op) {
										c.Stored = tableSpec{None: true}
										c.Bearer = bearerSpec{"valid", tb.Recs}
										emit(c)
									}
								}
							}
						}
					}
				}
			}
		}
	}
	// ---- P2: every 1-record table, stored or in a valid bearer token
	recs1 := records(targets7)
	for _, op := range allOps {
		for _, role := range allRoles {
			for _, b := range []uint8{0xE, 0xF} { // basic allows everybody; bearer bit off / on
				for _, attr := range []string{"v", "w"} {
					for _, loc := range locs(op) {
						for _, rec := range recs1 {
							base := tcase{Op: op, Role: role, Bits: b, ObjAttr: attr, Loc: loc, OwnerMatch: true}
							c := base
							c.Stored = tableSpec{Recs: []recSpec{rec}}
							emit(c)
							g := groupTarget(role)
							for _, stb := range []tableSpec{{None: true}, {Recs: []recSpec{{true, true, g, "", ""}}}} {
								for _, bk := range []string{"valid", "valid-unbound"} {
									c := base
									c.Stored = stb
									c.Bearer = bearerSpec{bk, []recSpec{rec}}
									emit(c)
								}
							}
						}
					}
				}
			}
		}
	}
	// ---- P3: every 2-record table over the reduced record space
	recs2 := records(targets4)
	ops3 := allOps
	if !quick {
		recs2 = recs1 // thorough: the full record space (140 records -> 19600 tables)
	}
	if quick {
		ops3 = []string{"GET", "HEAD", "PUT", "DELETE"}
	}
	for _, op := range ops3 {
		for _, role := range []string{"owner", "others", "container"} {
			for _, attr := range []string{"v", "w"} {
				for _, loc := range locs(op) {
					for _, r1 := range recs2 {
						for _, r2 := range recs2 {
							c := tcase{Op: op, Role: role, Bits: 0xF, ObjAttr: attr, Loc: loc, OwnerMatch: true}
							if quick && (role == "container" || !r1.SameOp && !r2.SameOp) {
								continue // quick: system role and tables without any applicable record are left to thorough
							}
							c.Stored = tableSpec{Recs: []recSpec{r1, r2}}
							emit(c)
							if !quick {
								c.Stored = tableSpec{Recs: []recSpec{{true, true, groupTarget(role), "", ""}}}
								c.Bearer = bearerSpec{"valid", []recSpec{r1, r2}}
								emit(c)
							}
						}
					}
				}
			}
		}
	}
}

func main() {
	prof := flag.String("cpuprofile", "", "write a CPU profile (debugging aid)")
	r := ev.Start("C28", ev.Exploration)
	if *prof != "" {
		f, _ := os.Create(*prof)
		pprof.StartCPUProfile(f)
	}
	objects["local-v"], objects["local-w"] = mkObject("local-v", "v"), mkObject("local-w", "w")
	objects["remote-v"], objects["remote-w"] = mkObject("remote-v", "v"), mkObject("remote-w", "w")
	le, err := aclworld.NewLocalEngine(curEpoch, objects["local-v"], objects["local-w"])
	if err != nil {
		r.Fatal("local engine: %v", err)
	}
	x := &runner{r: r, classes: map[string]int64{}, viols: map[string]int64{}}
	if r.Replay != "" {
		var c tcase
		r.LoadReplay(&c)
		if c.Rep != nil {
			x.partR(le, c.Rep)
		} else {
			x.check(newEnv(le), c)
		}
		le.Close()
		r.Finish()
	}
	// harness self-check: the binary header carries attribute k
	if !strings.Contains(string(headerBinary(objects["remote-v"])), "k") {
		r.Fatal("object header encoding")
	}
	_ = proto.Marshal

	workers := runtime.GOMAXPROCS(0)
	ch := make(chan []tcase, 4*workers)
	var wg sync.WaitGroup
	var expired atomic.Bool
	for i := 0; i < workers; i++ {
		wg.Add(1)
		go func() {
			defer wg.Done()
			e := newEnv(le)
			for batch := range ch {
				if expired.Load() {
					continue
				}
				for _, c := range batch {
					x.check(e, c)
				}
				if r.Expired() {
					expired.Store(true)
				}
			}
		}()
	}
	var batch []tcase
	total := 0
	generate(r.Quick(), func(c tcase) {
		total++
		batch = append(batch, c)
		if len(batch) == 2048 {
			ch <- batch
			batch = nil
		}
	})
	if len(batch) > 0 {
		ch <- batch
	}
	close(ch)
	wg.Wait()
	x.partR(le, nil)
	le.Close()

	x.mu.Lock()
	r.Set("outcome_classes", len(x.classes))
	r.Set("outcomes", x.classes)
	r.Set("violation_classes", x.viols)
	x.mu.Unlock()
	r.Set("cases_generated", total)
	r.Rule("R: every $Object: system filter key x matcher x filter value x {all-proto3-zero-values object, all-fields-set object} x {DENY, ALLOW-then-DENY} evaluated by CheckEACL over five representations of the same header (binary header, HEAD response, GET response, PUT request, local storage); all representations must agree and, for unambiguous keys, equal the reference; " +
		"P4: the operation a request is checked as = f(RPC, object type of the PUT header, sender role, TTL) exactly (tombstone PUT -> DELETE unless the SENDER is a container node and TTL is 1; not a function of where it is handled), over RPC/object type x requester x TTL x server-in-container x bits x PUT/DELETE tables, judged on the resolved RequestInfo and on the decision; " +
		"products P1-P3 of the file header, every combination evaluated once; non-trivial = case whose reference decision is not settled by the basic bits alone " +
		"(sticky bit, eACL record match, bearer/stored table selection, no-match fallback), distinct by the full case description")
	r.Assume("composition of RequestInfo resolution, CheckBasicACL, StickyBitCheck and CheckEACL (request phase, then header re-check for GET/HEAD) is replicated from pkg/services/object/server.go; the server's own code is not executed",
		"bearer tokens reach the ACL service already authenticated (C30); only their applicability (issuer, container, subject, B bit) is in scope",
		"object-attribute filters are decidable only where the protocol carries the object header (PUT request, GET/HEAD object); for DELETE/RANGE/SEARCH they match nothing",
		"an inapplicable bearer token makes the implementation refuse the request outright where the property would fall back to the stored table: stricter, not judged")
	r.Exhaustive(!expired.Load())
	pprof.StopCPUProfile()
	r.Finish()
}
