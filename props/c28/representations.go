// Part R of C28: the eACL decision must not depend on the REPRESENTATION of the object header the checker is given.
// The same object header is presented to the real Checker.CheckEACL as (a) binary header bytes (GET/HEAD re-check),
// (b) HEAD response message, (c) GET response init message, (d) PUT request init header, (e) object held by the local
// storage engine (request phase), for one-record DENY tables and ALLOW-then-DENY tables filtering on every $Object:
// system key x {=, !=, NOT_PRESENT, NUM_GT, NUM_GE, NUM_LT, NUM_LE where numeric} x filter values taken from both objects,
// over an object whose fields are all proto3 zero values (payload length 0, creation epoch 0, no version, type REGULAR,
// no checksums) and an object with every field set. Oracles: (1) differential - every representation gives the same
// decision; (2) reference predicate for the keys whose textual value is unambiguous (creation epoch, payload length,
// object type, container ID, object ID, owner ID).
package main

import (
	"context"
	"errors"
	"fmt"
	"math/big"
	"os"
	"strconv"

	aclchk "github.com/nspcc-dev/neofs-node/pkg/services/object/acl"
	aclsvc "github.com/nspcc-dev/neofs-node/pkg/services/object/acl/v2"
	"github.com/nspcc-dev/neofs-node/verif/props/c30/aclworld"
	"github.com/nspcc-dev/neofs-node/verif/props/c33/vkit"
	apistatus "github.com/nspcc-dev/neofs-sdk-go/client/status"
	"github.com/nspcc-dev/neofs-sdk-go/container"
	"github.com/nspcc-dev/neofs-sdk-go/container/acl"
	cid "github.com/nspcc-dev/neofs-sdk-go/container/id"
	"github.com/nspcc-dev/neofs-sdk-go/eacl"
	"github.com/nspcc-dev/neofs-sdk-go/object"
	oid "github.com/nspcc-dev/neofs-sdk-go/object/id"
	protoobject "github.com/nspcc-dev/neofs-sdk-go/proto/object"
	"github.com/nspcc-dev/neofs-sdk-go/proto/refs"
	protosession "github.com/nspcc-dev/neofs-sdk-go/proto/session"
)

type repCase struct {
	Object  string `json:"object"` // zero | zero-with-checksum | full
	Key     string `json:"key"`
	Matcher string `json:"matcher"`
	Value   string `json:"value"`
	Table   string `json:"table"` // deny | allow-then-deny
}

type repObject struct {
	name  string
	id    oid.ID
	hdr   *protoobject.Header
	local bool // stored in the local engine
	obj   *object.Object
}

func repObjects() []*repObject {
	a := uid("alice")
	mk := func(name string, h *protoobject.Header) *repObject {
		id := oid.ID(hashID("c28-rep-" + name))
		h.ContainerId = &refs.ContainerID{Value: cA[:]}
		h.OwnerId = &refs.OwnerID{Value: a[:]}
		o := new(object.Object)
		if err := o.FromProtoMessage(&protoobject.Object{ObjectId: &refs.ObjectID{Value: id[:]}, Header: h}); err != nil {
			panic(err)
		}
		return &repObject{name: name, id: id, hdr: h, obj: o}
	}
	sum := hashID("payload")
	return []*repObject{
		mk("zero", &protoobject.Header{}), // every optional field at its proto3 zero value
		// as "zero" but with the payload checksum the metabase insists on: the variant the local engine can hold
		mk("zero-with-checksum", &protoobject.Header{PayloadHash: &refs.Checksum{Type: refs.ChecksumType_SHA256, Sum: sum[:]}}),
		mk("full", &protoobject.Header{Version: &refs.Version{Major: 2, Minor: 18}, CreationEpoch: 7, PayloadLength: 5,
			ObjectType:      protoobject.ObjectType_LOCK,
			PayloadHash:     &refs.Checksum{Type: refs.ChecksumType_SHA256, Sum: sum[:]},
			HomomorphicHash: &refs.Checksum{Type: refs.ChecksumType_TZ, Sum: make([]byte, 64)},
			Attributes:      []*protoobject.Header_Attribute{{Key: "k", Value: "v"}}}),
	}
}

var repMatchers = map[string]eacl.Match{"=": eacl.MatchStringEqual, "!=": eacl.MatchStringNotEqual, "NOT_PRESENT": eacl.MatchNotPresent,
	"NUM_GT": eacl.MatchNumGT, "NUM_GE": eacl.MatchNumGE, "NUM_LT": eacl.MatchNumLT, "NUM_LE": eacl.MatchNumLE}

// refHeaderValue: textual value of a system header per the API/eACL documentation, for the unambiguous keys.
func refHeaderValue(o *repObject, key string) (string, bool) {
	switch key {
	case eacl.FilterObjectCreationEpoch:
		return strconv.FormatUint(o.hdr.CreationEpoch, 10), true
	case eacl.FilterObjectPayloadSize:
		return strconv.FormatUint(o.hdr.PayloadLength, 10), true
	case eacl.FilterObjectType:
		return object.Type(o.hdr.ObjectType).String(), true
	case eacl.FilterObjectContainerID:
		return cA.EncodeToString(), true
	case eacl.FilterObjectID:
		return o.id.EncodeToString(), true
	case eacl.FilterObjectOwnerID:
		return uid("alice").EncodeToString(), true
	}
	return "", false
}

func refFilterMatches(hv, m, fv string) bool {
	switch m {
	case "=":
		return hv == fv
	case "!=":
		return hv != fv
	case "NOT_PRESENT":
		return false // these system headers are always present
	}
	a, ok1 := new(big.Int).SetString(hv, 10)
	b, ok2 := new(big.Int).SetString(fv, 10)
	if !ok1 || !ok2 {
		return false
	}
	c := a.Cmp(b)
	switch m {
	case "NUM_GT":
		return c > 0
	case "NUM_GE":
		return c >= 0
	case "NUM_LT":
		return c < 0
	case "NUM_LE":
		return c <= 0
	}
	return false
}

type repEnv struct {
	chk   *aclchk.Checker
	table eacl.Table
	objs  map[string]*repObject
}

func newRepEnv(le *aclworld.LocalEngine) *repEnv {
	e := &repEnv{objs: map[string]*repObject{}}
	for _, o := range repObjects() {
		if err := le.Eng.Put(context.Background(), o.obj, nil); err == nil {
			o.local = true
		} else if os.Getenv("VERIF_DEBUG") != "" {
			fmt.Println("part R: local engine refuses", o.name, err)
		}
		e.objs[o.name] = o
	}
	e.chk = aclworld.NewChecker(le.Eng, func(c cid.ID) (eacl.Table, error) {
		if c != cA {
			return eacl.Table{}, apistatus.ErrEACLNotFound
		}
		return e.table, nil
	})
	return e
}

var repNames = []string{"binary-header", "head-response", "get-response", "put-request", "local-storage"}

// decision of CheckEACL for one representation: "allow" (nil or not matched) | "deny" | "error:<..>" | "" (not available)
func (e *repEnv) decide(c repCase, rep string) string {
	o := e.objs[c.Object]
	op := acl.OpObjectGet
	if rep == "put-request" {
		op = acl.OpObjectPut
	}
	f := eacl.NewObjectPropertyFilter(c.Key, repMatchers[c.Matcher], c.Value)
	others := []eacl.Target{eacl.NewTargetByRole(eacl.RoleOthers)}
	recs := []eacl.Record{eacl.ConstructRecord(eacl.ActionDeny, eacl.Operation(op), others, f)}
	if c.Table == "allow-then-deny" {
		recs = []eacl.Record{eacl.ConstructRecord(eacl.ActionAllow, eacl.Operation(op), others, f), eacl.ConstructRecord(eacl.ActionDeny, eacl.Operation(op), others)}
	}
	e.table = eacl.NewTableForContainer(cA, recs)

	var cnr container.Container
	cnr.SetOwner(uid("alice"))
	var b acl.Basic
	b.FromBits(0x0FFFFFFF)
	cnr.SetBasicACL(b)
	carol := uid("carol")
	meta := &protosession.RequestMetaHeader{Ttl: 2}
	addr := &refs.Address{ContainerId: &refs.ContainerID{Value: cA[:]}, ObjectId: &refs.ObjectID{Value: o.id[:]}}
	getReq := &protoobject.GetRequest{Body: &protoobject.GetRequest_Body{Address: addr}, MetaHeader: meta}
	info := aclsvc.RequestInfo{RequestRole: acl.RoleOthers, Operation: op, Container: cnr, SenderKey: pub("carol"), SenderAccount: &carol, SrcRequest: getReq}
	var msg any
	switch rep {
	case "binary-header":
		msg = vkit.Enc(o.hdr)
		if len(msg.([]byte)) == 0 {
			return ""
		}
	case "head-response":
		msg = &protoobject.HeadResponse{Body: &protoobject.HeadResponse_Body{Head: &protoobject.HeadResponse_Body_Header{Header: &protoobject.HeaderWithSignature{Header: o.hdr}}}}
	case "get-response":
		msg = &protoobject.GetResponse{Body: &protoobject.GetResponse_Body{ObjectPart: &protoobject.GetResponse_Body_Init_{Init: &protoobject.GetResponse_Body_Init{ObjectId: addr.ObjectId, Header: o.hdr}}}}
	case "put-request":
		init := &protoobject.PutRequest_Body_Init{ObjectId: addr.ObjectId, Header: o.hdr}
		r := &protoobject.PutRequest{Body: &protoobject.PutRequest_Body{ObjectPart: &protoobject.PutRequest_Body_Init_{Init: init}}, MetaHeader: meta}
		info.SrcRequest = r
		msg = r
	case "local-storage":
		if !o.local {
			return ""
		}
		msg = getReq
	}
	err := e.chk.CheckEACL(context.Background(), msg, cA, o.id, info)
	switch {
	case err == nil || errors.Is(err, aclsvc.ErrNotMatched):
		return "allow"
	case err.Error() == "denied by rule":
		return "deny"
	}
	return "error:" + err.Error()
}

func (x *runner) representationCase(e *repEnv, c repCase) {
	o := e.objs[c.Object]
	got := map[string]string{}
	var first string
	for _, rep := range repNames {
		x.r.Eval(1)
		var d string
		var pan any
		func() {
			defer func() { pan = recover() }()
			d = e.decide(c, rep)
		}()
		if pan != nil {
			x.viol("panic:eacl-representation:"+rep, fmt.Sprintf("%+v %s: %v", c, rep, pan), map[string]any{"representation_case": c})
			return
		}
		if d == "" {
			continue
		}
		got[rep] = d
		if first == "" {
			first = rep
		}
	}
	x.mu.Lock()
	x.classes[fmt.Sprintf("R representations=%d decision=%s", len(got), got[first])]++
	x.mu.Unlock()
	x.r.Nontrivial(fmt.Sprintf("R|%+v", c))
	zero := "non-zero-value-object"
	if c.Object != "full" {
		zero = "proto3-zero-value-object"
	}
	// (2) reference for unambiguous keys
	want := ""
	if hv, ok := refHeaderValue(o, c.Key); ok {
		m := refFilterMatches(hv, c.Matcher, c.Value)
		want = "allow"
		if m == (c.Table == "deny") {
			want = "deny"
		}
	}
	for _, rep := range repNames {
		d, ok := got[rep]
		if !ok {
			continue
		}
		ref := got[first]
		src := "representation " + first
		if want != "" {
			ref, src = want, "the reference predicate"
		}
		if d != ref {
			x.viol(fmt.Sprintf("eacl-decision-depends-on-header-representation:key=%s:%s:disagreeing=%s", c.Key, zero, rep),
				fmt.Sprintf("eACL %s table on filter %s %s %q, object %q (header %v): CheckEACL over %s says %s, %s says %s; all: %v",
					c.Table, c.Key, c.Matcher, c.Value, c.Object, o.hdr, rep, d, src, ref, got), map[string]any{"representation_case": c})
			return
		}
	}
}

func (x *runner) partR(le *aclworld.LocalEngine, only *repCase) {
	e := newRepEnv(le)
	if only != nil {
		x.representationCase(e, *only)
		return
	}
	keys := []string{eacl.FilterObjectCreationEpoch, eacl.FilterObjectPayloadSize, eacl.FilterObjectType, eacl.FilterObjectVersion,
		eacl.FilterObjectID, eacl.FilterObjectContainerID, eacl.FilterObjectOwnerID, eacl.FilterObjectPayloadChecksum, eacl.FilterObjectPayloadHomomorphicChecksum}
	numeric := map[string]bool{eacl.FilterObjectCreationEpoch: true, eacl.FilterObjectPayloadSize: true}
	values := map[string][]string{
		eacl.FilterObjectCreationEpoch:              {"0", "7", "1"},
		eacl.FilterObjectPayloadSize:                {"0", "5", "1"},
		eacl.FilterObjectType:                       {"REGULAR", "LOCK", ""},
		eacl.FilterObjectVersion:                    {"v2.18", "v0.0", ""},
		eacl.FilterObjectID:                         {e.objs["zero"].id.EncodeToString(), e.objs["full"].id.EncodeToString()},
		eacl.FilterObjectContainerID:                {cA.EncodeToString(), cB.EncodeToString()},
		eacl.FilterObjectOwnerID:                    {uid("alice").EncodeToString(), uid("bob").EncodeToString()},
		eacl.FilterObjectPayloadChecksum:            {"", "SHA256:" + fmt.Sprintf("%x", hashID("payload"))},
		eacl.FilterObjectPayloadHomomorphicChecksum: {"", "TZ:" + fmt.Sprintf("%x", make([]byte, 64))},
	}
	for _, k := range keys {
		ms := []string{"=", "!=", "NOT_PRESENT"}
		if numeric[k] {
			ms = append(ms, "NUM_GT", "NUM_GE", "NUM_LT", "NUM_LE")
		}
		for _, on := range []string{"zero", "zero-with-checksum", "full"} {
			for _, m := range ms {
				for _, v := range values[k] {
					for _, tb := range []string{"deny", "allow-then-deny"} {
						x.representationCase(e, repCase{on, k, m, v, tb})
					}
				}
			}
		}
	}
}
