package main

// Declared-signer dimension of C31: the key DECLARED in the request's signature field ranges over
// the receiver's own key, another current container node, a node that was in the container only in
// the previous epoch, and an outsider; the signature value is valid by that key, made by another
// key, garbage of the right length, or a valid signature of another object ID; all three schemes;
// receiver inside / outside the container. Oracle (property text): stored iff the signature verifies
// under the DECLARED key AND that key is a container node (current or previous epoch) AND the
// receiver is a container node.

import (
	"bytes"
	"context"
	"crypto/sha256"
	"fmt"

	objectsvc "github.com/nspcc-dev/neofs-node/pkg/services/object"
	putsvc "github.com/nspcc-dev/neofs-node/pkg/services/object/put"
	"github.com/nspcc-dev/neofs-node/verif/lib/ev"
	sw "github.com/nspcc-dev/neofs-node/verif/worlds/svcworld/det"
	neofscrypto "github.com/nspcc-dev/neofs-sdk-go/crypto"
	neofsecdsa "github.com/nspcc-dev/neofs-sdk-go/crypto/ecdsa"
	protoobject "github.com/nspcc-dev/neofs-sdk-go/proto/object"
	"github.com/nspcc-dev/neofs-sdk-go/proto/refs"
	"go.uber.org/zap"
	"google.golang.org/protobuf/proto"
)

var (
	declaredKeys = []string{"receiver-own-key", "current-container-node", "previous-epoch-container-node", "outsider"}
	declLabels   = map[string]string{"receiver-own-key": "node-local", "current-container-node": "node-x1",
		"previous-epoch-container-node": "node-prev", "outsider": "stranger"}
	sigKinds    = []string{"valid-by-declared-key", "made-by-another-key", "garbage", "valid-for-another-object"}
	schemeNames = []string{"sha512", "rfc6979", "walletconnect"}
)

type dcase struct {
	Declared string
	SigKind  string
	Scheme   int
	LocalIn  bool
}

func (c dcase) String() string {
	return fmt.Sprintf("declared-key=%s signature=%s scheme=%s receiverInContainer=%v", c.Declared, c.SigKind, schemeNames[c.Scheme], c.LocalIn)
}

func schemeSigner(label string, scheme int) (neofscrypto.Signer, refs.SignatureScheme) {
	k := sw.ECDSA(label)
	switch scheme {
	case 0:
		return neofsecdsa.Signer(k), refs.SignatureScheme_ECDSA_SHA512
	case 1:
		return neofsecdsa.SignerRFC6979(k), refs.SignatureScheme_ECDSA_RFC6979_SHA256
	}
	return neofsecdsa.SignerWalletConnect(k), refs.SignatureScheme_ECDSA_RFC6979_SHA256_WALLET_CONNECT
}

func runDeclared(c dcase) outcome {
	fc := &fsChain{}
	fc.cur = [][]byte{sw.Pub("node-x1"), sw.Pub("node-x2")}
	fc.prev = [][]byte{sw.Pub("node-x2"), sw.Pub("node-prev"), sw.Pub("node-x1")}
	if c.LocalIn {
		fc.cur = append(fc.cur, localPub)
		fc.prev = append([][]byte{localPub}, fc.prev...)
	}
	ls := &localStore{}
	ps := putsvc.NewService(nil, putNet{}, nil, nil, nil,
		putsvc.WithObjectStorage(ls), putsvc.WithMaxSizeSource(maxSize(1<<20)),
		putsvc.WithContainerSource(fc), putsvc.WithNetworkState(fc), putsvc.WithLogger(zap.NewNop()))
	st := &storage{put: ps}
	srv := objectsvc.New(nil, fc, st, nil, sw.ECDSA("node-local"), nopMetrics{}, nil, nil, nil, zap.NewNop())

	om := objectVariant(0)
	id := om.ObjectId.Value
	label := declLabels[c.Declared]
	signer, scheme := schemeSigner(label, c.Scheme)
	sig := &refs.Signature{Key: sw.Pub(label), Scheme: scheme}
	switch c.SigKind {
	case "valid-by-declared-key":
		sig.Sign = signWith(signer, id)
	case "made-by-another-key":
		other, _ := schemeSigner("forger", c.Scheme)
		sig.Sign = signWith(other, id)
	case "garbage":
		valid := signWith(signer, id)
		g := make([]byte, 0, len(valid))
		for i := 0; len(g) < len(valid); i++ {
			h := sha256.Sum256([]byte(fmt.Sprintf("verif-garbage-signature-%d", i)))
			g = append(g, h[:]...)
		}
		sig.Sign = g[:len(valid)]
		if c.Scheme == 0 {
			sig.Sign[0] = 4 // keep the uncompressed-point marker the SHA-512 scheme expects
		}
	case "valid-for-another-object":
		x := sw.OID("another-object")
		sig.Sign = signWith(signer, x[:])
	}
	req := &protoobject.ReplicateRequest{Object: om, Signature: sig}
	sent := proto.Clone(om).(*protoobject.Object)
	var out outcome
	resp, err := srv.Replicate(context.Background(), req)
	if err != nil {
		out.CallErr = err.Error()
	}
	out.Code, out.Msg = resp.GetStatus().GetCode(), resp.GetStatus().GetMessage()
	out.Stored, out.StoreCall = len(ls.puts), st.calls
	if len(ls.puts) == 1 {
		out.SameObj = proto.Equal(ls.puts[0].ProtoMessage(), sent)
	}
	return out
}

func checkDeclared(r *ev.Run, c dcase) string {
	r.Eval(1)
	o := runDeclared(c)
	member := c.Declared != "outsider"
	want := c.SigKind == "valid-by-declared-key" && member && c.LocalIn
	okStatus := o.CallErr == "" && o.Code == 0
	desc := fmt.Sprintf("%s -> code=%d msg=%q err=%q stored=%d storageCalls=%d", c, o.Code, o.Msg, o.CallErr, o.Stored, o.StoreCall)
	rc := tcase{Declared: &c}
	cls := c.Declared + ":" + c.SigKind
	switch {
	case !want && o.Stored > 0:
		r.Violation("declared-key:stored-although-signature-or-membership-fails:"+cls, desc, rc)
	case !want && okStatus:
		r.Violation("declared-key:ok-status-although-signature-or-membership-fails:"+cls, desc, rc)
	case !want && o.StoreCall > 0:
		r.Violation("declared-key:storage-invoked-before-authentication-passed:"+cls, desc, rc)
	case want && (o.Stored != 1 || !o.SameObj):
		r.Violation("declared-key:not-stored-although-all-conditions-hold:"+cls, desc, rc)
	case want && !okStatus:
		r.Violation("declared-key:error-status-although-stored:"+cls, desc, rc)
	}
	r.Nontrivial("declared/" + c.String())
	if c.Declared == "receiver-own-key" && c.Scheme == 1 && c.LocalIn {
		r.Sample(map[string]any{"case": c.String(), "code": o.Code, "message": o.Msg, "stored": o.Stored})
	}
	_ = bytes.Equal
	return fmt.Sprintf("code=%d stored=%d %s", o.Code, o.Stored, o.Msg)
}
