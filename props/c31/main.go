// C31: replication requests are accepted only from container nodes, for container nodes, with a
// fully valid object. Full product (enumx) over the request signature alphabet x sender membership
// (current / previous / both / neither epoch) x position in the node lists x local node membership
// x container state x object validity class, through the real objectsvc.Server.Replicate wired, as
// cmd/neofs-node does, to the real putsvc.Service.ValidateAndStoreObjectLocally (real format
// validator) over a recording local object storage.
//
// Oracle (from the property text): the object reaches the local storage iff
//
//	signature valid (one of the 3 supported schemes, by the key in the request, over the object ID)
//	AND that key is a container node in the current or the previous epoch
//	AND the local node is a container node (current epoch)
//	AND the container is known AND the object is valid (ID = hash(header), owner-signed header,
//	payload length and SHA-256 checksum match, required fields present);
//
// otherwise the response carries an error status and nothing was stored. Additionally the storage
// (VerifyAndStoreObjectLocally) is not even invoked when the authentication part fails.
package main

import (
	"bytes"
	"context"
	"crypto/ecdsa"
	"crypto/sha256"
	"errors"
	"fmt"
	"sync"
	"time"

	"github.com/nspcc-dev/neo-go/pkg/core/block"
	"github.com/nspcc-dev/neo-go/pkg/core/transaction"
	"github.com/nspcc-dev/neo-go/pkg/neorpc/result"
	"github.com/nspcc-dev/neo-go/pkg/smartcontract/trigger"
	iec "github.com/nspcc-dev/neofs-node/internal/ec"
	objectcore "github.com/nspcc-dev/neofs-node/pkg/core/object"
	objectsvc "github.com/nspcc-dev/neofs-node/pkg/services/object"
	putsvc "github.com/nspcc-dev/neofs-node/pkg/services/object/put"
	"github.com/nspcc-dev/neofs-node/verif/lib/enumx"
	"github.com/nspcc-dev/neofs-node/verif/lib/ev"
	svc "github.com/nspcc-dev/neofs-node/verif/worlds/svcworld"
	sw "github.com/nspcc-dev/neofs-node/verif/worlds/svcworld/det"
	"github.com/nspcc-dev/neofs-sdk-go/client"
	apistatus "github.com/nspcc-dev/neofs-sdk-go/client/status"
	"github.com/nspcc-dev/neofs-sdk-go/container"
	cid "github.com/nspcc-dev/neofs-sdk-go/container/id"
	neofscrypto "github.com/nspcc-dev/neofs-sdk-go/crypto"
	neofsecdsa "github.com/nspcc-dev/neofs-sdk-go/crypto/ecdsa"
	"github.com/nspcc-dev/neofs-sdk-go/netmap"
	"github.com/nspcc-dev/neofs-sdk-go/object"
	oid "github.com/nspcc-dev/neofs-sdk-go/object/id"
	protoobject "github.com/nspcc-dev/neofs-sdk-go/proto/object"
	"github.com/nspcc-dev/neofs-sdk-go/proto/refs"
	sessionv2 "github.com/nspcc-dev/neofs-sdk-go/session/v2"
	"github.com/nspcc-dev/neofs-sdk-go/stat"
	"github.com/nspcc-dev/neofs-sdk-go/user"
	"go.uber.org/zap"
	"google.golang.org/protobuf/proto"
)

// ---------- alphabets ----------

var sigNames = []string{
	"valid-sha512", "valid-rfc6979", "valid-walletconnect",
	"wrong-key", "corrupted-sign", "signed-other-id", "scheme-n3", "scheme-unknown", "scheme-mislabelled",
	"nil-signature", "empty-key", "empty-sign", "garbage-key",
}

func sigValid(i int) bool { return i <= 2 }

var senderNames = []string{"current", "previous-only", "both", "neither"}

func senderMember(i int) bool { return i != 3 }

var localNames = []string{"current", "previous-only", "outside"}

var cnrNames = []string{"found", "not-found", "error"}

var objNames = []string{
	"valid-payload", "valid-empty",
	"id-replaced", "header-changed-after-id", "payload-flipped", "payload-short", "object-signature-corrupted",
	"object-signed-by-non-owner", "owner-missing", "checksum-missing",
	"object-nil", "id-missing", "header-missing", "container-id-missing", "container-id-short",
}

func objValid(i int) bool { return i <= 1 }

type tcase struct {
	Sig, Sender, SenderLast, Local, Cnr, Obj int
	// single-byte deviation applied to the request signature after it was built ("" = none)
	Flip string // "sign" | "key"
	Pos  int
	Mask byte
	// Content != "": a case of the content dimension (content.go), named by its object variant; the
	// request-level fields above are then unused (the request is always acceptable).
	Content string
	// Declared != nil: a case of the declared-signer-key dimension (declared.go)
	Declared *dcase
}

func (c tcase) sigOK() bool { return sigValid(c.Sig) && c.Flip == "" }

func (c tcase) String() string {
	pos := "first"
	if c.SenderLast == 1 {
		pos = "last"
	}
	fl := ""
	if c.Flip != "" {
		fl = fmt.Sprintf("+%s[%d]^=%#x", c.Flip, c.Pos, c.Mask)
	}
	return fmt.Sprintf("sig=%s%s sender=%s(%s) local=%s container=%s object=%s",
		sigNames[c.Sig], fl, senderNames[c.Sender], pos, localNames[c.Local], cnrNames[c.Cnr], objNames[c.Obj])
}

// ---------- fakes ----------

const epoch = 10

var (
	cnrID     = sw.CID("A")
	localPub  = sw.Pub("node-local")
	senderPub = sw.Pub("node-sender")
	fillers   = [][]byte{sw.Pub("node-x1"), sw.Pub("node-x2")}
)

type fsChain struct {
	cur, prev [][]byte
	cnrState  int
	rec       *sw.Recorder
}

var errChain = errors.New("verif: injected FS chain failure")

func (f *fsChain) cnrErr() error {
	switch f.cnrState {
	case 1:
		return apistatus.ErrContainerNotFound
	case 2:
		return errChain
	}
	return nil
}

func theContainer() container.Container {
	var c container.Container
	c.SetOwner(sw.UserOf("owner"))
	var pp netmap.PlacementPolicy
	var rd netmap.ReplicaDescriptor
	rd.SetNumberOfObjects(2)
	pp.SetReplicas([]netmap.ReplicaDescriptor{rd})
	c.SetPlacementPolicy(pp)
	return c
}

func (f *fsChain) Get(id cid.ID) (container.Container, error) {
	if id != cnrID {
		return container.Container{}, apistatus.ErrContainerNotFound
	}
	if err := f.cnrErr(); err != nil {
		return container.Container{}, err
	}
	return theContainer(), nil
}
func (f *fsChain) CurrentEpoch() uint64         { return epoch }
func (f *fsChain) CurrentBlock() uint32         { return epoch * 240 }
func (f *fsChain) CurrentEpochDuration() uint64 { return 240 }
func (f *fsChain) InvokeContainedScript(*transaction.Transaction, *block.Header, *trigger.Type, *bool) (*result.Invoke, error) {
	return nil, errors.New("verif: no N3 witnesses in this world")
}
func (f *fsChain) ForEachContainerNodePublicKey(id cid.ID, fn func([]byte) bool) error {
	if id != cnrID {
		return apistatus.ErrContainerNotFound
	}
	if err := f.cnrErr(); err != nil {
		return err
	}
	for _, k := range f.cur {
		if !fn(bytes.Clone(k)) {
			return nil
		}
	}
	return nil
}
func (f *fsChain) ForEachContainerNodePublicKeyInLastTwoEpochs(id cid.ID, fn func([]byte) bool) error {
	if id != cnrID {
		return apistatus.ErrContainerNotFound
	}
	if err := f.cnrErr(); err != nil {
		return err
	}
	for _, k := range f.cur {
		if !fn(bytes.Clone(k)) {
			return nil
		}
	}
	for _, k := range f.prev {
		if !fn(bytes.Clone(k)) {
			return nil
		}
	}
	return nil
}
func (f *fsChain) SelectContainerNodes(cid.ID) ([][]netmap.NodeInfo, []uint, []iec.Rule, error) {
	return nil, nil, nil, errors.New("verif: not used by Replicate")
}
func (f *fsChain) IsOwnPublicKey(k []byte) bool    { return bytes.Equal(k, localPub) }
func (f *fsChain) LocalNodeUnderMaintenance() bool { return false }

// putsvc.NeoFSNetwork for the format validator (historic N3 only; never reached here).
type putNet struct{}

func (putNet) GetContainerNodes(cid.ID) (putsvc.ContainerNodes, error) {
	return nil, errors.New("verif: not used")
}
func (putNet) IsLocalNodePublicKey(k []byte) bool           { return bytes.Equal(k, localPub) }
func (putNet) GetEpochBlock(e uint64) (uint32, error)       { return uint32(e * 240), nil }
func (putNet) GetEpochBlockByTime(t uint32) (uint32, error) { return t, nil }

type maxSize uint64

func (m maxSize) MaxObjectSize() uint64 { return uint64(m) }

// localStore is the recording local object storage below the real put service.
type localStore struct {
	mu   sync.Mutex
	puts []*object.Object
}

func (s *localStore) Put(_ context.Context, obj *object.Object, _ []byte) error {
	s.mu.Lock()
	s.puts = append(s.puts, obj)
	s.mu.Unlock()
	return nil
}
func (s *localStore) IsLocked(context.Context, oid.Address) (bool, error) { return false, nil }

// storage is cmd/neofs-node's storageForObjectService reduced to what Replicate reaches
// (VerifyAndStoreObjectLocally -> putSvc.ValidateAndStoreObjectLocally), plus a call counter.
type storage struct {
	put   *putsvc.Service
	calls int
}

func (s *storage) VerifyAndStoreObjectLocally(ctx context.Context, obj object.Object) error {
	s.calls++
	return s.put.ValidateAndStoreObjectLocally(ctx, obj)
}
func (s *storage) SearchObjects(context.Context, cid.ID, []objectcore.SearchFilter, []string, *objectcore.SearchCursor, uint16) ([]client.SearchResultItem, []byte, error) {
	panic("verif: SearchObjects reached from Replicate")
}
func (s *storage) GetSessionPrivateKey(user.ID) (ecdsa.PrivateKey, error) {
	return ecdsa.PrivateKey{}, apistatus.ErrSessionTokenNotFound
}
func (s *storage) GetSessionV2PrivateKey([]sessionv2.Target) (ecdsa.PrivateKey, error) {
	return ecdsa.PrivateKey{}, apistatus.ErrSessionTokenNotFound
}

type nopMetrics struct{}

func (nopMetrics) HandleOpExecResult(stat.Method, bool, time.Duration) {}
func (nopMetrics) AddPutPayload(int)                                   {}
func (nopMetrics) AddGetPayload(int)                                   {}

// ---------- request construction ----------

var payload = []byte("0123456789abcdef")

func baseObject(withPayload bool) *object.Object {
	o := object.New(cnrID, sw.UserOf("owner"))
	o.SetCreationEpoch(epoch - 1)
	o.SetAttributes(object.NewAttribute("k", "v"))
	if withPayload {
		o.SetPayload(bytes.Clone(payload))
		o.SetPayloadSize(uint64(len(payload)))
	}
	if err := o.SetVerificationFields(sw.Signer("owner")); err != nil {
		panic(err)
	}
	return o
}

// objectVariant returns the object message of class i (nil for "object-nil").
func objectVariant(i int) *protoobject.Object {
	switch objNames[i] {
	case "valid-payload":
		return baseObject(true).ProtoMessage()
	case "valid-empty":
		return baseObject(false).ProtoMessage()
	case "id-replaced":
		m := baseObject(true).ProtoMessage()
		id := sw.OID("some-other-id")
		m.ObjectId = id.ProtoMessage()
		return m
	case "header-changed-after-id":
		m := baseObject(true).ProtoMessage()
		m.Header.Attributes[0].Value = "w"
		return m
	case "payload-flipped":
		m := baseObject(true).ProtoMessage()
		m.Payload = bytes.Clone(m.Payload)
		m.Payload[3] ^= 1
		return m
	case "payload-short":
		m := baseObject(true).ProtoMessage()
		m.Payload = bytes.Clone(m.Payload[:len(m.Payload)-1])
		return m
	case "object-signature-corrupted":
		m := baseObject(true).ProtoMessage()
		m.Signature.Sign = bytes.Clone(m.Signature.Sign)
		m.Signature.Sign[len(m.Signature.Sign)/2] ^= 1
		return m
	case "object-signed-by-non-owner":
		o := object.New(cnrID, sw.UserOf("owner"))
		o.SetCreationEpoch(epoch - 1)
		o.SetPayload(bytes.Clone(payload))
		o.SetPayloadSize(uint64(len(payload)))
		// owner field says "owner" but the header is signed by a stranger, no session token
		if err := o.SetVerificationFields(neofsecdsa.SignerRFC6979(sw.ECDSA("stranger"))); err != nil {
			panic(err)
		}
		return o.ProtoMessage()
	case "owner-missing":
		o := baseObject(true)
		m := o.ProtoMessage()
		m.Header.OwnerId = nil
		return resealed(m)
	case "checksum-missing":
		m := baseObject(true).ProtoMessage()
		m.Header.PayloadHash = nil
		return resealed(m)
	case "object-nil":
		return nil
	case "id-missing":
		m := baseObject(true).ProtoMessage()
		m.ObjectId = nil
		return m
	case "header-missing":
		m := baseObject(true).ProtoMessage()
		m.Header = nil
		return m
	case "container-id-missing":
		m := baseObject(true).ProtoMessage()
		m.Header.ContainerId = nil
		return resealed(m)
	case "container-id-short":
		m := baseObject(true).ProtoMessage()
		m.Header.ContainerId = &refs.ContainerID{Value: m.Header.ContainerId.Value[:31]}
		return resealed(m)
	}
	panic("unknown object class")
}

// resealed recomputes ID (= SHA-256 of the stable-marshalled header) and the owner's signature over
// it, so that the object is wrong ONLY in the intended field.
func resealed(m *protoobject.Object) *protoobject.Object {
	b := make([]byte, m.Header.MarshaledSize())
	m.Header.MarshalStable(b)
	id := sha256.Sum256(b)
	m.ObjectId = &refs.ObjectID{Value: id[:]}
	idm := make([]byte, m.ObjectId.MarshaledSize())
	m.ObjectId.MarshalStable(idm)
	var sig neofscrypto.Signature
	if err := sig.Calculate(neofsecdsa.SignerRFC6979(sw.ECDSA("owner")), idm); err != nil {
		panic(err)
	}
	m.Signature = sig.ProtoMessage()
	return m
}

func signWith(s neofscrypto.Signer, data []byte) []byte {
	b, err := s.Sign(data)
	if err != nil {
		panic(err)
	}
	return b
}

// signatureVariant builds the request signature of class i for the given signed ID bytes.
func signatureVariant(i int, id []byte) *refs.Signature {
	sk := sw.ECDSA("node-sender")
	switch sigNames[i] {
	case "valid-sha512":
		return &refs.Signature{Key: senderPub, Sign: signWith(neofsecdsa.Signer(sk), id), Scheme: refs.SignatureScheme_ECDSA_SHA512}
	case "valid-rfc6979":
		return &refs.Signature{Key: senderPub, Sign: signWith(neofsecdsa.SignerRFC6979(sk), id), Scheme: refs.SignatureScheme_ECDSA_RFC6979_SHA256}
	case "valid-walletconnect":
		return &refs.Signature{Key: senderPub, Sign: signWith(neofsecdsa.SignerWalletConnect(sk), id), Scheme: refs.SignatureScheme_ECDSA_RFC6979_SHA256_WALLET_CONNECT}
	case "wrong-key":
		return &refs.Signature{Key: senderPub, Sign: signWith(neofsecdsa.SignerRFC6979(sw.ECDSA("stranger")), id), Scheme: refs.SignatureScheme_ECDSA_RFC6979_SHA256}
	case "corrupted-sign":
		s := signWith(neofsecdsa.SignerRFC6979(sk), id)
		s[len(s)/2] ^= 0x10
		return &refs.Signature{Key: senderPub, Sign: s, Scheme: refs.SignatureScheme_ECDSA_RFC6979_SHA256}
	case "signed-other-id":
		other := sw.OID("another-object")
		return &refs.Signature{Key: senderPub, Sign: signWith(neofsecdsa.SignerRFC6979(sk), other[:]), Scheme: refs.SignatureScheme_ECDSA_RFC6979_SHA256}
	case "scheme-n3":
		return &refs.Signature{Key: senderPub, Sign: signWith(neofsecdsa.Signer(sk), id), Scheme: refs.SignatureScheme_N3}
	case "scheme-unknown":
		return &refs.Signature{Key: senderPub, Sign: signWith(neofsecdsa.Signer(sk), id), Scheme: 99}
	case "scheme-mislabelled":
		return &refs.Signature{Key: senderPub, Sign: signWith(neofsecdsa.Signer(sk), id), Scheme: refs.SignatureScheme_ECDSA_RFC6979_SHA256}
	case "nil-signature":
		return nil
	case "empty-key":
		return &refs.Signature{Key: nil, Sign: signWith(neofsecdsa.SignerRFC6979(sk), id), Scheme: refs.SignatureScheme_ECDSA_RFC6979_SHA256}
	case "empty-sign":
		return &refs.Signature{Key: senderPub, Sign: nil, Scheme: refs.SignatureScheme_ECDSA_RFC6979_SHA256}
	case "garbage-key":
		return &refs.Signature{Key: []byte("not a public key at all, 33 bytes"), Sign: signWith(neofsecdsa.SignerRFC6979(sk), id), Scheme: refs.SignatureScheme_ECDSA_RFC6979_SHA256}
	}
	panic("unknown signature class")
}

func nodeLists(c tcase) (cur, prev [][]byte) {
	place := func(list [][]byte, k []byte, last bool) [][]byte {
		if last {
			return append(list, k)
		}
		return append([][]byte{k}, list...)
	}
	cur = append(cur, fillers...)
	prev = append(prev, fillers[1], fillers[0])
	sLast := c.SenderLast == 1
	switch c.Sender {
	case 0:
		cur = place(cur, senderPub, sLast)
	case 1:
		prev = place(prev, senderPub, sLast)
	case 2:
		cur = place(cur, senderPub, sLast)
		prev = place(prev, senderPub, sLast)
	}
	// the local node takes the opposite end
	switch c.Local {
	case 0:
		cur = place(cur, localPub, !sLast)
		prev = place(prev, localPub, !sLast)
	case 1:
		prev = place(prev, localPub, !sLast)
	}
	return
}

// ---------- one case ----------

type outcome struct {
	Code      uint32
	Msg       string
	CallErr   string
	Stored    int
	StoreCall int
	SameObj   bool
}

func run(c tcase) outcome {
	fc := &fsChain{cnrState: c.Cnr}
	fc.cur, fc.prev = nodeLists(c)
	ls := &localStore{}
	ps := putsvc.NewService(nil, putNet{}, nil, nil, nil,
		putsvc.WithObjectStorage(ls),
		putsvc.WithMaxSizeSource(maxSize(1<<20)),
		putsvc.WithContainerSource(fc),
		putsvc.WithNetworkState(fc),
		putsvc.WithLogger(zap.NewNop()),
	)
	st := &storage{put: ps}
	srv := objectsvc.New(nil, fc, st, nil, sw.ECDSA("node-local"), nopMetrics{}, nil, nil, nil, zap.NewNop())

	om := objectVariant(c.Obj)
	var signed []byte
	if v := om.GetObjectId().GetValue(); len(v) > 0 {
		signed = v
	} else {
		x := sw.OID("placeholder")
		signed = x[:]
	}
	req := &protoobject.ReplicateRequest{Object: om, Signature: signatureVariant(c.Sig, signed)}
	switch c.Flip {
	case "sign":
		req.Signature.Sign = bytes.Clone(req.Signature.Sign)
		req.Signature.Sign[c.Pos] ^= c.Mask
	case "key":
		req.Signature.Key = bytes.Clone(req.Signature.Key)
		req.Signature.Key[c.Pos] ^= c.Mask
	}
	var sent *protoobject.Object
	if om != nil {
		sent = proto.Clone(om).(*protoobject.Object)
	}

	var out outcome
	resp, err := srv.Replicate(context.Background(), req)
	if err != nil {
		out.CallErr = err.Error()
	}
	out.Code = resp.GetStatus().GetCode()
	out.Msg = resp.GetStatus().GetMessage()
	out.Stored = len(ls.puts)
	out.StoreCall = st.calls
	if len(ls.puts) == 1 && sent != nil {
		out.SameObj = proto.Equal(ls.puts[0].ProtoMessage(), sent)
	}
	return out
}

func firstFailing(c tcase) string {
	switch {
	case c.Flip != "":
		return "signature:" + sigNames[c.Sig] + "+one-byte-changed-in-" + c.Flip
	case !sigValid(c.Sig):
		return "signature:" + sigNames[c.Sig]
	case c.Cnr != 0:
		return "container:" + cnrNames[c.Cnr]
	case c.Local != 0:
		return "local-node:" + localNames[c.Local]
	case !senderMember(c.Sender):
		return "sender:" + senderNames[c.Sender]
	case !objValid(c.Obj):
		return "object:" + objNames[c.Obj]
	}
	return ""
}

func main() {
	r := ev.Start("C31", ev.Exploration)
	fatal := func(format string, a ...any) {
		svc.Cleanup()
		r.Fatal(format, a...)
	}
	uni := buildUniverse()
	cvs := contentVariants(uni)
	var clsMu sync.Mutex
	classes := map[string]int{}
	single := map[string]string{} // single failing condition -> rejection message (shows each class is refused for the intended reason)

	check := func(c tcase) {
		r.Eval(1)
		o := run(c)
		authOK := c.sigOK() && c.Cnr == 0 && c.Local == 0 && senderMember(c.Sender) &&
			// structurally unusable object fields are part of request well-formedness, checked first by the handler
			true
		want := authOK && objValid(c.Obj)
		okStatus := o.CallErr == "" && o.Code == 0
		ff := firstFailing(c)
		desc := fmt.Sprintf("%s -> code=%d msg=%q err=%q stored=%d storageCalls=%d", c, o.Code, o.Msg, o.CallErr, o.Stored, o.StoreCall)
		switch {
		case !want && o.Stored > 0:
			r.Violation("stored-although-condition-fails:"+ff, desc, c)
		case !want && okStatus:
			r.Violation("ok-status-although-condition-fails:"+ff, desc, c)
		case !authOK && o.StoreCall > 0:
			r.Violation("storage-invoked-before-authentication-passed:"+ff, desc, c)
		case want && o.Stored != 1:
			r.Violation(fmt.Sprintf("not-stored-although-all-conditions-hold:sig=%s,sender=%s", sigNames[c.Sig], senderNames[c.Sender]), desc, c)
		case want && !okStatus:
			r.Violation("error-status-although-stored", desc, c)
		case want && !o.SameObj:
			r.Violation("stored-object-differs-from-request", desc, c)
		}
		cls := fmt.Sprintf("code=%d/stored=%d", o.Code, o.Stored)
		if o.CallErr != "" {
			cls = "grpc-error/stored=" + fmt.Sprint(o.Stored)
		}
		clsMu.Lock()
		classes[cls+" "+o.Msg[:min(len(o.Msg), 48)]]++
		clsMu.Unlock()
		// non-trivial: the case is decided by exactly one failing condition, or is accepted
		nFail := 0
		for _, b := range []bool{!c.sigOK(), c.Cnr != 0, c.Local != 0, !senderMember(c.Sender), !objValid(c.Obj)} {
			if b {
				nFail++
			}
		}
		if nFail == 1 && c.SenderLast == 0 && c.Sig <= 3 && c.Sender != 2 && c.Flip == "" {
			clsMu.Lock()
			single[ff] = fmt.Sprintf("code=%d %s", o.Code, o.Msg)
			clsMu.Unlock()
		}
		if nFail <= 1 {
			r.Nontrivial(c.String())
			if want && c.Sender == 1 || nFail == 1 && c.Obj >= 2 && c.Obj <= 5 {
				r.Sample(map[string]any{"case": c.String(), "code": o.Code, "message": o.Msg, "stored": o.Stored})
			}
		}
	}

	if r.Replay != "" {
		var c tcase
		r.LoadReplay(&c)
		if c.Declared != nil {
			fmt.Println("replaying", *c.Declared, "->", checkDeclared(r, *c.Declared))
			r.Finish()
		}
		if c.Content != "" {
			for _, v := range cvs {
				if v.Name == c.Content {
					rep, put := checkContent(r, uni, v, fatal)
					fmt.Printf("replaying content variant %s\n  replicate: %s\n  put:       %s\n", v.Name, rep, put)
				}
			}
			svc.Cleanup()
			r.Finish()
		}
		fmt.Println("replaying", c)
		check(c)
		r.Finish()
	}

	sizes := []int{len(sigNames), len(senderNames), 2, len(localNames), len(cnrNames), len(objNames)}
	var cases []tcase
	enumx.Product(sizes, func(i []int) bool {
		cases = append(cases, tcase{Sig: i[0], Sender: i[1], SenderLast: i[2], Local: i[3], Cnr: i[4], Obj: i[5]})
		return true
	})
	nProduct := len(cases)
	// exhaustive single-byte deviation of the otherwise accepted request: every position of the
	// signature value and of the public key, two masks, each of the three schemes, sender in
	// current / previous-only epoch.
	for sig := 0; sig <= 2; sig++ {
		probe := signatureVariant(sig, make([]byte, 32))
		for _, snd := range []int{0, 1} {
			for _, m := range []byte{0x01, 0x80} {
				for p := range probe.Sign {
					cases = append(cases, tcase{Sig: sig, Sender: snd, Flip: "sign", Pos: p, Mask: m})
				}
				for p := range probe.Key {
					cases = append(cases, tcase{Sig: sig, Sender: snd, Flip: "key", Pos: p, Mask: m})
				}
			}
		}
	}
	r.Set("product_cases", nProduct)
	r.Set("single_byte_deviation_cases", len(cases)-nProduct)
	enumx.Parallel(len(cases), func(i int) { check(cases[i]) })

	// declared-signer-key dimension
	var dcs []dcase
	for _, d := range declaredKeys {
		for _, k := range sigKinds {
			for sc := range schemeNames {
				for _, in := range []bool{true, false} {
					dcs = append(dcs, dcase{Declared: d, SigKind: k, Scheme: sc, LocalIn: in})
				}
			}
		}
	}
	declOut := map[string]string{}
	enumx.Parallel(len(dcs), func(i int) {
		res := checkDeclared(r, dcs[i])
		clsMu.Lock()
		declOut[dcs[i].String()] = res
		clsMu.Unlock()
	})
	r.Set("declared_key_cases", len(dcs))
	r.Set("declared_key_outcomes", declOut)

	// content dimension: every object type x valid / content-level-invalid instance, real verifiers
	// over a real engine, differential against the client PUT handler
	contentOut := map[string]map[string]string{}
	perType := map[string]int{}
	enumx.Parallel(len(cvs), func(i int) {
		rep, put := checkContent(r, uni, cvs[i], fatal)
		clsMu.Lock()
		contentOut[cvs[i].Name] = map[string]string{"expected": cvs[i].Expect, "replicate": rep, "put": put}
		perType[cvs[i].Type]++
		clsMu.Unlock()
	})
	r.Set("content_cases", len(cvs))
	r.Set("content_cases_per_object_type", perType)
	r.Set("content_outcomes", contentOut)

	r.Set("outcome_classes", len(classes))
	r.Set("outcome_class_counts", classes)
	r.Set("single_cause_rejections", single)
	r.Set("dimensions", map[string]any{"signature": sigNames, "sender": senderNames, "sender_position": []string{"first", "last"},
		"local_node": localNames, "container": cnrNames, "object": objNames})
	r.Rule("(A') declared signer key {receiver's own key, another current container node, previous-epoch-only node, outsider} x signature {valid by the declared key, made by another key, garbage, valid for another object} x 3 schemes x receiver {inside, outside}: stored iff the signature verifies under the declared key and that key is a container node and the receiver is; (A) request dimension: full cartesian product of the six dimensions + single-byte deviations over a recording store; (B) content dimension: for an always-acceptable request, every object type {REGULAR, TOMBSTONE, LOCK, LINK, EC part} x valid instances and well-formed, correctly signed instances that only the type-specific content validation can reject (tombstone/lock targets by type and state, link payload/children/order/sizes/first ID, expiration, size limit), through the real Server.Replicate + put service + format validator + tombstone/split verifiers over a real engine seeded with regular objects, a lock, a tombstone, a complete and an incomplete v2 split chain; each object is also sent through the real client PUT handler of an identical node and the storing decisions must agree. (A): a case is non-trivial when at most one of the five acceptance conditions fails (the accepted cases and the single-cause rejections); distinct = distinct case tuple")
	r.Assume("(A) local storage below the real put service is a recording fake (Put = stored); (B) local storage is a real engine, 'stored' = the object can be read back from it",
		"(B) variants without a verdict in the property text (tombstone/lock for an object unknown to the node, lock on a non-regular or removed object, link missing its last child) are judged only by 'status OK iff stored' and by agreement with the PUT path",
		"N3-witness request signatures and session-token-issued objects are outside the alphabet",
		"SignObject=false (meta signature after storing is not part of the acceptance condition)",
		"a receiving node that was a container node only in the previous epoch is expected to refuse (the FSChain contract of ForEachContainerNodePublicKey is 'current epoch')")
	r.Exhaustive(true)
	svc.Cleanup()
	r.Finish()
}
