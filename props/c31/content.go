package main

// Content dimension of C31: "the object must pass full validation" means the SAME validation a PUT
// applies — format AND type-specific content: tombstone target verification, link split-chain
// verification, lock target, expiration, size. Every object type {REGULAR, TOMBSTONE, LOCK, LINK,
// EC part} is replicated in valid instances and in instances that are well formed and correctly
// signed (ID, owner signature, checksum all right) and wrong ONLY in what the content validation
// looks at. The request itself is always acceptable (valid signature by a node that was a container
// node in the previous epoch, local node in the container).
//
// Everything is real: objectsvc.Server.Replicate -> putsvc.Service.ValidateAndStoreObjectLocally ->
// objectcore.FormatValidator with tombstone.Verifier and split.Verifier (wired as cmd/neofs-node
// does: over the get service and the server's search) -> a real storage engine seeded with a small
// universe of objects (regular objects, a lock, a tombstone, a complete and an incomplete v2 split
// chain).
//
// Oracles: (1) from the property text, per variant: accept / reject; (2) status OK iff the object
// is in the engine afterwards; (3) differential: the same object sent through the real client PUT
// handler (Server.Put, local-only) of an identically seeded node is stored iff the replicated one is.

import (
	"bytes"
	"context"
	"fmt"
	"strconv"
	"strings"

	iec "github.com/nspcc-dev/neofs-node/internal/ec"
	"github.com/nspcc-dev/neofs-node/verif/lib/ev"
	svc "github.com/nspcc-dev/neofs-node/verif/worlds/svcworld"
	cid "github.com/nspcc-dev/neofs-sdk-go/container/id"
	neofsecdsa "github.com/nspcc-dev/neofs-sdk-go/crypto/ecdsa"
	"github.com/nspcc-dev/neofs-sdk-go/object"
	oid "github.com/nspcc-dev/neofs-sdk-go/object/id"
	protoobject "github.com/nspcc-dev/neofs-sdk-go/proto/object"
	"github.com/nspcc-dev/neofs-sdk-go/proto/refs"
	protosession "github.com/nspcc-dev/neofs-sdk-go/proto/session"
	protostatus "github.com/nspcc-dev/neofs-sdk-go/proto/status"
	"github.com/nspcc-dev/neofs-sdk-go/user"
	"github.com/nspcc-dev/neofs-sdk-go/version"
)

const (
	expect      = "accept"
	expectNot   = "reject"
	expectAsPut = "as-put" // no verdict from the property text alone: only oracles (2) and (3)
	maxObjSize  = 256
)

var (
	cREP = svc.CID("A")
	cEC  = svc.CID("EC")
)

func chdr(cnr cid.ID, typ object.Type, attrs ...object.Attribute) object.Object {
	var o object.Object
	v := version.Current()
	o.SetVersion(&v)
	o.SetContainerID(cnr)
	o.SetOwner(svc.UserOf(svc.Owner))
	o.SetCreationEpoch(svc.Epoch - 1)
	o.SetType(typ)
	if len(attrs) > 0 {
		o.SetAttributes(attrs...)
	}
	return o
}

func cseal(o *object.Object, payload []byte, s user.Signer) *object.Object {
	o.SetPayload(payload)
	o.SetPayloadSize(uint64(len(payload)))
	o.CalculateAndSetPayloadChecksum()
	o.SetSignature(nil)
	if err := o.CalculateAndSetID(); err != nil {
		panic(err)
	}
	if s != nil {
		if err := o.Sign(s); err != nil {
			panic(err)
		}
	}
	return o
}

func expAttr(epoch uint64) object.Attribute {
	return object.NewAttribute(object.AttributeExpirationEpoch, strconv.FormatUint(epoch, 10))
}

func bytesOf(n int, salt byte) []byte {
	b := make([]byte, n)
	for i := range b {
		b[i] = byte(i*7+3) ^ salt
	}
	return b
}

// chain is a v2 split chain: first child, last child, link.
type chain struct {
	parent, first, last, link *object.Object
}

func buildChain(salt byte) chain {
	owner := svc.Signer(svc.Owner)
	whole := bytesOf(8, salt)
	name := object.NewAttribute("FileName", fmt.Sprintf("parent-%x.bin", salt))
	rawPar := chdr(cREP, object.TypeRegular, name) // the first child carries the unfinished parent header
	f := chdr(cREP, object.TypeRegular)
	f.SetParent(&rawPar)
	cseal(&f, whole[:5], owner)

	par := chdr(cREP, object.TypeRegular, name)
	par.SetPayloadSize(uint64(len(whole)))
	par.SetPayloadChecksum(object.CalculatePayloadChecksum(whole))
	cseal0(&par, owner)

	l := chdr(cREP, object.TypeRegular)
	l.SetFirstID(f.GetID())
	l.SetPreviousID(f.GetID())
	l.SetParent(&par)
	cseal(&l, whole[5:], owner)

	k := linkObject(&par, f.GetID(), []member{{f.GetID(), 5}, {l.GetID(), 3}})
	return chain{&par, &f, &l, k}
}

// cseal0 finalises a header-only object (no payload change).
func cseal0(o *object.Object, s user.Signer) {
	o.SetSignature(nil)
	if err := o.CalculateAndSetID(); err != nil {
		panic(err)
	}
	if err := o.Sign(s); err != nil {
		panic(err)
	}
}

type member struct {
	id   oid.ID
	size uint32
}

func linkObject(par *object.Object, first oid.ID, ms []member) *object.Object {
	k := chdr(cREP, object.TypeLink)
	if !first.IsZero() {
		k.SetFirstID(first)
	}
	k.SetParent(par)
	var l object.Link
	var mos []object.MeasuredObject
	for _, m := range ms {
		var mo object.MeasuredObject
		mo.SetObjectID(m.id)
		mo.SetObjectSize(m.size)
		mos = append(mos, mo)
	}
	l.SetObjects(mos)
	var payload []byte
	if ms != nil {
		payload = l.Marshal()
	}
	return cseal(&k, payload, svc.Signer(svc.Owner))
}

// universe is what every node of the content dimension holds before the request.
type universe struct {
	ra, rb, rc, rd *object.Object // regular objects
	lock0          *object.Object // LOCK -> rb
	tomb0          *object.Object // TOMBSTONE -> rd (rd is removed)
	done           chain          // complete chain (link stored)
	open           chain          // first and last child stored, link NOT stored
}

func regular(name string, n int) *object.Object {
	o := chdr(cREP, object.TypeRegular, object.NewAttribute("n", name))
	return cseal(&o, bytesOf(n, name[0]), svc.Signer(svc.Owner))
}

func sysObject(typ object.Type, target oid.ID, exp uint64, payload []byte) *object.Object {
	var attrs []object.Attribute
	if exp != 0 {
		attrs = append(attrs, expAttr(exp))
	}
	o := chdr(cREP, typ, attrs...)
	if !target.IsZero() {
		o.AssociateObject(target)
	}
	return cseal(&o, payload, svc.Signer(svc.Owner))
}

func buildUniverse() *universe {
	u := &universe{ra: regular("a", 9), rb: regular("b", 9), rc: regular("c", 9), rd: regular("d", 9)}
	u.lock0 = sysObject(object.TypeLock, u.rb.GetID(), svc.Epoch+100, nil)
	u.tomb0 = sysObject(object.TypeTombstone, u.rd.GetID(), svc.Epoch+100, nil)
	u.done = buildChain(0x30)
	u.open = buildChain(0x50)
	return u
}

func (u *universe) seed() []*object.Object {
	return []*object.Object{u.ra, u.rb, u.rc, u.rd, u.lock0, u.tomb0,
		u.done.first, u.done.last, u.done.link, u.open.first, u.open.last}
}

type cvariant struct {
	Name   string
	Type   string
	Expect string
	// ContentOnly: well formed and correctly signed, rejected (if at all) only by the type-specific
	// content validation.
	ContentOnly bool
	NoPut       bool // the client PUT differential does not apply (EC parts come from nodes only)
	obj         *object.Object
}

func contentVariants(u *universe) []cvariant {
	future := uint64(svc.Epoch + 100)
	ts := func(t oid.ID) *object.Object { return sysObject(object.TypeTombstone, t, future, nil) }
	lk := func(t oid.ID) *object.Object { return sysObject(object.TypeLock, t, future, nil) }
	op := u.open
	full := []member{{op.first.GetID(), 5}, {op.last.GetID(), 3}}
	var vs []cvariant
	add := func(typ, name, exp string, contentOnly bool, o *object.Object) {
		vs = append(vs, cvariant{Name: typ + ":" + name, Type: typ, Expect: exp, ContentOnly: contentOnly, obj: o})
	}
	// REGULAR
	add("REGULAR", "valid", expect, false, regular("new", 12))
	add("REGULAR", "valid-empty-payload", expect, false, regular("empty", 0))
	add("REGULAR", "valid-with-future-expiration", expect, false, func() *object.Object {
		o := chdr(cREP, object.TypeRegular, expAttr(future))
		return cseal(&o, bytesOf(4, 1), svc.Signer(svc.Owner))
	}())
	add("REGULAR", "expired", expectNot, false, func() *object.Object {
		o := chdr(cREP, object.TypeRegular, expAttr(svc.Epoch-1))
		return cseal(&o, bytesOf(4, 2), svc.Signer(svc.Owner))
	}())
	add("REGULAR", "payload-larger-than-network-limit", expectNot, false, regular("big", maxObjSize+1))
	add("REGULAR", "payload-exactly-network-limit", expect, false, regular("lim", maxObjSize))
	// TOMBSTONE
	add("TOMBSTONE", "target-regular", expect, true, ts(u.ra.GetID()))
	add("TOMBSTONE", "target-already-removed", expect, true, sysObject(object.TypeTombstone, u.rd.GetID(), future+1, nil))
	add("TOMBSTONE", "target-split-parent", expect, true, ts(u.done.parent.GetID()))
	add("TOMBSTONE", "target-child-of-open-chain", expect, true, ts(op.last.GetID()))
	add("TOMBSTONE", "target-is-LOCK", expectNot, true, ts(u.lock0.GetID()))
	add("TOMBSTONE", "target-is-TOMBSTONE", expectNot, true, ts(u.tomb0.GetID()))
	add("TOMBSTONE", "target-is-LINK", expectNot, true, ts(u.done.link.GetID()))
	add("TOMBSTONE", "target-last-child-of-finished-chain", expectNot, true, ts(u.done.last.GetID()))
	add("TOMBSTONE", "target-first-child-of-finished-chain", expectNot, true, ts(u.done.first.GetID()))
	add("TOMBSTONE", "target-unknown-object", expectAsPut, true, ts(svc.OID("nobody")))
	add("TOMBSTONE", "with-payload", expectNot, false, sysObject(object.TypeTombstone, u.ra.GetID(), future, []byte("x")))
	add("TOMBSTONE", "without-expiration", expectNot, false, sysObject(object.TypeTombstone, u.ra.GetID(), 0, nil))
	add("TOMBSTONE", "without-target", expectNot, false, sysObject(object.TypeTombstone, oid.ID{}, future, nil))
	add("TOMBSTONE", "expired", expectNot, false, sysObject(object.TypeTombstone, u.ra.GetID(), svc.Epoch-1, nil))
	// LOCK
	add("LOCK", "target-regular", expect, true, lk(u.ra.GetID()))
	add("LOCK", "target-unknown-object", expectAsPut, true, lk(svc.OID("nobody")))
	add("LOCK", "target-is-LOCK", expectAsPut, true, lk(u.lock0.GetID()))
	add("LOCK", "target-is-TOMBSTONE", expectAsPut, true, lk(u.tomb0.GetID()))
	add("LOCK", "target-is-LINK", expectAsPut, true, lk(u.done.link.GetID()))
	add("LOCK", "target-already-removed", expectAsPut, true, lk(u.rd.GetID()))
	add("LOCK", "with-payload", expectNot, false, sysObject(object.TypeLock, u.ra.GetID(), future, []byte("x")))
	add("LOCK", "without-expiration", expectNot, false, sysObject(object.TypeLock, u.ra.GetID(), 0, nil))
	add("LOCK", "without-target", expectNot, false, sysObject(object.TypeLock, oid.ID{}, future, nil))
	add("LOCK", "expired", expectNot, false, sysObject(object.TypeLock, u.ra.GetID(), svc.Epoch-1, nil))
	// LINK (for the open chain, whose children are stored)
	add("LINK", "valid", expect, true, op.link)
	add("LINK", "without-payload", expectNot, true, linkObject(op.parent, op.first.GetID(), nil))
	add("LINK", "undecodable-payload", expectNot, true, func() *object.Object {
		k := chdr(cREP, object.TypeLink)
		k.SetFirstID(op.first.GetID())
		k.SetParent(op.parent)
		return cseal(&k, []byte{0xff, 0xff, 0xff, 0x01}, svc.Signer(svc.Owner))
	}())
	add("LINK", "without-first-id", expectNot, true, linkObject(op.parent, oid.ID{}, full))
	add("LINK", "child-size-wrong", expectNot, true, linkObject(op.parent, op.first.GetID(), []member{{op.first.GetID(), 5}, {op.last.GetID(), 4}}))
	add("LINK", "children-in-wrong-order", expectNot, true, linkObject(op.parent, op.first.GetID(), []member{{op.last.GetID(), 3}, {op.first.GetID(), 5}}))
	add("LINK", "child-unknown", expectNot, true, linkObject(op.parent, op.first.GetID(), []member{{op.first.GetID(), 5}, {svc.OID("nobody"), 3}}))
	add("LINK", "child-of-another-chain", expectNot, true, linkObject(op.parent, op.first.GetID(), []member{{op.first.GetID(), 5}, {u.done.last.GetID(), 3}}))
	add("LINK", "last-child-missing", expectAsPut, true, linkObject(op.parent, op.first.GetID(), []member{{op.first.GetID(), 5}}))
	add("LINK", "first-id-of-another-chain", expectNot, true, linkObject(op.parent, u.done.first.GetID(), full))
	add("LINK", "unsigned-parent-header", expectNot, false, func() *object.Object {
		p := chdr(cREP, object.TypeRegular)
		return linkObject(&p, op.first.GetID(), full)
	}())
	// EC part (container with the EC 2/1 policy; parts are produced and replicated by nodes, unsigned)
	ecPayload := bytesOf(6, 0x40)
	parts, sums, err := iec.Encode(iec.Rule{DataPartNum: 2, ParityPartNum: 1}, bytes.Clone(ecPayload))
	if err != nil {
		panic(err)
	}
	ecPar := chdr(cEC, object.TypeRegular, object.NewAttribute(iec.AttributePartsHashes, strings.Join(sums, ",")))
	ecPar.SetPayloadSize(uint64(len(ecPayload)))
	ecPar.SetPayloadChecksum(object.CalculatePayloadChecksum(ecPayload))
	cseal0(&ecPar, svc.Signer(svc.Owner))
	for _, k := range []int{0, 2} {
		p, err := iec.FormObjectForECPart(nil, ecPar, bytes.Clone(parts[k]), iec.PartInfo{RuleIndex: 0, Index: k})
		if err != nil {
			panic(err)
		}
		vs = append(vs, cvariant{Name: fmt.Sprintf("EC-PART:valid-part-%d", k), Type: "EC-PART", Expect: expect, NoPut: true, obj: &p})
	}
	return vs
}

// ---------- running ----------

func contentWorld(u *universe) (*svc.World, error) {
	w, err := svc.New(svc.Config{BasicACL: svc.AllowAllACL(), LocalInContainer: true, ACLSeesLocalHeaders: true,
		RealVerifiers: true, NoSeed: true, SoloCurrent: true, PrevEpochExtra: []string{svc.RemoteA},
		ECCnrID: cEC, MaxObjSize: maxObjSize})
	if err != nil {
		return nil, err
	}
	svc.UnrecordEngine(w.Eng)
	for _, o := range u.seed() {
		if err := w.Eng.Put(context.Background(), o, nil); err != nil {
			w.Close()
			return nil, fmt.Errorf("seeding %s %s: %w", o.Type(), o.GetID(), err)
		}
	}
	svc.RecordEngine(w.Eng, w.Rec)
	w.Rec.Reset()
	return w, nil
}

type cout struct {
	Status string
	Msg    string
	Stored bool
	Wrote  bool // the engine Put entry point was reached
}

func storedIn(w *svc.World, o *object.Object) bool {
	svc.UnrecordEngine(w.Eng)
	defer svc.RecordEngine(w.Eng, w.Rec)
	got, err := w.Eng.Get(context.Background(), oid.NewAddress(o.GetContainerID(), o.GetID()))
	return err == nil && got != nil
}

func wrote(w *svc.World) bool {
	for _, e := range w.Rec.Of("storage") {
		if e == "storage:Put" {
			return true
		}
	}
	return false
}

func runReplicate(u *universe, v cvariant) (cout, error) {
	w, err := contentWorld(u)
	if err != nil {
		return cout{}, err
	}
	defer w.Close()
	id := v.obj.GetID()
	sig, err := neofsecdsa.SignerRFC6979(svc.ECDSA(svc.RemoteA)).Sign(id[:])
	if err != nil {
		return cout{}, err
	}
	req := &protoobject.ReplicateRequest{Object: v.obj.ProtoMessage(), Signature: &refs.Signature{
		Key: svc.Pub(svc.RemoteA), Sign: sig, Scheme: refs.SignatureScheme_ECDSA_RFC6979_SHA256}}
	if storedIn(w, v.obj) {
		return cout{}, fmt.Errorf("object of the variant is part of the seeded universe")
	}
	res, herr := svc.Invoke(w.Srv, svc.ObjectServiceIface, "Replicate", []any{req})
	if herr != nil {
		return cout{}, herr
	}
	var o cout
	switch {
	case res.Panic != nil:
		o.Status, o.Msg = "panic", fmt.Sprint(res.Panic)
	case res.Err != nil:
		o.Status, o.Msg = "grpc-error", res.Err.Error()
	case len(res.Messages) != 1:
		o.Status = "no-response"
	default:
		st := res.Messages[0].(interface{ GetStatus() *protostatus.Status }).GetStatus()
		o.Status, o.Msg = fmt.Sprintf("code=%d", st.GetCode()), st.GetMessage()
		if st.GetCode() == 0 {
			o.Status = "OK"
		}
	}
	o.Wrote = wrote(w)
	o.Stored = storedIn(w, v.obj)
	return o, nil
}

func runPut(u *universe, v cvariant) (cout, error) {
	w, err := contentWorld(u)
	if err != nil {
		return cout{}, err
	}
	defer w.Close()
	m := v.obj.ProtoMessage()
	meta := func() *protosession.RequestMetaHeader {
		return &protosession.RequestMetaHeader{Version: version.Current().ProtoMessage(), Ttl: 1}
	}
	reqs := []any{&protoobject.PutRequest{Body: &protoobject.PutRequest_Body{ObjectPart: &protoobject.PutRequest_Body_Init_{
		Init: &protoobject.PutRequest_Body_Init{ObjectId: m.ObjectId, Signature: m.Signature, Header: m.Header}}}, MetaHeader: meta()}}
	if len(m.Payload) > 0 {
		reqs = append(reqs, &protoobject.PutRequest{Body: &protoobject.PutRequest_Body{
			ObjectPart: &protoobject.PutRequest_Body_Chunk{Chunk: m.Payload}}, MetaHeader: meta()})
	}
	if err := svc.SignAll(reqs, svc.Owner); err != nil {
		return cout{}, err
	}
	res, herr := svc.Invoke(w.Srv, svc.ObjectServiceIface, "Put", reqs)
	if herr != nil {
		return cout{}, herr
	}
	var o cout
	switch {
	case res.Panic != nil:
		o.Status, o.Msg = "panic", fmt.Sprint(res.Panic)
	case res.Err != nil:
		o.Status, o.Msg = "grpc-error", res.Err.Error()
	case len(res.Messages) == 0:
		o.Status = "no-response"
	default:
		code, msg, _ := svc.StatusOf(res.Messages[len(res.Messages)-1])
		o.Status, o.Msg = fmt.Sprintf("code=%d", code), msg
		if code == 0 {
			o.Status = "OK"
		}
	}
	o.Wrote = wrote(w)
	o.Stored = storedIn(w, v.obj)
	return o, nil
}

// checkContent evaluates one variant; returns the outcome lines for the evidence.
func checkContent(r *ev.Run, u *universe, v cvariant, fatal func(string, ...any)) (string, string) {
	r.Eval(1)
	rep, err := runReplicate(u, v)
	if err != nil {
		fatal("content %s (replicate): %v", v.Name, err)
	}
	desc := fmt.Sprintf("replicated %s (expected by the property text: %s) -> %s %q stored=%v", v.Name, v.Expect, rep.Status, rep.Msg, rep.Stored)
	rc := tcase{Content: v.Name}
	switch {
	case rep.Status == "panic":
		r.Violation("content:handler-panic:"+v.Name, desc, rc)
	case v.Expect == expectNot && rep.Stored:
		r.Violation("content:stored-although-object-fails-full-validation:"+v.Name, desc, rc)
	case v.Expect == expectNot && rep.Status == "OK":
		r.Violation("content:ok-status-although-object-fails-full-validation:"+v.Name, desc, rc)
	case v.Expect == expect && !rep.Stored:
		r.Violation("content:valid-object-not-stored:"+v.Name, desc, rc)
	case (rep.Status == "OK") != rep.Stored:
		r.Violation("content:status-and-storage-disagree:"+v.Name, desc, rc)
	}
	putLine := "n/a"
	if !v.NoPut {
		put, err := runPut(u, v)
		if err != nil {
			fatal("content %s (put): %v", v.Name, err)
		}
		putLine = fmt.Sprintf("%s %q stored=%v", put.Status, put.Msg, put.Stored)
		if put.Stored != rep.Stored {
			dir := "replicate-stores-what-put-refuses"
			if put.Stored {
				dir = "replicate-refuses-what-put-stores"
			}
			r.Violation("content:"+dir+":"+v.Name, desc+"; the same object through the client PUT handler of an identical node -> "+putLine, rc)
		}
	}
	r.Nontrivial("content/" + v.Name)
	if v.ContentOnly {
		r.Sample(map[string]any{"replicated_object": v.Name, "expected": v.Expect, "replicate": fmt.Sprintf("%s %s stored=%v", rep.Status, rep.Msg, rep.Stored), "put": putLine})
	}
	return fmt.Sprintf("%s %s stored=%v", rep.Status, rep.Msg, rep.Stored), putLine
}
