package main

// Scan-buffer boundary sweep: FSTree looks a member of a combined file up by scanning the member prefixes
// through a buffer that is refilled in steps of NonPayloadFieldsBufferLength (or re-positioned by a seek
// when a member is longer than the buffer). For combined files of 2-3 members the size of the leading
// member(s) is swept so that the prefix of the next member starts at every file offset in [E-80, E+2] for
// every buffer end E that the scan can have (E = B, 2B; after a straddling prefix; after a seek), with
// member lengths whose low bytes are non-zero. The complete read battery runs on every member.

import (
	"fmt"
	"os"
	"sort"
	"strings"
	"sync"

	"github.com/nspcc-dev/neo-go/pkg/util"
	iobject "github.com/nspcc-dev/neofs-node/internal/object"
	"github.com/nspcc-dev/neofs-node/verif/lib/enumx"
	cid "github.com/nspcc-dev/neofs-sdk-go/container/id"
	"github.com/nspcc-dev/neofs-sdk-go/object"
	oid "github.com/nspcc-dev/neofs-sdk-go/object/id"
	"github.com/nspcc-dev/neofs-sdk-go/user"
)

const (
	scanBuf   = iobject.NonPayloadFieldsBufferLength
	memberPfx = 2 + oid.Size + 4 // combined member prefix: magic, version, OID, length
	sweepLo   = 80
	sweepHi   = 2
)

type sweepCase struct {
	Kind  string `json:"kind"`
	End   int    `json:"buffer_end"`            // file offset where the scan buffer ends when the swept prefix is looked at
	P     int    `json:"prefix_at"`             // file offset of the swept member prefix
	Sizes []int  `json:"member_sizes"`          // member data sizes in file order
	Only  int    `json:"only_member,omitempty"` // index+1 of the member the case is about (0: all)
}

// fpKind is Kind without the "(N buffered)" detail (one root cause, one fingerprint).
func (c sweepCase) fpKind() string {
	if i := strings.IndexByte(c.Kind, '('); i >= 0 {
		if j := strings.IndexByte(c.Kind, ')'); j > i {
			return c.Kind[:i] + c.Kind[j+1:]
		}
	}
	return c.Kind
}

// fpClass is class() with the two fully-buffered classes merged (fingerprints).
func (c sweepCase) fpClass() string {
	if k := c.class(); k != "prefix-ends-at-buffer-end" {
		return k
	}
	return "prefix-inside-buffer"
}

func (c sweepCase) class() string {
	d := c.P - c.End
	switch {
	case d+memberPfx < 0:
		return "prefix-inside-buffer"
	case d+memberPfx == 0:
		return "prefix-ends-at-buffer-end"
	case d < 0:
		return "prefix-straddles-buffer-end"
	case d == 0:
		return "prefix-starts-at-buffer-end"
	}
	return "prefix-beyond-buffer-end"
}

// sizedObject builds a valid object whose encoding has exactly total bytes.
func sizedObject(label string, total int) *item {
	return sizedObjectWith(label, total, func(p []byte) {
		for i := range p {
			p[i] = byte(i*13+7) ^ byte(i>>8)
		}
	})
}

// sizedObjectWith: like sizedObject, the payload bytes are produced by fill.
func sizedObjectWith(label string, total int, fill func(p []byte)) *item {
	cnr := cid.ID(h32("sweep-cnr"))
	var u160 util.Uint160
	hh := h32("owner")
	copy(u160[:], hh[:20])
	owner := user.NewFromScriptHash(u160)
	id := oid.ID(h32("sweep-" + label))
	for attr := 0; attr < 4; attr++ {
		pl := total - 120
		if pl < 0 {
			pl = 0
		}
		for try := 0; try < 8; try++ {
			var o object.Object
			o.SetID(id)
			o.SetContainerID(cnr)
			o.SetOwner(owner)
			if attr > 0 {
				o.SetAttributes(object.NewAttribute("k", "vvvv"[:attr]))
			}
			p := make([]byte, pl)
			fill(p)
			o.SetPayload(p)
			o.SetPayloadSize(uint64(pl))
			enc := o.Marshal()
			if len(enc) == total {
				return &item{name: label, addr: oid.NewAddress(cnr, id), content: enc, stored: enc, hdr: o.CutPayload().Marshal(), payload: p}
			}
			pl += total - len(enc)
			if pl < 0 {
				break
			}
		}
	}
	run.Fatal("cannot build an object of %d bytes", total)
	return nil
}

func sweepCases(quick bool) []sweepCase {
	const tail = 0x141 // 321: both low bytes of the length are non-zero
	const first = 0x9b // 155
	var cs []sweepCase
	add := func(kind string, end, p int, sizes ...int) {
		for _, s := range sizes {
			if s < 110 || s&0xff == 0 {
				return // not a buildable object size / low byte must be non-zero
			}
		}
		cs = append(cs, sweepCase{Kind: kind, End: end, P: p, Sizes: sizes})
	}
	for _, end := range []int{scanBuf, 2 * scanBuf} {
		for p := end - sweepLo; p <= end+sweepHi; p++ {
			// two members: the second prefix is swept over the end of the first / second buffer fill
			add("2-members", end, p, p-memberPfx, tail)
			// three members, small first one: the third prefix is swept
			add("3-members", end, p, first, p-2*memberPfx-first, tail)
		}
	}
	// three members, the second prefix straddles the first buffer end (refill keeps its buffered part):
	// the third prefix is swept over the end of the refilled buffer
	p2 := scanBuf - 19
	for p := 2*scanBuf - sweepLo; p <= 2*scanBuf+sweepHi; p++ {
		add("3-members-after-straddling-prefix", 2*scanBuf, p, p2-memberPfx, p-p2-memberPfx, tail)
	}
	// three members, the first one longer than the buffer (the scan seeks to the second prefix and refills
	// from there): the third prefix is swept over the end of that buffer
	p2 = scanBuf + 5003
	for p := p2 + scanBuf - sweepLo; p <= p2+scanBuf+sweepHi; p++ {
		add("3-members-after-seek", p2+scanBuf, p, p2-memberPfx, p-p2-memberPfx, tail)
	}
	return append(cs, streamedSweepCases(quick)...)
}

// streamedSweepCases: the swept member is itself streamed (longer than the read window B, or than the caller
// buffer 2B) and sits in last or middle position; its 38-byte prefix takes every alignment relative to the
// window end (0..38 prefix bytes inside the window, plus margins). Only the reads of the swept member are the
// point here (Only = its index+1); the leading members have the same sizes as in the small-tail sweep.
func streamedSweepCases(quick bool) []sweepCase {
	const small, first = 0x141, 0x9b
	lo := memberPfx + 2
	bigs := []int{scanBuf + 0x141}
	ends := []int{scanBuf}
	if !quick {
		lo = sweepLo
		bigs = append(bigs, 2*scanBuf+0x19b)
		ends = append(ends, 2*scanBuf)
	}
	var cs []sweepCase
	add := func(kind string, end, p, only int, sizes ...int) {
		for _, s := range sizes {
			if s < 110 || s&0xff == 0 {
				return
			}
		}
		cs = append(cs, sweepCase{Kind: kind, End: end, P: p, Sizes: sizes, Only: only})
	}
	for bi, big := range bigs {
		sfx := []string{"/streamed-member", "/member>2B"}[bi]
		for _, end := range ends {
			for p := end - lo; p <= end+sweepHi; p++ {
				add("2-members"+sfx, end, p, 2, p-memberPfx, big)
				if bi == 0 {
					add("3-members-middle"+sfx, end, p, 2, p-memberPfx, big, small)
					add("3-members"+sfx, end, p, 3, first, p-2*memberPfx-first, big)
				}
			}
		}
		if quick { // the caller-buffer sized member: first window only, 2 members
			continue
		}
	}
	if quick {
		big := 2*scanBuf + 0x19b
		for p := scanBuf - lo; p <= scanBuf+sweepHi; p++ {
			add("2-members/member>2B", scanBuf, p, 2, p-memberPfx, big)
		}
	}
	// after a prefix that straddles the first window end (the refill keeps its buffered part, so the buffer
	// holds more than B bytes): full window, the swept member's data may start beyond B inside the buffer
	big := scanBuf + 0x141
	for _, rem := range []int{19, 37} {
		if quick && rem != 37 {
			continue
		}
		p2 := scanBuf - rem
		for p := 2*scanBuf - sweepLo; p <= 2*scanBuf+sweepHi; p++ {
			add(fmt.Sprintf("3-members-after-straddling-prefix(%d buffered)/streamed-member", rem), 2*scanBuf, p, 3, p2-memberPfx, p-p2-memberPfx, big)
		}
	}
	p2 := scanBuf + 5003
	for p := p2 + scanBuf - lo; p <= p2+scanBuf+sweepHi; p++ {
		add("3-members-after-seek/streamed-member", p2+scanBuf, p, 3, p2-memberPfx, p-p2-memberPfx, big)
	}
	return cs
}

func runSweepCase(c sweepCase) (string, string) {
	var items []*item
	sel := make([]int, len(c.Sizes))
	for i, sz := range c.Sizes {
		items = append(items, sizedObject(fmt.Sprintf("%s-%d-%d-m%d", c.Kind, c.End, c.P, i), sz))
		sel[i] = i
	}
	dirSeq.Lock()
	dirSeq.n++
	d := fmt.Sprintf("%s/sweep%d", dirSeq.base, dirSeq.n)
	dirSeq.Unlock()
	s := &sys{cfg: config{depth: 1, sel: sel}, ops: []op{{opPutBatch, sel}}, dir: d, items: items, present: make([]bool, len(items)),
		extra: ",sweep:" + c.fpKind() + ":" + c.fpClass()}
	defer s.Close()
	t := s.open()
	t.Close()
	s.Apply(0) // PutBatch with forced member order
	// the layout must be what the case asks for
	if raw, err := os.ReadFile(s.path(0)); err != nil || len(raw) < c.P+memberPfx || raw[c.P] != 0x7f {
		run.Fatal("sweep case %+v: unexpected file layout (err=%v)", c, err)
	}
	fp, what := s.Check()
	if fp != "" {
		what = fmt.Sprintf("boundary sweep %s, member sizes %v, swept prefix at file offset %d, buffer end %d: %s", c.Kind, c.Sizes, c.P, c.End, what)
	}
	return fp, what
}

func sweepPart(quick bool) {
	cs := sweepCases(quick)
	classes := map[string]int{}
	var mu sync.Mutex
	enumx.Parallel(len(cs), func(i int) {
		c := cs[i]
		fp, what := runSweepCase(c)
		run.Eval(1)
		run.Nontrivial(fmt.Sprintf("sweep|%s|%d|%d", c.Kind, c.End, c.P))
		mu.Lock()
		classes[c.Kind+":"+c.class()]++
		mu.Unlock()
		if fp != "" {
			run.Violation(fp, what, replay{Sweep: &c})
		}
	})
	var ks []string
	for k, n := range classes {
		ks = append(ks, fmt.Sprintf("%s x%d", k, n))
	}
	sort.Strings(ks)
	run.Set("boundary_sweep", map[string]any{"cases": len(cs), "classes": ks, "window": fmt.Sprintf("[E-%d, E+%d]", sweepLo, sweepHi),
		"buffer": scanBuf, "member_prefix": memberPfx})
}
