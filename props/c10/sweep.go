package main

// Scan-buffer boundary sweep: FSTree looks a member of a combined file up by scanning the member prefixes
// through a buffer that is refilled in steps of NonPayloadFieldsBufferLength (or re-positioned by a seek
// when a member is longer than the buffer). For combined files of 2-3 members the size of the leading
// member(s) is swept so that the prefix of the next member starts at every file offset in [E-80, E+2] for
// every buffer end E that the scan can have (E = B, 2B; after a straddling prefix; after a seek), with
// member lengths whose low bytes are non-zero. The complete read battery runs on every member.

import (
	"fmt"
	"os"
	"sort"
	"sync"

	"github.com/nspcc-dev/neo-go/pkg/util"
	iobject "github.com/nspcc-dev/neofs-node/internal/object"
	"github.com/nspcc-dev/neofs-node/verif/lib/enumx"
	cid "github.com/nspcc-dev/neofs-sdk-go/container/id"
	"github.com/nspcc-dev/neofs-sdk-go/object"
	oid "github.com/nspcc-dev/neofs-sdk-go/object/id"
	"github.com/nspcc-dev/neofs-sdk-go/user"
)

const (
	scanBuf   = iobject.NonPayloadFieldsBufferLength
	memberPfx = 2 + oid.Size + 4 // combined member prefix: magic, version, OID, length
	sweepLo   = 80
	sweepHi   = 2
)

type sweepCase struct {
	Kind  string `json:"kind"`
	End   int    `json:"buffer_end"`  // file offset where the scan buffer ends when the swept prefix is looked at
	P     int    `json:"prefix_at"`   // file offset of the swept member prefix
	Sizes []int  `json:"member_sizes"` // member data sizes in file order
}

func (c sweepCase) class() string {
	d := c.P - c.End
	switch {
	case d+memberPfx < 0:
		return "prefix-inside-buffer"
	case d+memberPfx == 0:
		return "prefix-ends-at-buffer-end"
	case d < 0:
		return "prefix-straddles-buffer-end"
	case d == 0:
		return "prefix-starts-at-buffer-end"
	}
	return "prefix-beyond-buffer-end"
}

// sizedObject builds a valid object whose encoding has exactly total bytes.
func sizedObject(label string, total int) *item {
	return sizedObjectWith(label, total, func(p []byte) {
		for i := range p {
			p[i] = byte(i*13+7) ^ byte(i>>8)
		}
	})
}

// sizedObjectWith: like sizedObject, the payload bytes are produced by fill.
func sizedObjectWith(label string, total int, fill func(p []byte)) *item {
	cnr := cid.ID(h32("sweep-cnr"))
	var u160 util.Uint160
	hh := h32("owner")
	copy(u160[:], hh[:20])
	owner := user.NewFromScriptHash(u160)
	id := oid.ID(h32("sweep-" + label))
	for attr := 0; attr < 4; attr++ {
		pl := total - 120
		if pl < 0 {
			pl = 0
		}
		for try := 0; try < 8; try++ {
			var o object.Object
			o.SetID(id)
			o.SetContainerID(cnr)
			o.SetOwner(owner)
			if attr > 0 {
				o.SetAttributes(object.NewAttribute("k", "vvvv"[:attr]))
			}
			p := make([]byte, pl)
			fill(p)
			o.SetPayload(p)
			o.SetPayloadSize(uint64(pl))
			enc := o.Marshal()
			if len(enc) == total {
				return &item{name: label, addr: oid.NewAddress(cnr, id), content: enc, stored: enc, hdr: o.CutPayload().Marshal(), payload: p}
			}
			pl += total - len(enc)
			if pl < 0 {
				break
			}
		}
	}
	run.Fatal("cannot build an object of %d bytes", total)
	return nil
}

func sweepCases(quick bool) []sweepCase {
	const tail = 0x141 // 321: both low bytes of the length are non-zero
	const first = 0x9b // 155
	var cs []sweepCase
	add := func(kind string, end, p int, sizes ...int) {
		for _, s := range sizes {
			if s < 110 || s&0xff == 0 {
				return // not a buildable object size / low byte must be non-zero
			}
		}
		cs = append(cs, sweepCase{kind, end, p, sizes})
	}
	for _, end := range []int{scanBuf, 2 * scanBuf} {
		for p := end - sweepLo; p <= end+sweepHi; p++ {
			// two members: the second prefix is swept over the end of the first / second buffer fill
			add("2-members", end, p, p-memberPfx, tail)
			// three members, small first one: the third prefix is swept
			add("3-members", end, p, first, p-2*memberPfx-first, tail)
		}
	}
	// three members, the second prefix straddles the first buffer end (refill keeps its buffered part):
	// the third prefix is swept over the end of the refilled buffer
	p2 := scanBuf - 19
	for p := 2*scanBuf - sweepLo; p <= 2*scanBuf+sweepHi; p++ {
		add("3-members-after-straddling-prefix", 2*scanBuf, p, p2-memberPfx, p-p2-memberPfx, tail)
	}
	// three members, the first one longer than the buffer (the scan seeks to the second prefix and refills
	// from there): the third prefix is swept over the end of that buffer
	p2 = scanBuf + 5003
	for p := p2 + scanBuf - sweepLo; p <= p2+scanBuf+sweepHi; p++ {
		add("3-members-after-seek", p2+scanBuf, p, p2-memberPfx, p-p2-memberPfx, tail)
	}
	_ = quick
	return cs
}

func runSweepCase(c sweepCase) (string, string) {
	var items []*item
	sel := make([]int, len(c.Sizes))
	for i, sz := range c.Sizes {
		items = append(items, sizedObject(fmt.Sprintf("%s-%d-%d-m%d", c.Kind, c.End, c.P, i), sz))
		sel[i] = i
	}
	dirSeq.Lock()
	dirSeq.n++
	d := fmt.Sprintf("%s/sweep%d", dirSeq.base, dirSeq.n)
	dirSeq.Unlock()
	s := &sys{cfg: config{depth: 1, sel: sel}, ops: []op{{opPutBatch, sel}}, dir: d, items: items, present: make([]bool, len(items)),
		extra: ",sweep:" + c.Kind + ":" + c.class()}
	defer s.Close()
	t := s.open()
	t.Close()
	s.Apply(0) // PutBatch with forced member order
	// the layout must be what the case asks for
	if raw, err := os.ReadFile(s.path(0)); err != nil || len(raw) < c.P+memberPfx || raw[c.P] != 0x7f {
		run.Fatal("sweep case %+v: unexpected file layout (err=%v)", c, err)
	}
	fp, what := s.Check()
	if fp != "" {
		what = fmt.Sprintf("boundary sweep %s, member sizes %v, swept prefix at file offset %d, buffer end %d: %s", c.Kind, c.Sizes, c.P, c.End, what)
	}
	return fp, what
}

func sweepPart(quick bool) {
	cs := sweepCases(quick)
	classes := map[string]int{}
	var mu sync.Mutex
	enumx.Parallel(len(cs), func(i int) {
		c := cs[i]
		fp, what := runSweepCase(c)
		run.Eval(1)
		run.Nontrivial(fmt.Sprintf("sweep|%s|%d|%d", c.Kind, c.End, c.P))
		mu.Lock()
		classes[c.Kind+":"+c.class()]++
		mu.Unlock()
		if fp != "" {
			run.Violation(fp, what, replay{Sweep: &c})
		}
	})
	var ks []string
	for k, n := range classes {
		ks = append(ks, fmt.Sprintf("%s x%d", k, n))
	}
	sort.Strings(ks)
	run.Set("boundary_sweep", map[string]any{"cases": len(cs), "classes": ks, "window": fmt.Sprintf("[E-%d, E+%d]", sweepLo, sweepHi),
		"buffer": scanBuf, "member_prefix": memberPfx})
}
