// C10: the file-tree blob storage behaves as a map address -> bytes.
//
// Explicit-state BFS (seqx) over a real fstree.FSTree on /dev/shm. Reference = map[address]present
// (content per address is fixed: NeoFS is content-addressed). After every operation the whole read
// battery (Exists, GetBytes, Get, Head, GetStream, ReadHeader, ReadObject, Iterate, IterateAddresses)
// is evaluated for every address of the universe and compared with the reference map.
//
// State key = reference map + canonical listing of the storage directory (file paths, content hashes,
// hard-link groups). Operations: single Put as plain file / as single-member combined file (linux
// batching writer), two concurrent Puts sharing one combined file (count limit 2, deterministic order),
// PutBatch of every ordered selection (member order in the combined file is forced by retrying, so
// Go's random map order is owned by the explorer), Delete. Configurations: tree depth x writer
// (linux O_TMPFILE writer, portable writer); combined limits are per-operation (a node may be
// restarted with other limits over the same directory, only the depth is pinned by the descriptor).
package main

import (
	"bytes"
	"crypto/sha256"
	"encoding/binary"
	"encoding/hex"
	"errors"
	"fmt"
	"io"
	"io/fs"
	"os"
	"path/filepath"
	"sort"
	"strings"
	"sync"
	"syscall"
	"time"

	"github.com/klauspost/compress/zstd"
	"github.com/mr-tron/base58"
	"github.com/nspcc-dev/neo-go/pkg/util"
	iobject "github.com/nspcc-dev/neofs-node/internal/object"
	"github.com/nspcc-dev/neofs-node/pkg/local_object_storage/blobstor/common"
	"github.com/nspcc-dev/neofs-node/pkg/local_object_storage/blobstor/fstree"
	"github.com/nspcc-dev/neofs-node/verif/lib/ev"
	"github.com/nspcc-dev/neofs-node/verif/lib/seqx"
	apistatus "github.com/nspcc-dev/neofs-sdk-go/client/status"
	cid "github.com/nspcc-dev/neofs-sdk-go/container/id"
	"github.com/nspcc-dev/neofs-sdk-go/object"
	oid "github.com/nspcc-dev/neofs-sdk-go/object/id"
	"github.com/nspcc-dev/neofs-sdk-go/user"
)

// ---------- universe ----------

type item struct {
	name    string
	addr    oid.Address
	content []byte // logical bytes (canonical object encoding)
	stored  []byte // bytes handed to Put (zstd frame for the compressed item)
	hdr     []byte // canonical encoding of the payload-less object
	payload []byte
	tag     string // extra structural class of this item for fingerprints (threshold sweep)
}

var (
	univ      []*item
	threshold int // combined size threshold used by the "combined" single Put
	run       *ev.Run
)

func h32(label string) [32]byte { return sha256.Sum256([]byte("verif-c10-" + label)) }

// pickOID finds an ID whose base58 form satisfies pred (deterministic search).
func pickOID(label string, pred func(s string) bool) oid.ID {
	for i := 0; ; i++ {
		h := h32(fmt.Sprintf("%s-%d", label, i))
		if pred(base58.Encode(h[:])) {
			return oid.ID(h)
		}
	}
}

func padTo(n int, mk func(k int) []byte) []byte {
	for k := 0; k < 4*n+64; k++ {
		if b := mk(k); len(b) == n {
			return b
		}
	}
	panic(fmt.Sprintf("cannot build an object of %d bytes", n))
}

func buildUniverse() {
	cnr := cid.ID(h32("cnr"))
	var u160 util.Uint160
	hh := h32("owner")
	copy(u160[:], hh[:20])
	owner := user.NewFromScriptHash(u160)
	pay := func(n int) []byte {
		p := make([]byte, n)
		for i := range p {
			p[i] = byte(i*7 + 3)
		}
		return p
	}
	// x: no header at all, 1-byte payload (39 bytes)
	idx := pickOID("x", func(string) bool { return true })
	sx := base58.Encode(idx[:])
	// y shares the first directory level with x, w the first two, z none
	idy := pickOID("y", func(s string) bool { return s[0] == sx[0] && s[1] != sx[1] })
	idw := pickOID("w", func(s string) bool { return s[0] == sx[0] && s[1] == sx[1] && s[2] != sx[2] })
	idz := pickOID("z", func(s string) bool { return s[0] != sx[0] })

	mk := func(id oid.ID, withHdr bool, attrLen, pldLen int) *object.Object {
		var o object.Object
		o.SetID(id)
		if withHdr {
			o.SetContainerID(cnr)
			o.SetOwner(owner)
			if attrLen > 0 {
				o.SetAttributes(object.NewAttribute("k", strings.Repeat("v", attrLen)))
			}
		}
		if pldLen > 0 {
			o.SetPayload(pay(pldLen))
			if withHdr {
				o.SetPayloadSize(uint64(pldLen))
			}
		}
		return &o
	}
	add := func(name string, id oid.ID, o *object.Object, compress bool) {
		it := &item{name: name, addr: oid.NewAddress(cnr, id), content: o.Marshal(), hdr: o.CutPayload().Marshal(), payload: o.Payload()}
		it.stored = it.content
		if compress {
			enc, _ := zstd.NewWriter(nil)
			it.stored = enc.EncodeAll(it.content, nil)
		}
		univ = append(univ, it)
	}
	ox := mk(idx, false, 0, 1)
	oy := mk(idy, true, 0, 5)
	threshold = len(oy.Marshal()) // y is exactly at the threshold (still combined), z one byte above
	add("x", idx, ox, false)
	add("y", idy, oy, false)
	var oz, ow *object.Object
	padTo(threshold+1, func(k int) []byte { oz = mk(idz, true, k+1, 0); return oz.Marshal() }) // header only, no payload
	add("z", idz, oz, false)
	padTo(3*threshold, func(k int) []byte { ow = mk(idw, true, 0, k+1); return ow.Marshal() })
	add("w", idw, ow, true) // stored zstd-compressed
	// v: larger than the 2 x 20 KiB header buffers (streamed reads; members after it in a combined file
	// lie beyond the first buffered read)
	idv := pickOID("v", func(s string) bool { return s[0] == sx[0] && s[1] != sx[1] })
	add("v", idv, mk(idv, true, 3, 50000), false)
	// u: same size, compressible content, stored zstd-compressed: the file fits the first 20 KiB read while
	// the object exceeds the 40 KiB caller buffer
	idu := pickOID("u", func(s string) bool { return s[0] != sx[0] })
	ou := mk(idu, true, 3, 50000)
	pu := make([]byte, 50000)
	for i := range pu {
		pu[i] = byte(i%251) ^ 0x5a
	}
	ou.SetPayload(pu)
	add("u", idu, ou, true)
	// t: exactly as long as the first buffered read (20 KiB)
	idt := pickOID("t", func(s string) bool { return s[0] == sx[0] && s[1] != sx[1] })
	var ot *object.Object
	padTo(iobject.NonPayloadFieldsBufferLength, func(k int) []byte {
		ot = mk(idt, true, 3, iobject.NonPayloadFieldsBufferLength-200+k)
		return ot.Marshal()
	})
	add("t", idt, ot, false)
}

// ---------- operations ----------

const (
	opPutPlain = iota // Put, combined count limit 1: always a plain file
	opPutComb         // Put, count limit 128: objects <= threshold go to a single-member combined file
	opPutPair         // two concurrent Puts, count limit 2: one combined file [a, b]
	opPutBatch        // PutBatch of the listed addresses, forced member order
	opDelete
)

type op struct {
	kind  int
	items []int
}

func (o op) String() string {
	var ns []string
	for _, i := range o.items {
		ns = append(ns, univ[i].name)
	}
	k := []string{"Put", "PutCombined", "PutPair", "PutBatch", "Delete"}[o.kind]
	return k + "(" + strings.Join(ns, ",") + ")"
}

type config struct {
	depth   uint64
	generic bool
	sel     []int // universe members used by the operations
	triples bool
	pairs   [][2]int
}

func (c config) String() string {
	w := "linux"
	if c.generic {
		w = "generic"
	}
	var ns []string
	for _, i := range c.sel {
		ns = append(ns, univ[i].name)
	}
	return fmt.Sprintf("depth=%d,writer=%s,addresses=%s", c.depth, w, strings.Join(ns, ""))
}

func (c config) ops() []op {
	var ops []op
	in := map[int]bool{}
	for _, i := range c.sel {
		in[i] = true
		ops = append(ops, op{opPutPlain, []int{i}})
	}
	if !c.generic {
		for _, i := range c.sel {
			if len(univ[i].stored) <= threshold {
				ops = append(ops, op{opPutComb, []int{i}})
			}
		}
		for _, p := range c.pairs {
			if in[p[0]] && in[p[1]] {
				ops = append(ops, op{opPutPair, []int{p[0], p[1]}})
			}
		}
	}
	// PutBatch: every ordered selection of 1..3 addresses for the linux writer (order = layout of the
	// combined file); every subset for the portable writer (it writes separate files, order is irrelevant)
	for _, i := range c.sel {
		ops = append(ops, op{opPutBatch, []int{i}})
	}
	for _, i := range c.sel {
		for _, j := range c.sel {
			if i == j || (c.generic && i > j) {
				continue
			}
			ops = append(ops, op{opPutBatch, []int{i, j}})
			if !c.triples {
				continue
			}
			for _, k := range c.sel {
				if k == i || k == j || (c.generic && j > k) {
					continue
				}
				ops = append(ops, op{opPutBatch, []int{i, j, k}})
			}
		}
	}
	for _, i := range c.sel {
		ops = append(ops, op{opDelete, []int{i}})
	}
	return ops
}

// ---------- system under test ----------

type sys struct {
	cfg     config
	ops     []op
	dir     string
	items   []*item         // the universe (sweep cases bring their own)
	present []bool          // reference map (content is fixed per address)
	extra   string          // extra structural class appended to fingerprints (boundary sweep)
	opts    []fstree.Option // instance options of every FSTree opened on this directory (operation-specific ones win)
	pending [2]string
}

var dirSeq struct {
	sync.Mutex
	n    int
	base string
}

func newSys(cfg config, ops []op) *sys {
	dirSeq.Lock()
	dirSeq.n++
	d := fmt.Sprintf("%s/s%d", dirSeq.base, dirSeq.n)
	dirSeq.Unlock()
	s := &sys{cfg: cfg, ops: ops, dir: d, items: univ, present: make([]bool, len(univ))}
	t := s.open()
	t.Close()
	return s
}

func (s *sys) open(opts ...fstree.Option) *fstree.FSTree {
	base := append([]fstree.Option{fstree.WithPath(s.dir), fstree.WithDepth(s.cfg.depth), fstree.WithNoSync(true)}, s.opts...)
	t := fstree.New(append(base, opts...)...)
	if err := t.Open(false); err != nil {
		run.Fatal("open: %v", err)
	}
	if err := t.Init(common.ID{}); err != nil {
		run.Fatal("init: %v", err)
	}
	if s.cfg.generic {
		t.VerifUseGenericWriter()
	}
	return t
}

func (s *sys) Close() { os.RemoveAll(s.dir) }

func (s *sys) fail(fp, what string) {
	if s.pending[0] == "" {
		s.pending = [2]string{fp, what}
	}
}

func isNotFound(err error) bool {
	return errors.Is(err, apistatus.ErrObjectNotFound) || errors.As(err, new(apistatus.ObjectNotFound)) || errors.As(err, new(*apistatus.ObjectNotFound))
}

func (s *sys) path(i int) string {
	a := s.items[i].addr
	str := a.Object().EncodeToString() + "." + a.Container().EncodeToString()
	parts := []string{s.dir}
	for d := uint64(0); d < s.cfg.depth; d++ {
		parts = append(parts, str[:1])
		str = str[1:]
	}
	return filepath.Join(append(parts, str)...)
}

// members parses a combined file (format from the package documentation): list of member OIDs, or nil
// for a plain file.
func members(data []byte) (ids []oid.ID, ok bool) {
	const pref = 2 + 32 + 4
	if len(data) < pref || data[0] != 0x7f || data[1] != 0 {
		return nil, false
	}
	for off := 0; off < len(data); {
		if len(data)-off < pref || data[off] != 0x7f || data[off+1] != 0 {
			return ids, false
		}
		var id oid.ID
		copy(id[:], data[off+2:])
		l := int(binary.BigEndian.Uint32(data[off+34:]))
		off += pref + l
		if off > len(data) {
			return ids, false
		}
		ids = append(ids, id)
	}
	return ids, true
}

func (s *sys) Apply(i int) (string, bool) {
	o := s.ops[i]
	switch o.kind {
	case opPutPlain, opPutComb:
		it := s.items[o.items[0]]
		var t *fstree.FSTree
		if o.kind == opPutPlain {
			t = s.open(fstree.WithCombinedCountLimit(1))
		} else {
			// size limit 1: the batch is synced right after the write, the batch timer never matters
			t = s.open(fstree.WithCombinedCountLimit(128), fstree.WithCombinedSizeThreshold(threshold), fstree.WithCombinedSizeLimit(1), fstree.WithCombinedWriteInterval(time.Hour))
		}
		err := t.Put(it.addr, it.stored)
		t.Close()
		if err != nil {
			s.fail("Put:unexpected-error", fmt.Sprintf("%v: %v", o, err))
		}
		was := s.present[o.items[0]]
		s.present[o.items[0]] = true
		return fmt.Sprintf("ok,existed=%v", was), true
	case opPutPair:
		a, b := o.items[0], o.items[1]
		if s.present[a] || s.present[b] {
			return "", false // only defined here for two new addresses (deterministic layout)
		}
		t := s.open(fstree.WithCombinedCountLimit(2), fstree.WithCombinedSizeThreshold(1<<20), fstree.WithCombinedSizeLimit(1<<30), fstree.WithCombinedWriteInterval(time.Hour))
		errs := make(chan error, 2)
		go func() { errs <- t.Put(s.items[a].addr, s.items[a].stored) }()
		// the first Put links its file and then waits for the batch to fill; start the second one after that
		pa := s.path(a)
		for n := 0; ; n++ {
			if _, err := os.Lstat(pa); err == nil {
				break
			}
			if n > 2_000_000 {
				run.Fatal("first Put of a pair never linked its file")
			}
			if n > 1000 {
				time.Sleep(10 * time.Microsecond)
			}
		}
		go func() { errs <- t.Put(s.items[b].addr, s.items[b].stored) }()
		for k := 0; k < 2; k++ {
			if err := <-errs; err != nil {
				s.fail("Put:unexpected-error", fmt.Sprintf("%v: %v", o, err))
			}
		}
		t.Close()
		s.present[a], s.present[b] = true, true
		return "ok", true
	case opPutBatch:
		var fresh []int
		for _, k := range o.items {
			if !s.present[k] {
				fresh = append(fresh, k)
			}
		}
		for try := 0; ; try++ {
			if try > 5000 {
				run.Fatal("cannot obtain the requested member order from PutBatch")
			}
			m := make(map[oid.Address][]byte, len(o.items))
			for _, k := range o.items {
				m[s.items[k].addr] = s.items[k].stored
			}
			t := s.open()
			err := t.PutBatch(m)
			t.Close()
			if err != nil {
				s.fail("PutBatch:unexpected-error", fmt.Sprintf("%v: %v", o, err))
				break
			}
			if s.cfg.generic || len(fresh) == 0 || len(o.items) == 1 {
				break
			}
			data, err := os.ReadFile(s.path(fresh[0]))
			if err != nil {
				s.fail("PutBatch:file-missing-after-success", fmt.Sprintf("%v: %v", o, err))
				break
			}
			ids, ok := members(data)
			if !ok || len(ids) != len(o.items) {
				s.fail("PutBatch:unexpected-file-layout", fmt.Sprintf("%v: %d members parsed ok=%v", o, len(ids), ok))
				break
			}
			match := true
			for j, k := range o.items {
				if ids[j] != s.items[k].addr.Object() {
					match = false
				}
			}
			if match {
				break
			}
			// wrong order (Go's random map iteration): undo exactly what this attempt created and retry
			for _, k := range fresh {
				if err := os.Remove(s.path(k)); err != nil {
					run.Fatal("undo: %v", err)
				}
			}
		}
		for _, k := range o.items {
			s.present[k] = true
		}
		return fmt.Sprintf("ok,new=%d/%d", len(fresh), len(o.items)), true
	case opDelete:
		k := o.items[0]
		t := s.open()
		err := t.Delete(s.items[k].addr)
		t.Close()
		switch {
		case s.present[k] && err != nil:
			s.fail("Delete:error-on-stored-address", fmt.Sprintf("%v: %v", o, err))
		case !s.present[k] && err == nil:
			s.fail("Delete:success-on-missing-address", o.String())
		case !s.present[k] && !isNotFound(err):
			s.fail("Delete:missing-address-not-reported-as-not-found", fmt.Sprintf("%v: %v", o, err))
		}
		was := s.present[k]
		s.present[k] = false
		return fmt.Sprintf("existed=%v", was), true
	}
	panic("bad op")
}

// listing: canonical dump of the directory (regular files only; directories left empty by Delete are
// invisible to every API and are not part of the key).
func (s *sys) listing() string {
	type ent struct {
		rel  string
		ino  uint64
		hash string
	}
	var es []ent
	filepath.WalkDir(s.dir, func(p string, d fs.DirEntry, err error) error {
		if err != nil || d.IsDir() || d.Name() == ".fstree.json" {
			return nil
		}
		data, _ := os.ReadFile(p)
		h := sha256.Sum256(data)
		var ino uint64
		if fi, err := d.Info(); err == nil {
			ino = fi.Sys().(*syscall.Stat_t).Ino
		}
		rel, _ := filepath.Rel(s.dir, p)
		es = append(es, ent{rel, ino, hex.EncodeToString(h[:8])})
		return nil
	})
	sort.Slice(es, func(i, j int) bool { return es[i].rel < es[j].rel })
	grp := map[uint64]int{}
	var b strings.Builder
	for _, e := range es {
		g, ok := grp[e.ino]
		if !ok {
			g = len(grp)
			grp[e.ino] = g
		}
		fmt.Fprintf(&b, "%s=%s#%d;", e.rel, e.hash, g)
	}
	return b.String()
}

func (s *sys) Key() string { return fmt.Sprint(s.present) + "|" + s.listing() }

// shape: how address k is stored right now (structural class for fingerprints).
func (s *sys) shape(k int) string {
	data, err := os.ReadFile(s.path(k))
	if err != nil {
		return "absent"
	}
	z := ""
	if !bytes.Equal(s.items[k].stored, s.items[k].content) {
		z = "zstd,"
	}
	ids, ok := members(data)
	if ids == nil {
		return z + "plain"
	}
	if !ok {
		return z + "malformed-combined"
	}
	for j, id := range ids {
		if id == s.items[k].addr.Object() {
			return fmt.Sprintf("%scombined:member %d of %d", z, j+1, len(ids))
		}
	}
	return z + "combined:not-a-member"
}

var (
	obsMu  sync.Mutex
	obsSet = map[string]struct{}{}
)

func (s *sys) Check() (string, string) {
	if s.pending[0] != "" {
		return s.pending[0], s.pending[1]
	}
	// the reading instance is configured with the universe's combined threshold (and a size limit of 4x):
	// PutBatch ignores both, so combined files legally hold members above them
	t := s.open(fstree.WithCombinedSizeThreshold(threshold), fstree.WithCombinedSizeLimit(4*threshold))
	if len(s.opts) > 0 {
		t.Close()
		t = s.open()
	}
	defer t.Close()
	fp, what := "", ""
	bad := func(api, rule string, k int, detail string) {
		if fp == "" {
			sh := s.shape(k)
			it := s.items[k]
			sz := func(n int) string {
				switch {
				case n < iobject.NonPayloadFieldsBufferLength:
					return "<20KiB"
				case n == iobject.NonPayloadFieldsBufferLength:
					return "=20KiB"
				case n <= 2*iobject.NonPayloadFieldsBufferLength:
					return "20..40KiB"
				}
				return ">40KiB"
			}
			// fingerprint shape: raw/zstd, size class relative to the 20 KiB first read and the 40 KiB caller
			// buffer, and the position class in a combined file (exact position is in the message)
			var fpShape string
			switch {
			case sh == "absent":
				fpShape = sh
			case !bytes.Equal(it.stored, it.content):
				fpShape = "zstd:stored" + sz(len(it.stored)) + ",object" + sz(len(it.content))
			default:
				fpShape = "raw:object" + sz(len(it.content))
			}
			var a, b int
			if strings.HasPrefix(fpShape, "zstd:") || sh == "absent" {
				// compressed items are decoded in memory first: the position in the file is only in the message
			} else if mi := strings.LastIndex(sh, "member "); mi < 0 {
				if strings.HasSuffix(sh, "plain") {
					fpShape += ",plain-file"
				}
			} else if _, err := fmt.Sscanf(sh[mi:], "member %d of %d", &a, &b); err == nil {
				switch {
				case b == 1:
					fpShape += ",sole-member"
				case a == b:
					fpShape += ",last-member"
				default:
					fpShape += ",followed-by-members"
				}
			}
			fp = fmt.Sprintf("%s:%s:%s%s%s", api, rule, fpShape, it.tag, s.extra)
			what = fmt.Sprintf("[%s] address %s (%d bytes, %s) %s: %s; stored set %v", s.cfg, s.items[k].name, len(s.items[k].content), sh, api, detail, s.names())
		}
	}
	guard := func(api string, k int, f func()) {
		defer func() {
			if p := recover(); p != nil {
				bad(api, "panic", k, fmt.Sprint(p))
			}
		}()
		f()
	}
	buf := make([]byte, 2*iobject.NonPayloadFieldsBufferLength)
	for _, k := range s.cfg.sel {
		it := s.items[k]
		want := s.present[k]
		sh := s.shape(k)
		obsMu.Lock()
		obsSet[sh] = struct{}{}
		obsMu.Unlock()
		expectErr := func(api string, err error) bool { // returns true if the call result is usable
			switch {
			case want && err != nil:
				bad(api, "error-on-stored-address", k, err.Error())
			case !want && err == nil:
				bad(api, "success-on-missing-address", k, "")
			case !want && !isNotFound(err):
				bad(api, "missing-address-not-reported-as-not-found", k, err.Error())
			}
			return want && err == nil
		}
		guard("Exists", k, func() {
			ok, err := t.Exists(it.addr)
			if err != nil {
				bad("Exists", "unexpected-error", k, err.Error())
			} else if ok != want {
				bad("Exists", "wrong-answer", k, fmt.Sprintf("%v, reference %v", ok, want))
			}
		})
		guard("GetBytes", k, func() {
			b, err := t.GetBytes(it.addr)
			if expectErr("GetBytes", err) && !bytes.Equal(b, it.content) {
				bad("GetBytes", "wrong-bytes", k, fmt.Sprintf("%d bytes, stored %d", len(b), len(it.content)))
			}
		})
		guard("Get", k, func() {
			o, err := t.Get(it.addr)
			if expectErr("Get", err) && !bytes.Equal(o.Marshal(), it.content) {
				bad("Get", "wrong-object", k, "")
			}
		})
		guard("Head", k, func() {
			o, err := t.Head(it.addr)
			if expectErr("Head", err) && !bytes.Equal(o.Marshal(), it.hdr) {
				bad("Head", "wrong-header", k, "")
			}
		})
		guard("GetStream", k, func() {
			o, rc, err := t.GetStream(it.addr)
			if expectErr("GetStream", err) {
				p, rerr := io.ReadAll(rc)
				rc.Close()
				if rerr != nil {
					bad("GetStream", "stream-error", k, rerr.Error())
				} else if bytes.Equal(o.Marshal(), it.hdr) && len(p) > len(it.payload) && bytes.Equal(p[:len(it.payload)], it.payload) {
					bad("GetStream", "trailing-bytes-after-payload", k, fmt.Sprintf("payload %d bytes, stored %d", len(p), len(it.payload)))
				} else if !bytes.Equal(o.Marshal(), it.hdr) || !bytes.Equal(p, it.payload) {
					bad("GetStream", "wrong-header-or-payload", k, fmt.Sprintf("payload %d bytes, stored %d", len(p), len(it.payload)))
				}
			}
		})
		guard("ReadHeader", k, func() {
			poison(buf)
			n, err := t.ReadHeader(it.addr, buf)
			if expectErr("ReadHeader", err) && (n > len(it.content) || !bytes.Equal(buf[:n], it.content[:n]) || n < len(it.content)-len(it.payload)) {
				bad("ReadHeader", "not-a-prefix-with-full-header", k, fmt.Sprintf("n=%d", n))
			}
		})
		guard("ReadObject", k, func() {
			poison(buf)
			n, rc, err := t.ReadObject(it.addr, buf)
			if expectErr("ReadObject", err) {
				rest, rerr := io.ReadAll(rc)
				rc.Close()
				if rerr != nil {
					bad("ReadObject", "stream-error", k, rerr.Error())
				} else if got := append(bytes.Clone(buf[:n]), rest...); len(got) < len(it.content) && bytes.Equal(got, it.content[:len(got)]) {
					bad("ReadObject", "truncated-bytes", k, fmt.Sprintf("%d+%d bytes, stored object has %d", n, len(rest), len(it.content)))
				} else if !bytes.Equal(got, it.content) {
					bad("ReadObject", "wrong-bytes", k, fmt.Sprintf("%d+%d bytes, stored %d", n, len(rest), len(it.content)))
				}
			}
		})
	}
	// iteration: every stored address exactly once, with its bytes
	guard("Iterate", 0, func() {
		seen := map[oid.Address]int{}
		err := t.Iterate(func(a oid.Address, data []byte) error {
			seen[a]++
			for k, it := range s.items {
				if it.addr == a && !bytes.Equal(data, it.content) {
					bad("Iterate", "wrong-bytes", k, fmt.Sprintf("%d bytes, stored %d", len(data), len(it.content)))
				}
			}
			return nil
		}, nil)
		if err != nil {
			bad("Iterate", "unexpected-error", 0, err.Error())
		}
		s.iterCheck("Iterate", seen, bad)
	})
	guard("IterateAddresses", 0, func() {
		seen := map[oid.Address]int{}
		if err := t.IterateAddresses(func(a oid.Address) error { seen[a]++; return nil }, false); err != nil {
			bad("IterateAddresses", "unexpected-error", 0, err.Error())
		}
		s.iterCheck("IterateAddresses", seen, bad)
	})
	guard("IterateSizes", 0, func() {
		seen := map[oid.Address]int{}
		if err := t.IterateSizes(func(a oid.Address, _ uint64) error { seen[a]++; return nil }, false); err != nil {
			bad("IterateSizes", "unexpected-error", 0, err.Error())
		}
		s.iterCheck("IterateSizes", seen, bad)
	})
	return fp, what
}

// poison fills a caller-provided buffer so that stale bytes are never zero by accident.
func poison(b []byte) {
	for i := range b {
		b[i] = 0xa5
	}
}

func (s *sys) iterCheck(api string, seen map[oid.Address]int, bad func(api, rule string, k int, detail string)) {
	for k := 0; k < len(s.items); k++ {
		n := seen[s.items[k].addr]
		delete(seen, s.items[k].addr)
		switch {
		case s.present[k] && n == 0:
			bad(api, "stored-address-not-listed", k, "")
		case s.present[k] && n > 1:
			bad(api, "address-listed-more-than-once", k, fmt.Sprint(n))
		case !s.present[k] && n > 0:
			bad(api, "missing-address-listed", k, "")
		}
	}
	if len(seen) > 0 {
		bad(api, "unknown-address-listed", 0, fmt.Sprint(len(seen)))
	}
}

func (s *sys) names() []string {
	var r []string
	for k, p := range s.present {
		if p {
			r = append(r, s.items[k].name)
		}
	}
	return r
}

// ---------- driver ----------

type replay struct {
	Ops   []string   `json:"ops,omitempty"`
	Sweep *sweepCase `json:"sweep,omitempty"`
	Size  *sizeCase  `json:"size,omitempty"`
	Batch *batchCase `json:"batch,omitempty"`
}

func configs(thorough bool) []struct {
	c     config
	depth int
} {
	pairsQ := [][2]int{{0, 1}, {1, 0}, {2, 3}, {4, 0}}
	var pairsT [][2]int
	for i := 0; i < 5; i++ {
		for j := 0; j < 5; j++ {
			if i != j {
				pairsT = append(pairsT, [2]int{i, j})
			}
		}
	}
	type cd = struct {
		c     config
		depth int
	}
	xyz, xyzw, xyv, all := []int{0, 1, 2}, []int{0, 1, 2, 3}, []int{0, 1, 4}, []int{0, 1, 2, 3, 4}
	xu, xt := []int{0, 5}, []int{0, 6}
	if !thorough {
		return []cd{
			{config{depth: 1, sel: xyz, triples: true, pairs: pairsQ}, 3},
			{config{depth: 0, sel: xyzw, pairs: pairsQ}, 2},
			{config{depth: 2, sel: xyzw, pairs: pairsQ}, 2},
			{config{depth: 4, sel: xyzw, triples: true, pairs: pairsQ}, 2},
			{config{depth: 1, sel: xyv, triples: true, pairs: pairsQ}, 2},
			{config{depth: 1, sel: xu, pairs: pairsQ}, 2},
			{config{depth: 1, sel: xt, pairs: [][2]int{{0, 6}, {6, 0}}}, 2},
			{config{depth: 1, generic: true, sel: xyzw, triples: true}, 3},
			{config{depth: 3, generic: true, sel: all, triples: true}, 2},
		}
	}
	var r []cd
	for _, d := range []uint64{0, 1, 2, 3, 4} {
		bfs := 2
		if d == 1 || d == 4 {
			bfs = 3 // the reachable state graph does not depend on the tree depth (same counts for every depth)
		}
		r = append(r, cd{config{depth: d, sel: xyzw, triples: true, pairs: pairsT}, bfs})
		r = append(r, cd{config{depth: d, generic: true, sel: all, triples: true}, 3})
	}
	r = append(r, cd{config{depth: 1, sel: xyz, triples: true, pairs: pairsT}, 4})
	r = append(r, cd{config{depth: 2, sel: xyv, triples: true, pairs: pairsT}, 3})
	r = append(r, cd{config{depth: 1, sel: all, triples: true, pairs: pairsQ}, 2})
	r = append(r, cd{config{depth: 1, sel: xu, pairs: pairsQ}, 3})
	r = append(r, cd{config{depth: 0, generic: true, sel: xu}, 3})
	r = append(r, cd{config{depth: 2, sel: []int{0, 1, 6}, triples: true, pairs: [][2]int{{0, 6}, {6, 0}, {6, 1}}}, 3})
	r = append(r, cd{config{depth: 1, generic: true, sel: xyzw, triples: true}, 5})
	return r
}

func main() {
	r := ev.Start("C10", ev.ModelChecking)
	run = r
	buildUniverse()
	base, err := os.MkdirTemp("/dev/shm", "verif-c10-")
	if err != nil {
		r.Fatal("tmp dir: %v", err)
	}
	dirSeq.base = base
	mk := func(c config) seqx.Config {
		ops := c.ops()
		// the configuration is part of every operation name, so that a replay artefact ({"ops": [...]}) is self-contained
		return seqx.Config{NumOps: len(ops), OpName: func(i int) string { return "[" + c.String() + "] " + ops[i].String() }, New: func() seqx.Sys { return newSys(c, ops) }, CheckInit: true}
	}
	if r.Replay != "" {
		var rp replay
		r.LoadReplay(&rp)
		if rp.Batch != nil {
			fp, what := runBatchCase(*rp.Batch)
			os.RemoveAll(base)
			if fp != "" {
				r.Violation(fp, what, rp)
			}
			r.Finish()
		}
		if rp.Size != nil {
			fp, what, _ := runSizeCase(*rp.Size)
			os.RemoveAll(base)
			if fp != "" {
				r.Violation(fp, what, rp)
			}
			r.Finish()
		}
		if rp.Sweep != nil {
			fp, what := runSweepCase(*rp.Sweep)
			os.RemoveAll(base)
			if fp != "" {
				r.Violation(fp, what, rp)
			}
			r.Finish()
		}
		for _, th := range []bool{false, true} {
			for _, cd := range configs(th) {
				if len(rp.Ops) > 0 && !strings.HasPrefix(rp.Ops[0], "["+cd.c.String()+"] ") {
					continue
				}
				fp, what, err := seqx.Replay(mk(cd.c), rp.Ops)
				os.RemoveAll(base)
				if err != nil {
					r.Fatal("%v", err)
				}
				if fp != "" {
					r.Violation(fp, what, rp)
				}
				r.Finish()
			}
		}
		os.RemoveAll(base)
		r.Fatal("unknown config in %v", rp.Ops)
	}
	exhaustive := true
	type row struct {
		Config      string `json:"config"`
		Ops         int    `json:"ops"`
		Depth       int    `json:"depth"`
		States      int    `json:"states"`
		Transitions int    `json:"transitions"`
	}
	var rows []row
	sweepPart(r.Quick())
	sizeSweepPart(r.Quick())
	batchSweepPart(r.Quick())
	for _, cd := range configs(r.Thorough()) {
		cfg := mk(cd.c)
		cfg.MaxDepth = cd.depth
		res := seqx.Run(r, cfg)
		rows = append(rows, row{cd.c.String(), cfg.NumOps, res.DepthCompleted, res.States, res.Transitions})
		if !res.Exhaustive || res.DepthCompleted < cd.depth && !res.Fixpoint {
			exhaustive = false
		}
		if r.Expired() {
			exhaustive = false
			break
		}
	}
	os.RemoveAll(base)
	obsMu.Lock()
	var shapes []string
	for k := range obsSet {
		shapes = append(shapes, k)
	}
	obsMu.Unlock()
	sort.Strings(shapes)
	r.Set("per_config", rows)
	r.Set("storage_shapes_observed", shapes)
	r.Set("outcome_classes", len(shapes))
	r.Set("universe", func() (m []map[string]any) {
		for _, it := range univ {
			m = append(m, map[string]any{"name": it.name, "object_bytes": len(it.content), "stored_bytes": len(it.stored), "payload": len(it.payload), "oid": it.addr.Object().EncodeToString()[:6] + "..."})
		}
		return
	}())
	r.Set("combined_threshold", threshold)
	r.Exhaustive(exhaustive)
	r.Rule("per configuration (tree depth x writer) BFS over operation sequences up to the listed depth with state dedup; operations: Put as plain file, Put into a single-member combined file, two concurrent Puts sharing a combined file, PutBatch of every ordered selection of 1..3 addresses (member order forced), Delete; after every transition the full read battery runs on all addresses. State = reference map + canonical directory listing (paths, content hashes, hard-link groups). distinct_nontrivial = distinct states reached plus boundary-sweep cases. Boundary sweep (enumerated, not BFS): combined files of 2-3 members (PutBatch, forced order) whose leading member sizes are swept so that the next member prefix starts at every file offset in [E-80, E+2] for every buffer end E of the member-prefix scan (E = B and 2B with B = NonPayloadFieldsBufferLength, after a prefix straddling the first buffer end, after a seek over a member longer than the buffer), member lengths with non-zero low bytes, caller buffers poisoned; the same read battery on every member; the same prefix alignments (0..38 prefix bytes inside the read window, plus margins; thorough: the whole [E-80, E+2] window, also around 2B) with a swept member that is itself streamed (B+321 bytes; 2B+411 bytes) in last and middle position, after a straddling prefix (19 / 37 bytes buffered) and after a seek. Header-buffer size sweep: objects of every plain size in [B-44, B+20] / [B-20, B+20] (quick; thorough +-64, also around 2B) with incompressible, compressible and mixed payloads, stored raw and zstd-compressed (so that plain size and stored size independently fall below, at and above B; mixed payloads put the stored size of a >2B object around B), each as single file, first member and last member of a combined file; the same read battery on each. PutBatch member-size sweep: every ordered batch of 2-3 members over the size classes {small, T-1, T, T+1, S+1} (T = configured combined size threshold, S = combined size limit; PutBatch ignores both) written and read through that configuration, plus the default configuration with a member of 128 KiB-1 / 128 KiB / 128 KiB+1 in first, middle and last position; full battery on all members. The reading instance of every state check is configured with the universe threshold, so BFS and sweep states hold members above the threshold of the reader too")
	r.Assume("content per address is fixed (content-addressed storage; the linux writer treats EEXIST as success by design)",
		"directories left empty by Delete are not part of the state key: no API can observe them",
		"histories are sequential except for the two-concurrent-Puts operation, whose outcome is made deterministic by a count limit of 2 and a batch timer that never fires; other interleavings belong to C13",
		"combined count/size limits and threshold are per-operation (fresh FSTree instance over the same directory), which also covers restarts with changed limits")
	r.Finish()
}
