package main

// Header-buffer size sweep: every read path must return the stored object wherever the PLAIN size and the
// STORED size (zstd frame or raw bytes) of an object lie relative to the header buffer length B =
// NonPayloadFieldsBufferLength and the caller buffer 2B. Objects are built for every size in windows around
// B and 2B with incompressible, compressible and mixed payloads, stored raw and zstd-compressed, each as a
// single file, as the first member and as the last member of a combined file; the complete read battery
// runs on each of them. (Incompressible data is expanded by the zstd frame overhead, so the plain size can
// be below B while the stored size is at or above it, and the other way round for compressible data.)

import (
	"crypto/sha256"
	"encoding/binary"
	"fmt"
	"sort"
	"sync"

	"github.com/klauspost/compress/zstd"
	"github.com/nspcc-dev/neofs-node/verif/lib/enumx"
)

type sizeCase struct {
	Family string `json:"family"`
	Plain  int    `json:"plain_size"`
	Rand   int    `json:"random_payload_bytes,omitempty"` // mixed payloads: incompressible head, compressible tail
}

var sizeEnc, _ = zstd.NewWriter(nil, zstd.WithEncoderConcurrency(1))

func randomFill(p []byte, n int) { // first n bytes incompressible, the rest periodic
	var ctr [8]byte
	for i := 0; i < n && i < len(p); i += sha256.Size {
		binary.BigEndian.PutUint64(ctr[:], uint64(i))
		h := sha256.Sum256(append([]byte("verif-c10-incompressible"), ctr[:]...))
		copy(p[i:min(n, len(p))], h[:])
	}
	for i := n; i < len(p); i++ {
		p[i] = byte(i%251) ^ 0x5a
	}
}

func (c sizeCase) compressed() bool { return c.Family != "raw" }

func (c sizeCase) build(tag string) *item {
	it := sizedObjectWith(fmt.Sprintf("size-%s-%d-%d-%s", c.Family, c.Plain, c.Rand, tag), c.Plain, func(p []byte) {
		switch c.Family {
		case "incompressible-zstd", "raw":
			randomFill(p, len(p))
		case "compressible-zstd":
			randomFill(p, 0)
		default:
			randomFill(p, c.Rand)
		}
	})
	if c.compressed() {
		it.stored = sizeEnc.EncodeAll(it.content, nil)
	}
	return it
}

// rel: position of a size relative to the header buffer B and the caller buffer 2B.
func rel(n int) string {
	switch {
	case n < scanBuf:
		return "<B"
	case n == scanBuf:
		return "=B"
	case n < 2*scanBuf:
		return "B..2B"
	case n == 2*scanBuf:
		return "=2B"
	}
	return ">2B"
}

func sizeCases(quick bool) []sizeCase {
	w, w2 := 20, 6 // window around B; around the caller buffer 2B
	if !quick {
		w, w2 = 64, 64
	}
	var cs []sizeCase
	for _, b := range []int{scanBuf, 2 * scanBuf} {
		ww := w
		if b != scanBuf {
			ww = w2
		}
		// incompressible data grows by the frame overhead: start lower so that the stored size sweeps the window too
		for s := b - ww - 24; s <= b+ww; s++ {
			cs = append(cs, sizeCase{Family: "incompressible-zstd", Plain: s})
		}
		for s := b - ww; s <= b+ww; s++ {
			cs = append(cs, sizeCase{Family: "raw", Plain: s}, sizeCase{Family: "compressible-zstd", Plain: s})
		}
	}
	// mixed payload: plain size far above 2B, the incompressible part chosen so that the STORED size sweeps B
	plain := 3*scanBuf + 77
	stored := func(r int) int {
		return len(sizeCase{Family: "mixed-zstd", Plain: plain, Rand: r}.build("probe").stored)
	}
	lo, hi := 0, scanBuf+64
	for lo < hi { // smallest r with stored(r) >= B (stored size grows with the incompressible part)
		m := (lo + hi) / 2
		if stored(m) >= scanBuf {
			hi = m
		} else {
			lo = m + 1
		}
	}
	for r := lo - w - 8; r <= lo+w+8; r++ {
		cs = append(cs, sizeCase{Family: "mixed-zstd", Plain: plain, Rand: r})
	}
	return cs
}

func runSizeCase(c sizeCase) (fp, what string, storedSize int) {
	small1, small2 := sizedObject(fmt.Sprintf("size-%s-%d-%d-s1", c.Family, c.Plain, c.Rand), 0x141), sizedObject(fmt.Sprintf("size-%s-%d-%d-s2", c.Family, c.Plain, c.Rand), 0x19b)
	items := []*item{c.build("single"), c.build("first"), small1, small2, c.build("last")}
	dirSeq.Lock()
	dirSeq.n++
	d := fmt.Sprintf("%s/size%d", dirSeq.base, dirSeq.n)
	dirSeq.Unlock()
	storedSize = len(items[0].stored)
	s := &sys{cfg: config{depth: 1, sel: []int{0, 1, 2, 3, 4}}, dir: d, items: items, present: make([]bool, len(items)),
		ops:   []op{{opPutPlain, []int{0}}, {opPutBatch, []int{1, 2}}, {opPutBatch, []int{3, 4}}},
		extra: fmt.Sprintf(",size-sweep:%s:plain%s,stored%s", c.Family, rel(c.Plain), rel(storedSize))}
	defer s.Close()
	t := s.open()
	t.Close()
	for i := range s.ops {
		s.Apply(i)
	}
	fp, what = s.Check()
	if fp != "" {
		what = fmt.Sprintf("size sweep %s: plain size %d, stored size %d (header buffer %d): %s", c.Family, c.Plain, storedSize, scanBuf, what)
	}
	return fp, what, storedSize
}

func sizeSweepPart(quick bool) {
	cs := sizeCases(quick)
	classes := map[string]int{}
	var mu sync.Mutex
	enumx.Parallel(len(cs), func(i int) {
		c := cs[i]
		fp, what, st := runSizeCase(c)
		run.Eval(1)
		run.Nontrivial(fmt.Sprintf("size|%s|%d|%d", c.Family, c.Plain, c.Rand))
		mu.Lock()
		classes[fmt.Sprintf("%s:plain%s,stored%s", c.Family, rel(c.Plain), rel(st))]++
		mu.Unlock()
		if fp != "" {
			run.Violation(fp, what, replay{Size: &c})
		}
	})
	// vacuity guard: the sweep must really put the plain and the stored size on different sides of B
	for _, need := range []string{"incompressible-zstd:plain<B,stored=B", "incompressible-zstd:plain<B,storedB..2B", "compressible-zstd:plainB..2B,stored<B",
		"mixed-zstd:plain>2B,stored<B", "mixed-zstd:plain>2B,stored=B", "mixed-zstd:plain>2B,storedB..2B", "raw:plain=B,stored=B"} {
		if classes[need] == 0 {
			run.Fatal("size sweep does not reach class %s (zstd frame overhead changed?): %v", need, classes)
		}
	}
	var ks []string
	for k, n := range classes {
		ks = append(ks, fmt.Sprintf("%s x%d", k, n))
	}
	sort.Strings(ks)
	run.Set("size_sweep", map[string]any{"cases": len(cs), "objects_per_case": "single file, first member, last member (+2 small companions)", "classes": ks, "B": scanBuf})
}
