package main

// PutBatch member-size sweep: PutBatch writes the whole batch into one combined file whatever the member
// sizes are (the combined size threshold and size limit only steer single Puts), so members below, at and
// above the configured threshold, and above the size limit, are legal in every position. Every ordered
// batch of 2-3 members over the size classes {small, T-1, T, T+1, S+1} is written and read back through the
// same configuration (T = combined size threshold, S = combined size limit), with the complete read battery
// on ALL members; plus the default configuration with members around its 128 KiB threshold.

import (
	"fmt"
	"sort"
	"sync"

	"github.com/nspcc-dev/neofs-node/pkg/local_object_storage/blobstor/fstree"
	"github.com/nspcc-dev/neofs-node/verif/lib/enumx"
)

type batchCase struct {
	Threshold int   `json:"threshold"` // 0: default configuration
	Limit     int   `json:"size_limit"`
	Sizes     []int `json:"member_sizes"`
}

const defaultThreshold = 128 << 10 // fstree.New default (no exported constant)

func (c batchCase) rel(n int) string {
	t, l := c.Threshold, c.Limit
	if t == 0 {
		t, l = defaultThreshold, 8<<20
	}
	switch {
	case n > l:
		return ">limit"
	case n > t:
		return ">threshold"
	case n == t:
		return "=threshold"
	}
	return "<threshold"
}

func batchCases(quick bool) []batchCase {
	const T, S = 0x200, 0x800
	sizes := []int{150, T - 1, T, T + 1, S + 1}
	var cs []batchCase
	for _, a := range sizes {
		for _, b := range sizes {
			cs = append(cs, batchCase{T, S, []int{a, b}})
			for _, c := range sizes {
				cs = append(cs, batchCase{T, S, []int{a, b, c}})
			}
		}
	}
	// default configuration: one member around the 128 KiB default threshold in first / middle / last position
	for _, big := range []int{defaultThreshold - 1, defaultThreshold, defaultThreshold + 1} {
		if quick && big == defaultThreshold-1 {
			continue
		}
		cs = append(cs, batchCase{0, 0, []int{big, 150, 151}}, batchCase{0, 0, []int{150, big, 151}}, batchCase{0, 0, []int{150, 151, big}})
	}
	return cs
}

func runBatchCase(c batchCase) (string, string) {
	var items []*item
	sel := make([]int, len(c.Sizes))
	for i, sz := range c.Sizes {
		it := sizedObject(fmt.Sprintf("batch-%d-%v-m%d", c.Threshold, c.Sizes, i), sz)
		it.tag = ",member" + c.rel(sz)
		items = append(items, it)
		sel[i] = i
	}
	dirSeq.Lock()
	dirSeq.n++
	d := fmt.Sprintf("%s/batch%d", dirSeq.base, dirSeq.n)
	dirSeq.Unlock()
	s := &sys{cfg: config{depth: 1, sel: sel}, ops: []op{{opPutBatch, sel}}, dir: d, items: items, present: make([]bool, len(items)), extra: ",putbatch-size-sweep"}
	if c.Threshold > 0 {
		s.opts = []fstree.Option{fstree.WithCombinedSizeThreshold(c.Threshold), fstree.WithCombinedSizeLimit(c.Limit)}
	} else {
		s.opts = []fstree.Option{fstree.WithCombinedCountLimit(128)} // explicit default: keeps Check on this configuration
	}
	defer s.Close()
	t := s.open()
	t.Close()
	s.Apply(0)
	fp, what := s.Check()
	if fp != "" {
		var cl []string
		for _, sz := range c.Sizes {
			cl = append(cl, c.rel(sz))
		}
		what = fmt.Sprintf("PutBatch size sweep: member sizes %v (%v), threshold %d, size limit %d (0 = defaults): %s", c.Sizes, cl, c.Threshold, c.Limit, what)
	}
	return fp, what
}

func batchSweepPart(quick bool) {
	cs := batchCases(quick)
	classes := map[string]int{}
	var mu sync.Mutex
	enumx.Parallel(len(cs), func(i int) {
		c := cs[i]
		fp, what := runBatchCase(c)
		run.Eval(1)
		run.Nontrivial(fmt.Sprintf("batch|%d|%v", c.Threshold, c.Sizes))
		mu.Lock()
		for pos, sz := range c.Sizes {
			classes[fmt.Sprintf("member %d of %d %s", pos+1, len(c.Sizes), c.rel(sz))]++
		}
		mu.Unlock()
		if fp != "" {
			run.Violation(fp, what, replay{Batch: &c})
		}
	})
	var ks []string
	for k, n := range classes {
		ks = append(ks, fmt.Sprintf("%s x%d", k, n))
	}
	sort.Strings(ks)
	run.Set("putbatch_size_sweep", map[string]any{"cases": len(cs), "member_classes": ks})
}
