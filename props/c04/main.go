// C04: a merged search over several shards (StorageEngine.Search) or several nodes (the merge /
// cursor recomputation of Server.ProcessSearch) behaves like one search over the union of the objects.
//
// Exhaustive enumeration (no sampling): every distribution of a five-object corpus over 2 shards
// (each object on a non-empty subset of the shards; thorough: all six objects over 2 shards and four
// objects over 3 shards; two corpora) × every visiting/arrival order of the shards × every query of
// queries.go (every primary attribute class × matchers, with and without requested attributes) ×
// every page size 1..N+1, paged to exhaustion with the cursors the implementation returns.
// Differential oracle: the page sequence of the same request on a one-shard engine that holds the
// union.
package main

import (
	"context"
	"fmt"
	"sort"
	"strings"
	"sync"

	objectcore "github.com/nspcc-dev/neofs-node/pkg/core/object"
	"github.com/nspcc-dev/neofs-node/verif/lib/enumx"
	"github.com/nspcc-dev/neofs-node/verif/lib/ev"
	"github.com/nspcc-dev/neofs-node/verif/shim/vmaps"
	ew "github.com/nspcc-dev/neofs-node/verif/worlds/engineworld"
	"github.com/nspcc-dev/neofs-sdk-go/client"
	oid "github.com/nspcc-dev/neofs-sdk-go/object/id"
)

// tcase is one evaluation (also the replay artefact).
type tcase struct {
	Path   string `json:"path"` // "engine" (StorageEngine.Search over shards) | "nodes" (ProcessSearch merge over nodes)
	Corpus string `json:"corpus"`
	Pick   int    `json:"pick"` // bit mask of the corpus objects in play
	Shards int    `json:"shards"`
	Dist   []int  `json:"distribution"` // per object: bit mask of the shards/nodes holding a copy
	Order  []int  `json:"order"`        // visiting order of the shards / arrival order of the node answers
	Query  query  `json:"query"`
	Count  uint16 `json:"count"`
}

type refEntry struct {
	full  []client.SearchResultItem
	pages map[uint16][]page // by page size
	bad   string            // non-empty: reference unusable for this query (why)
}

type refWorld struct {
	c     corpus
	w     *ew.World
	refs  []refEntry
	names map[oid.ID]string
	// holders[id] = corpus object indexes whose presence on a shard makes id known to that shard
	holders map[oid.ID][]int
}

func putAll(w *ew.World, c corpus, dist []int) error {
	for i, o := range c.objs {
		for s := range w.Shards {
			if dist[i]&(1<<s) == 0 {
				continue
			}
			if err := w.Shards[s].Sh.Put(o, nil); err != nil {
				return fmt.Errorf("put %s to shard %d: %w", c.lbl[i], s, err)
			}
		}
	}
	return nil
}

func shardStorage(w *ew.World, i int) searchFn {
	return func(ofs []objectcore.SearchFilter, attrs []string, cur *objectcore.SearchCursor, count uint16) ([]client.SearchResultItem, []byte, error) {
		return w.Shards[i].Sh.Search(cnr, ofs, attrs, cur, count)
	}
}

func engStorage(w *ew.World) searchFn {
	return func(ofs []objectcore.SearchFilter, attrs []string, cur *objectcore.SearchCursor, count uint16) ([]client.SearchResultItem, []byte, error) {
		return w.Eng.Search(context.Background(), cnr, ofs, attrs, cur, count)
	}
}

func buildRef(r *ev.Run, c corpus, qs []query) *refWorld {
	w, err := ew.New(ew.Config{NumShards: 1})
	if err != nil {
		r.Fatal("reference world: %v", err)
	}
	all := make([]int, len(c.objs))
	for i := range all {
		all[i] = 1
	}
	if err := putAll(w, c, all); err != nil {
		r.Fatal("reference world: %v", err)
	}
	rw := &refWorld{c: c, w: w, names: map[oid.ID]string{}, holders: map[oid.ID][]int{}}
	for i, o := range c.objs {
		rw.names[o.GetID()] = c.lbl[i]
		rw.holders[o.GetID()] = append(rw.holders[o.GetID()], i)
		if p := o.Parent(); p != nil {
			rw.names[p.GetID()] = "parent-of-" + c.lbl[i]
			rw.holders[p.GetID()] = append(rw.holders[p.GetID()], i)
		}
	}
	st := engStorage(w)
	do := func(q query, cur string, n uint16) (page, *reqError) { return localRequest(st, q, cur, n) }
	rw.refs = make([]refEntry, len(qs))
	for qi, q := range qs {
		e := &rw.refs[qi]
		one, rerr := paginate(do, q, 1000, 2)
		if rerr != nil {
			e.bad = "reference request failed: " + rerr.Error()
			continue
		}
		e.full = flat(one)
		e.pages = map[uint16][]page{}
		for n := uint16(1); int(n) <= len(e.full)+1; n++ {
			ps, rerr := paginate(do, q, n, len(e.full)+3)
			if rerr != nil {
				e.bad = fmt.Sprintf("reference paging (page size %d) failed: %v", n, rerr)
				break
			}
			if !itemsEqual(flat(ps), e.full, true) {
				e.bad = fmt.Sprintf("reference paging (page size %d) is not the one-shot listing: %s vs %s", n, renderPages(ps, rw.names), renderPages(one, rw.names))
				break
			}
			e.pages[n] = ps
		}
	}
	return rw
}

type verdict struct {
	fp, what string
}

// evalCase runs one request shape to exhaustion on the given requester and compares with the reference.
func evalCase(rw *refWorld, qi int, q query, count uint16, do requester, path string) *verdict {
	e := &rw.refs[qi]
	ref := e.pages[count]
	got, rerr := paginate(do, q, count, len(e.full)+3)
	class := q.Class
	if rerr != nil {
		return &verdict{class + ":" + rerr.kind,
			fmt.Sprintf("[%s path] %s; pages so far: [%s]; reference: [%s]", path, rerr.Error(), renderPages(got, rw.names), renderPages(ref, rw.names))}
	}
	if k := diffKind(ref, got, len(q.Attrs) > 0); k != "" {
		kk := k
		if strings.HasPrefix(k, "items:") {
			kk = "items-differ"
		}
		return &verdict{class + ":" + kk,
			fmt.Sprintf("[%s path] %s: got [%s], reference [%s]", path, k, renderPages(got, rw.names), renderPages(ref, rw.names))}
	}
	return nil
}

type found struct {
	v   verdict
	c   tcase
	key string // deterministic minimality order
}

type collector struct {
	mu    sync.Mutex
	best  map[string]*found
	total int
	byFP  map[string]int
}

func (cl *collector) add(v *verdict, c tcase, key string) {
	cl.mu.Lock()
	defer cl.mu.Unlock()
	cl.total++
	cl.byFP[v.fp]++
	if b, ok := cl.best[v.fp]; !ok || key < b.key {
		cl.best[v.fp] = &found{*v, c, key}
	}
}

func caseKey(c tcase, di, oi, qi int) string {
	copies := 0
	for _, m := range c.Dist {
		for ; m != 0; m &= m - 1 {
			copies++
		}
	}
	return fmt.Sprintf("%d|%02d|%02d|%03d|%06d|%02d|%s", c.Shards, copies, c.Count, qi, di, oi, c.Path)
}

// runWorld evaluates every order × query × page size on one populated world.
func runWorld(r *ev.Run, rw *refWorld, w *ew.World, qs []query, k int, dist []int, di int, cl *collector, outcomes *sync.Map) {
	nodes := make([]searchFn, k)
	for i := range nodes {
		nodes[i] = shardStorage(w, i)
	}
	est := engStorage(w)
	oi := -1
	enumx.Perms(k, func(p []int) bool {
		oi++
		perm := append([]int(nil), p...)
		w.SetOrder(perm)
		if got := w.UnsortedOrder(); fmt.Sprint(got) != fmt.Sprint(perm) {
			r.Fatal("shard order not under control: want %v got %v", perm, got)
		}
		ordered := make([]searchFn, k)
		for i, s := range perm {
			ordered[i] = nodes[s]
		}
		for qi, q := range qs {
			e := &rw.refs[qi]
			if e.bad != "" {
				continue
			}
			// placement signature of the matching objects (distinct non-trivial accounting)
			var sig strings.Builder
			spread := 0
			for _, it := range e.full {
				m := 0
				for _, h := range rw.holders[it.ID] {
					m |= dist[h]
				}
				spread |= m
				fmt.Fprintf(&sig, "%x", m)
			}
			for n := uint16(1); int(n) <= len(e.full)+1; n++ {
				for _, path := range []string{"engine", "nodes"} {
					var do requester
					if path == "engine" {
						do = func(q query, cur string, n uint16) (page, *reqError) { return localRequest(est, q, cur, n) }
					} else {
						do = func(q query, cur string, n uint16) (page, *reqError) { return nodesRequest(ordered, q, cur, n) }
					}
					r.Eval(1)
					v := evalCase(rw, qi, q, n, do, path)
					if len(e.full) >= 2 && int(n) < len(e.full) && spread&(spread-1) != 0 {
						r.Nontrivial(fmt.Sprintf("%s|%s|%d|%d|%d|%s", path, rw.c.name, k, qi, n, sig.String()))
					}
					if v != nil {
						c := tcase{Path: path, Corpus: rw.c.name, Pick: rw.c.mask, Shards: k, Dist: append([]int(nil), dist...), Order: perm, Query: q, Count: n}
						cl.add(v, c, caseKey(c, di, oi, qi))
						outcomes.Store("violation:"+v.fp, true)
					} else {
						outcomes.Store(fmt.Sprintf("ok:%d-items/%d-pages", len(e.full), len(e.pages[n])), true)
					}
				}
			}
		}
		return !r.Expired()
	})
}

func enumerate(r *ev.Run, c corpus, qs []query, k int, cl *collector, outcomes *sync.Map) (dists int, complete bool) {
	rw := buildRef(r, c, qs)
	defer rw.w.Close()
	sizes := make([]int, len(c.objs))
	for i := range sizes {
		sizes[i] = 1<<k - 1
	}
	var all [][]int
	enumx.Product(sizes, func(idx []int) bool {
		d := make([]int, len(idx))
		for i, v := range idx {
			d[i] = v + 1 // non-empty subset mask
		}
		all = append(all, d)
		return true
	})
	var done sync.Map
	enumx.Parallel(len(all), func(di int) {
		if r.Expired() {
			return
		}
		w, err := ew.New(ew.Config{NumShards: k})
		if err != nil {
			r.Fatal("world: %v", err)
		}
		defer w.Close()
		if err := putAll(w, c, all[di]); err != nil {
			r.Fatal("%v", err)
		}
		runWorld(r, rw, w, qs, k, all[di], di, cl, outcomes)
		if !r.Expired() {
			done.Store(di, true)
		}
		if r.WantSample() && di%97 == 5 {
			r.Sample(map[string]any{"corpus": c.name, "shards": k, "distribution": all[di], "queries": len(qs)})
		}
	})
	n := 0
	done.Range(func(_, _ any) bool { n++; return true })
	return n, n == len(all)
}

// single node (K=1): the recomputed cursor is used even without any merging.
func enumerateSingleNode(r *ev.Run, c corpus, qs []query, cl *collector, outcomes *sync.Map) {
	rw := buildRef(r, c, qs)
	defer rw.w.Close()
	dist := make([]int, len(c.objs))
	for i := range dist {
		dist[i] = 1
	}
	nodes := []searchFn{engStorage(rw.w)}
	for qi, q := range qs {
		e := &rw.refs[qi]
		if e.bad != "" {
			continue
		}
		for n := uint16(1); int(n) <= len(e.full)+1; n++ {
			r.Eval(1)
			do := func(q query, cur string, n uint16) (page, *reqError) { return nodesRequest(nodes, q, cur, n) }
			v := evalCase(rw, qi, q, n, do, "nodes")
			if len(e.full) >= 2 && int(n) < len(e.full) {
				r.Nontrivial(fmt.Sprintf("single-node|%s|%d|%d", c.name, qi, n))
			}
			if v != nil {
				tc := tcase{Path: "nodes", Corpus: c.name, Pick: c.mask, Shards: 1, Dist: dist, Order: []int{0}, Query: q, Count: n}
				cl.add(v, tc, caseKey(tc, 0, 0, qi))
				outcomes.Store("violation:"+v.fp, true)
			}
		}
	}
}

func corpusByName(name string, mask int) corpus {
	var c corpus
	switch name {
	case "plain":
		c = plainCorpus()
	case "rel":
		c = relCorpus()
	default:
		panic("unknown corpus " + name)
	}
	if mask != 0 {
		c = c.pick(mask)
	}
	return c
}

// replay evaluates exactly one case.
func replay(r *ev.Run, tc tcase) *verdict {
	c := corpusByName(tc.Corpus, tc.Pick)
	qs := []query{tc.Query}
	rw := buildRef(r, c, qs)
	defer rw.w.Close()
	if rw.refs[0].bad != "" {
		r.Fatal("reference unusable: %s", rw.refs[0].bad)
	}
	if _, ok := rw.refs[0].pages[tc.Count]; !ok {
		r.Fatal("page size %d outside 1..N+1", tc.Count)
	}
	w, err := ew.New(ew.Config{NumShards: tc.Shards})
	if err != nil {
		r.Fatal("world: %v", err)
	}
	defer w.Close()
	if err := putAll(w, c, tc.Dist); err != nil {
		r.Fatal("%v", err)
	}
	w.SetOrder(tc.Order)
	var do requester
	if tc.Path == "engine" {
		st := engStorage(w)
		do = func(q query, cur string, n uint16) (page, *reqError) { return localRequest(st, q, cur, n) }
	} else {
		var nodes []searchFn
		for _, s := range tc.Order {
			nodes = append(nodes, shardStorage(w, s))
		}
		do = func(q query, cur string, n uint16) (page, *reqError) { return nodesRequest(nodes, q, cur, n) }
	}
	return evalCase(rw, 0, tc.Query, tc.Count, do, tc.Path)
}

func main() {
	r := ev.Start("C04", ev.Exploration)
	if !ew.Instrumented {
		r.Fatal("built without the verif overlay")
	}
	if r.Replay != "" {
		var tc tcase
		r.LoadReplay(&tc)
		if v := replay(r, tc); v != nil {
			r.Violation(v.fp, v.what, tc)
		}
		r.Finish()
	}
	qs := allQueries()
	cl := &collector{best: map[string]*found{}, byFP: map[string]int{}}
	var outcomes sync.Map

	type job struct {
		c corpus
		k int
	}
	var jobs []job
	if r.Quick() {
		// five objects each: plain without f, rel without r2
		jobs = []job{{plainCorpus().pick(0b011111), 2}, {relCorpus().pick(0b111101), 2}}
	} else {
		// all six over 2 shards; four over 3 shards (plain a,b,c,e; rel r1,r3,t1,t2)
		jobs = []job{{plainCorpus(), 2}, {relCorpus(), 2}, {plainCorpus().pick(0b010111), 3}, {relCorpus().pick(0b011101), 3}}
	}
	exhaustive := true
	var bounds []string
	for _, c := range []corpus{plainCorpus(), relCorpus()} {
		enumerateSingleNode(r, c, qs, cl, &outcomes)
	}
	for _, j := range jobs {
		n, complete := enumerate(r, j.c, qs, j.k, cl, &outcomes)
		bounds = append(bounds, fmt.Sprintf("%s corpus (%d objects) over %d shards: %d distributions completed (complete=%v)", j.c.name, len(j.c.objs), j.k, n, complete))
		exhaustive = exhaustive && complete
	}
	if vmaps.Calls() == 0 {
		r.Fatal("vmaps shim was never called: the maps→vmaps import rewrite is not in effect")
	}

	// reference sanity report (queries whose one-shard reference is unusable are not judged here)
	var bad, usable []string
	for _, c := range []corpus{plainCorpus(), relCorpus()} {
		rw := buildRef(r, c, qs)
		for qi, q := range qs {
			if rw.refs[qi].bad != "" {
				bad = append(bad, c.name+": "+q.Name+": "+rw.refs[qi].bad)
			} else if len(rw.refs[qi].full) >= 2 {
				usable = append(usable, fmt.Sprintf("%s: %s → %d items", c.name, q.Name, len(rw.refs[qi].full)))
			}
		}
		rw.w.Close()
	}
	r.Set("queries", len(qs))
	r.Set("queries_with_2+_matches", len(usable))
	r.Set("reference_unusable", bad)
	r.Set("bounds_completed", bounds)

	var fps []string
	for fp := range cl.best {
		fps = append(fps, fp)
	}
	sort.Strings(fps)
	for _, fp := range fps {
		b := cl.best[fp]
		r.Violation(fp, fmt.Sprintf("%s [%d violating cases in this class; minimal: %d shards, distribution %v, order %v, query %q, page size %d]",
			b.v.what, cl.byFP[fp], b.c.Shards, b.c.Dist, b.c.Order, b.c.Query.Name, b.c.Count), b.c)
	}
	r.Set("violating_cases", cl.total)
	nOut := 0
	outcomes.Range(func(_, _ any) bool { nOut++; return true })
	r.Set("outcome_classes", nOut)
	r.Rule("case = (path engine|nodes, corpus, distribution of every object over a non-empty shard subset, shard visiting / answer arrival order, query, page size); every case is paged to exhaustion with the returned cursors and compared with the one-shard reference listing (items, order, attribute values when requested, page boundaries, cursor acceptance). Non-trivial = reference has >=2 items, the page size forces >=2 pages (a recomputed cursor is consumed) and the matching objects live on >=2 shards; distinct = distinct (path, corpus, query, page size, placement of the matching objects)")
	r.Assume(
		"tombstone/lock targets and split parents' other children are outside the corpus: removal semantics are not mixed into the merge check",
		"a 'node' of the node-level path is a one-shard storage (Shard.Search is what a one-shard engine returns verbatim); the merge/cursor code of Server.ProcessSearch is mirrored in paths.go (nodesRequest), network transport and partial-failure (Incomplete) handling are not part of this check",
		"shard search errors (degraded shards) are not injected here",
	)
	r.Exhaustive(exhaustive)
	r.Finish()
}
