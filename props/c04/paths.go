package main

import (
	"encoding/base64"
	"errors"
	"fmt"
	"slices"
	"strings"

	"github.com/mr-tron/base58"
	objectcore "github.com/nspcc-dev/neofs-node/pkg/core/object"
	"github.com/nspcc-dev/neofs-sdk-go/client"
	"github.com/nspcc-dev/neofs-sdk-go/object"
	oid "github.com/nspcc-dev/neofs-sdk-go/object/id"
)

func b58enc(b []byte) string { return base58.Encode(b) }

// searchFn is the storage of one node: StorageEngine.Search or (for a one-shard node) Shard.Search,
// which is what a one-shard engine returns verbatim.
type searchFn func(ofs []objectcore.SearchFilter, attrs []string, cur *objectcore.SearchCursor, count uint16) ([]client.SearchResultItem, []byte, error)

// page is what the client sees for one request.
type page struct {
	Items  []client.SearchResultItem
	Cursor string // "" = listing finished
}

type reqError struct {
	kind string // "cursor-rejected" | "search-error" | "merge-error" | "cursor-calc-error" | "panic"
	err  error
}

func (e *reqError) Error() string { return e.kind + ": " + e.err.Error() }

// localRequest mirrors Server.ProcessSearch with localOnly=true (pkg/services/object/server.go): the
// primary attribute is forced for attributeless filtered queries, the query is preprocessed together
// with the client's cursor, the local storage is asked, and forced attributes are stripped for K=V.
func localRequest(st searchFn, q query, cursor string, count uint16) (pg page, rerr *reqError) {
	defer func() {
		if p := recover(); p != nil {
			rerr = &reqError{"panic", fmt.Errorf("%v", p)}
		}
	}()
	fs := q.filters()
	filteredAttributeless := len(q.Attrs) == 0 && len(fs) > 0
	attrs := q.Attrs
	if filteredAttributeless {
		attrs = []string{fs[0].Header()}
	}
	ofs, cur, err := objectcore.PreprocessSearchQuery(fs, attrs, cursor)
	if err != nil {
		if errors.Is(err, objectcore.ErrUnreachableQuery) {
			return page{}, nil
		}
		if cursor != "" {
			return page{}, &reqError{"cursor-rejected", err}
		}
		return page{}, &reqError{"search-error", err}
	}
	res, newCursor, err := st(ofs, attrs, cur, count)
	if err != nil {
		return page{}, &reqError{"search-error", err}
	}
	if filteredAttributeless && fs[0].Operation() == object.MatchStringEqual {
		for i := range res {
			res[i].Attributes = nil
		}
	}
	pg.Items = res
	if newCursor != nil {
		pg.Cursor = base64.StdEncoding.EncodeToString(newCursor)
	}
	return pg, nil
}

// nodesRequest mirrors the default (multi-node) branch of Server.ProcessSearch: every container node
// is asked with the same preprocessed query (a remote node derives the same values from the same
// request body), result sets arrive in an arbitrary order (arrival = the order of `nodes` here, all
// orders are enumerated by the caller), then MergeSearchResults / CalculateCursor exactly as there.
// Remote nodes answer through localRequest's post-processing (they strip forced K=V attributes).
func nodesRequest(nodes []searchFn, q query, cursor string, count uint16) (pg page, rerr *reqError) {
	defer func() {
		if p := recover(); p != nil {
			rerr = &reqError{"panic", fmt.Errorf("%v", p)}
		}
	}()
	fs := q.filters()
	filteredAttributeless := len(q.Attrs) == 0 && len(fs) > 0
	attrs := q.Attrs
	if filteredAttributeless {
		attrs = []string{fs[0].Header()}
	}
	ofs, cur, err := objectcore.PreprocessSearchQuery(fs, attrs, cursor)
	if err != nil {
		if errors.Is(err, objectcore.ErrUnreachableQuery) {
			return page{}, nil
		}
		if cursor != "" {
			return page{}, &reqError{"cursor-rejected", err}
		}
		return page{}, &reqError{"search-error", err}
	}
	var (
		sets  [][]client.SearchResultItem
		mores []bool
	)
	isEQ := len(fs) > 0 && fs[0].Operation() == object.MatchStringEqual
	for _, n := range nodes {
		set, crsr, err := n(ofs, attrs, cur, count)
		if err != nil {
			return page{}, &reqError{"search-error", err}
		}
		if filteredAttributeless && isEQ { // what a TTL=1 answer looks like
			for i := range set {
				set[i].Attributes = nil
			}
		}
		sets = append(sets, set)
		mores = append(mores, crsr != nil)
	}
	var (
		firstAttr   string
		firstFilter *object.SearchFilter
	)
	if len(attrs) > 0 {
		firstFilter = &ofs[0].SearchFilter
		if !isEQ { // no reason to compare equal values
			firstAttr = fs[0].Header()
		}
	}
	cmpInt := firstAttr != "" && objectcore.IsIntegerSearchOp(fs[0].Operation())
	res, more, err := objectcore.MergeSearchResults(count, firstAttr, cmpInt, sets, mores)
	if err != nil {
		return page{}, &reqError{"merge-error", err}
	}
	var newCursor []byte
	if more {
		if filteredAttributeless && isEQ {
			res[len(res)-1].Attributes = []string{fs[0].Value()}
		}
		if newCursor, err = objectcore.CalculateCursor(firstFilter, res[len(res)-1]); err != nil {
			return page{}, &reqError{"cursor-calc-error", err}
		}
	}
	if filteredAttributeless {
		for i := range res {
			res[i].Attributes = nil
		}
	}
	pg.Items = res
	if newCursor != nil {
		pg.Cursor = base64.StdEncoding.EncodeToString(newCursor)
	}
	return pg, nil
}

type requester func(q query, cursor string, count uint16) (page, *reqError)

// paginate pages a listing to exhaustion (bounded: a correct listing of n items needs at most
// n/count+1 requests; maxPages guards against a cursor that never advances).
func paginate(do requester, q query, count uint16, maxPages int) ([]page, *reqError) {
	var (
		pages  []page
		cursor string
	)
	for len(pages) < maxPages {
		pg, err := do(q, cursor, count)
		if err != nil {
			return pages, err
		}
		pg.Items = cloneItems(pg.Items)
		pages = append(pages, pg)
		if pg.Cursor == "" {
			return pages, nil
		}
		cursor = pg.Cursor
	}
	return pages, &reqError{"no-termination", fmt.Errorf("listing not finished after %d pages", maxPages)}
}

func cloneItems(in []client.SearchResultItem) []client.SearchResultItem {
	out := make([]client.SearchResultItem, len(in))
	for i := range in {
		out[i] = client.SearchResultItem{ID: in[i].ID, Attributes: slices.Clone(in[i].Attributes)}
	}
	return out
}

func flat(pages []page) []client.SearchResultItem {
	var r []client.SearchResultItem
	for _, p := range pages {
		r = append(r, p.Items...)
	}
	return r
}

func itemsEqual(a, b []client.SearchResultItem, withAttrs bool) bool {
	if len(a) != len(b) {
		return false
	}
	for i := range a {
		if a[i].ID != b[i].ID {
			return false
		}
		if withAttrs && !slices.Equal(a[i].Attributes, b[i].Attributes) {
			return false
		}
	}
	return true
}

// diffKind classifies how a listing differs from the reference listing.
func diffKind(ref, got []page, withAttrs bool) string {
	fr, fg := flat(ref), flat(got)
	if !itemsEqual(fr, fg, false) {
		seen := map[oid.ID]int{}
		for _, it := range fg {
			seen[it.ID]++
		}
		dup, miss, extra := false, false, false
		for _, n := range seen {
			dup = dup || n > 1
		}
		refIDs := map[oid.ID]bool{}
		for _, it := range fr {
			refIDs[it.ID] = true
			miss = miss || seen[it.ID] == 0
		}
		for id := range seen {
			extra = extra || !refIDs[id]
		}
		var ks []string
		if dup {
			ks = append(ks, "duplicates")
		}
		if miss {
			ks = append(ks, "omissions")
		}
		if extra {
			ks = append(ks, "foreign-items")
		}
		if len(ks) == 0 {
			ks = append(ks, "order")
		}
		return "items:" + strings.Join(ks, "+")
	}
	if withAttrs && !itemsEqual(fr, fg, true) {
		return "attribute-values"
	}
	if len(ref) != len(got) {
		return "page-boundaries"
	}
	for i := range ref {
		if len(ref[i].Items) != len(got[i].Items) || (ref[i].Cursor == "") != (got[i].Cursor == "") {
			return "page-boundaries"
		}
	}
	return ""
}

func renderPages(ps []page, names map[oid.ID]string) string {
	var sb strings.Builder
	for i, p := range ps {
		if i > 0 {
			sb.WriteString(" | ")
		}
		for j, it := range p.Items {
			if j > 0 {
				sb.WriteByte(' ')
			}
			n, ok := names[it.ID]
			if !ok {
				n = it.ID.String()[:6]
			}
			sb.WriteString(n)
			if len(it.Attributes) > 0 {
				a := it.Attributes[0]
				if len(a) > 10 {
					a = a[:10] + "…"
				}
				sb.WriteString("(" + a + ")")
			}
		}
		if p.Cursor != "" {
			sb.WriteString(" →")
		}
	}
	return sb.String()
}
