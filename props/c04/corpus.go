package main

import (
	"crypto/sha256"
	"encoding/hex"

	ew "github.com/nspcc-dev/neofs-node/verif/worlds/engineworld"
	cid "github.com/nspcc-dev/neofs-sdk-go/container/id"
	"github.com/nspcc-dev/neofs-sdk-go/object"
	oid "github.com/nspcc-dev/neofs-sdk-go/object/id"
	"github.com/nspcc-dev/neofs-sdk-go/user"
)

// Two corpora of six physically stored objects each, in one container.
//
// "plain": regular objects with user string attribute S, user numeric attribute N (one non-numeric
// value, one missing), three owners, payloads with equal and different checksums/sizes, creation
// epochs. "rel": split children with embedded parent headers (so the virtual parents are indexed as
// well), split IDs, first-part IDs, and tombstone/lock objects whose associated targets are NOT part
// of the corpus (the check is about merging, not about removal semantics, which depend on which
// shard holds a tombstone and belong to C08/C09).
//
// ID-valued attributes use values from different base58 length classes (first byte 0x00, 0x0c, 0x80):
// the raw byte order (index order) and the order of their base58 texts differ, so a merge that
// compares texts is distinguishable from one that compares values.

type corpus struct {
	name string
	objs []*object.Object
	lbl  []string
	mask int // which objects of the full corpus are in play (0 = all)
}

var (
	cnr = ew.CID("c04")

	own1, own2, own3 = ew.Owner("u1"), ew.Owner("u2"), ew.Owner("u3")

	// relation targets (never stored)
	idLow  = ew.OIDWithPrefix("t-low", 0x0c)  // 43-char base58 text starting with a late letter
	idHigh = ew.OIDWithPrefix("t-high", 0x80) // 44-char base58 text starting with an early digit
	idZero = ew.OIDWithPrefix("t-zero", 0x00) // leading '1'

	parLow, parHigh   = ew.OIDWithPrefix("p-low", 0x0b), ew.OIDWithPrefix("p-high", 0x90)
	firstLow, firstHi = ew.OIDWithPrefix("f-low", 0x0d), ew.OIDWithPrefix("f-high", 0xa0)
	split1, split2    = ew.SplitIDFrom("x1"), ew.SplitIDFrom("x2")

	// values no object carries (for "NE <absent>" = match-all queries)
	idAbsent    = ew.OID("absent")
	ownAbsent   = ew.Owner("absent")
	splitAbsent = ew.SplitIDFrom("absent")
)

func plainCorpus() corpus {
	mk := func(l string, own user.ID, payload string, epoch uint64, attrs ...[2]string) *object.Object {
		return ew.Build(ew.ObjSpec{Cnr: cnr, ID: ew.OID("plain-" + l), Owner: own, Payload: []byte(payload), Type: object.TypeRegular, Epoch: epoch, Attrs: attrs})
	}
	return corpus{name: "plain", lbl: []string{"a", "b", "c", "d", "e", "f"}, objs: []*object.Object{
		mk("a", own1, "p1", 1, [2]string{"S", "a"}, [2]string{"N", "5"}),
		mk("b", own2, "p22", 2, [2]string{"S", "ab"}, [2]string{"N", "-3"}),
		mk("c", own1, "p1", 3, [2]string{"S", "b"}, [2]string{"N", "10"}),
		mk("d", own3, "0123456789", 1, [2]string{"S", "a"}, [2]string{"N", "5"}),
		mk("e", own2, "", 4, [2]string{"S", "B"}, [2]string{"N", "x7"}),
		mk("f", own1, "p333", 2, [2]string{"N", "0"}),
	}}
}

func relCorpus() corpus {
	par := func(id oid.ID, s, n string) *object.Object {
		return ew.Build(ew.ObjSpec{Cnr: cnr, ID: id, Owner: own1, Payload: nil, Type: object.TypeRegular, Epoch: 1, Attrs: [][2]string{{"S", s}, {"N", n}}})
	}
	pLow, pHigh := par(parLow, "pa", "7"), par(parHigh, "a", "-3")
	child := func(l string, p *object.Object, sp *object.SplitID, first oid.ID, payload string) *object.Object {
		return ew.Build(ew.ObjSpec{Cnr: cnr, ID: ew.OID("rel-" + l), Owner: own2, Payload: []byte(payload), Type: object.TypeRegular, Epoch: 2, Parent: p, SplitID: sp, First: first})
	}
	assoc := func(l string, typ object.Type, target oid.ID, own user.ID) *object.Object {
		return ew.Build(ew.ObjSpec{Cnr: cnr, ID: ew.OID("rel-" + l), Owner: own, Payload: []byte("t" + l), Type: typ, Epoch: 3, Associate: target})
	}
	return corpus{name: "rel", lbl: []string{"r1", "r2", "r3", "t1", "t2", "t3"}, objs: []*object.Object{
		child("r1", pHigh, split1, firstHi, "c1"),
		child("r2", pHigh, split1, firstHi, "c2"),
		child("r3", pLow, split2, firstLow, "c1"),
		assoc("t1", object.TypeTombstone, idHigh, own1),
		assoc("t2", object.TypeLock, idLow, own3),
		assoc("t3", object.TypeTombstone, idZero, own1),
	}}
}

// pick keeps the objects whose bit is set in mask.
func (c corpus) pick(mask int) corpus {
	r := corpus{name: c.name, mask: mask}
	for i := range c.objs {
		if mask&(1<<i) != 0 {
			r.objs = append(r.objs, c.objs[i])
			r.lbl = append(r.lbl, c.lbl[i])
		}
	}
	return r
}

func sumHex(payload string) string {
	h := sha256.Sum256([]byte(payload))
	return hex.EncodeToString(h[:])
}

var _ = cid.ID{}
