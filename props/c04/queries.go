package main

import (
	"fmt"

	"github.com/nspcc-dev/neofs-sdk-go/object"
)

type flt struct {
	Key string                 `json:"key"`
	Op  object.SearchMatchType `json:"op"`
	Val string                 `json:"val"`
}

// query is one client request shape (without page size and cursor).
type query struct {
	Name    string   `json:"name"`
	Class   string   `json:"class"` // attribute class for fingerprints
	Filters []flt    `json:"filters"`
	Attrs   []string `json:"attrs"` // requested attributes (empty = "attributeless")
}

func (q query) filters() object.SearchFilters {
	var fs object.SearchFilters
	for _, f := range q.Filters {
		switch f.Key {
		case object.FilterRoot:
			fs.AddRootFilter()
		case object.FilterPhysical:
			fs.AddPhyFilter()
		default:
			fs.AddFilter(f.Key, f.Val, f.Op)
		}
	}
	return fs
}

func opName(op object.SearchMatchType) string {
	switch op {
	case object.MatchStringEqual:
		return "EQ"
	case object.MatchStringNotEqual:
		return "NE"
	case object.MatchNotPresent:
		return "NOPRESENT"
	case object.MatchCommonPrefix:
		return "PREFIX"
	case object.MatchNumGT:
		return "GT"
	case object.MatchNumGE:
		return "GE"
	case object.MatchNumLT:
		return "LT"
	case object.MatchNumLE:
		return "LE"
	}
	return "FLAG"
}

const (
	eq  = object.MatchStringEqual
	ne  = object.MatchStringNotEqual
	pfx = object.MatchCommonPrefix
	gt  = object.MatchNumGT
	ge  = object.MatchNumGE
	lt  = object.MatchNumLT
	le  = object.MatchNumLE
)

// allQueries: every primary attribute class × matchers, each both with the primary attribute
// requested and "attributeless" (the node then forces the primary attribute, as ProcessSearch does).
func allQueries() []query {
	type pa struct {
		class, key string
		fs         []flt
	}
	b58 := func(b []byte) string { return b58enc(b) }
	var ps []pa
	add := func(class, key string, fs ...flt) {
		ps = append(ps, pa{class, key, fs})
	}
	// user string attribute
	add("user-string", "S", flt{"S", pfx, ""}, flt{"S", pfx, "a"}, flt{"S", eq, "a"}, flt{"S", ne, "a"})
	// user numeric attribute: numeric and string matchers
	add("user-numeric", "N", flt{"N", ge, "-100"}, flt{"N", gt, "0"}, flt{"N", le, "5"}, flt{"N", lt, "6"})
	add("user-numeric-as-string", "N", flt{"N", pfx, ""}, flt{"N", ne, "5"}, flt{"N", eq, "5"})
	// owner
	// (COMMON_PREFIX "" is refused for Base58/UUID-typed attributes, "NE <absent value>" is their match-all query)
	add("owner", object.FilterOwnerID, flt{object.FilterOwnerID, ne, b58(ownAbsent[:])}, flt{object.FilterOwnerID, eq, b58(own1[:])}, flt{object.FilterOwnerID, ne, b58(own1[:])})
	// payload checksum
	add("payload-checksum", object.FilterPayloadChecksum, flt{object.FilterPayloadChecksum, pfx, ""}, flt{object.FilterPayloadChecksum, eq, sumHex("p1")}, flt{object.FilterPayloadChecksum, ne, sumHex("p1")})
	// payload size
	add("payload-size", object.FilterPayloadSize, flt{object.FilterPayloadSize, ge, "0"}, flt{object.FilterPayloadSize, gt, "2"}, flt{object.FilterPayloadSize, le, "3"})
	add("payload-size-as-string", object.FilterPayloadSize, flt{object.FilterPayloadSize, pfx, ""})
	// creation epoch
	add("creation-epoch", object.FilterCreationEpoch, flt{object.FilterCreationEpoch, ge, "0"}, flt{object.FilterCreationEpoch, lt, "3"})
	// type, version
	add("type", object.FilterType, flt{object.FilterType, pfx, ""}, flt{object.FilterType, eq, "REGULAR"}, flt{object.FilterType, ne, "REGULAR"})
	add("version", object.FilterVersion, flt{object.FilterVersion, pfx, ""})
	// split relations
	add("split-id", object.FilterSplitID, flt{object.FilterSplitID, ne, splitAbsent.String()}, flt{object.FilterSplitID, eq, split1.String()}, flt{object.FilterSplitID, ne, split1.String()})
	add("parent", object.FilterParentID, flt{object.FilterParentID, ne, b58(idAbsent[:])}, flt{object.FilterParentID, eq, b58(parHigh[:])}, flt{object.FilterParentID, ne, b58(parHigh[:])})
	add("first-part", object.FilterFirstSplitObject, flt{object.FilterFirstSplitObject, ne, b58(idAbsent[:])}, flt{object.FilterFirstSplitObject, eq, b58(firstHi[:])}, flt{object.FilterFirstSplitObject, ne, b58(firstHi[:])})
	// associated object
	add("associate", object.AttributeAssociatedObject, flt{object.AttributeAssociatedObject, ne, b58(idAbsent[:])}, flt{object.AttributeAssociatedObject, eq, b58(idHigh[:])}, flt{object.AttributeAssociatedObject, ne, b58(idHigh[:])})
	// flags
	add("root-flag", object.FilterRoot, flt{object.FilterRoot, 0, ""})
	add("phy-flag", object.FilterPhysical, flt{object.FilterPhysical, 0, ""})
	// NOT_PRESENT primary (ID-sorted iteration)
	add("not-present", "S", flt{"S", object.MatchNotPresent, ""})

	var qs []query
	for _, p := range ps {
		for _, f := range p.fs {
			base := fmt.Sprintf("%s %s %q", p.class, opName(f.Op), f.Val)
			qs = append(qs,
				query{Name: base + " attrs=[primary]", Class: p.class, Filters: []flt{f}, Attrs: []string{p.key}},
				query{Name: base + " attributeless", Class: p.class, Filters: []flt{f}},
			)
		}
	}
	// several filters
	qs = append(qs,
		query{Name: "user-string PREFIX \"\" AND type EQ REGULAR attrs=[S]", Class: "user-string+secondary", Filters: []flt{{"S", pfx, ""}, {object.FilterType, eq, "REGULAR"}}, Attrs: []string{"S"}},
		query{Name: "user-numeric GE -100 AND LE 5 attrs=[N]", Class: "user-numeric+range", Filters: []flt{{"N", ge, "-100"}, {"N", le, "5"}}, Attrs: []string{"N"}},
		query{Name: "user-numeric GE -100 AND owner NE u1 attrs=[N]", Class: "user-numeric+secondary", Filters: []flt{{"N", ge, "-100"}, {object.FilterOwnerID, ne, b58(own1[:])}}, Attrs: []string{"N"}},
		// several filters on the primary attribute mixing matcher kinds: the first filter alone selects the
		// index (and so the order of every per-shard list); values of N and of the payload size are chosen
		// so that their string and numeric orders differ (-3 0 10 5 / 0 10 2 3 4)
		query{Name: "user-numeric NE zzz AND GE -100 attrs=[N]", Class: "mixed-kinds:string-first+numeric-later", Filters: []flt{{"N", ne, "zzz"}, {"N", ge, "-100"}}, Attrs: []string{"N"}},
		query{Name: "user-numeric NE zzz AND GE -100 attributeless", Class: "mixed-kinds:string-first+numeric-later", Filters: []flt{{"N", ne, "zzz"}, {"N", ge, "-100"}}},
		query{Name: "user-numeric PREFIX \"\" AND LE 10 attrs=[N]", Class: "mixed-kinds:string-first+numeric-later", Filters: []flt{{"N", pfx, ""}, {"N", le, "10"}}, Attrs: []string{"N"}},
		query{Name: "user-numeric NE 5 AND GT -5 AND LT 100 attrs=[N,S]", Class: "mixed-kinds:string-first+numeric-later", Filters: []flt{{"N", ne, "5"}, {"N", gt, "-5"}, {"N", lt, "100"}}, Attrs: []string{"N", "S"}},
		query{Name: "payload-size PREFIX \"\" AND GE 0 attrs=[size]", Class: "mixed-kinds:string-first+numeric-later", Filters: []flt{{object.FilterPayloadSize, pfx, ""}, {object.FilterPayloadSize, ge, "0"}}, Attrs: []string{object.FilterPayloadSize}},
		query{Name: "user-numeric GE -100 AND NE 5 attrs=[N]", Class: "mixed-kinds:numeric-first+string-later", Filters: []flt{{"N", ge, "-100"}, {"N", ne, "5"}}, Attrs: []string{"N"}},
		query{Name: "user-numeric GE -100 AND NE 5 attributeless", Class: "mixed-kinds:numeric-first+string-later", Filters: []flt{{"N", ge, "-100"}, {"N", ne, "5"}}},
		query{Name: "user-numeric LT 100 AND PREFIX 1 attrs=[N]", Class: "mixed-kinds:numeric-first+string-later", Filters: []flt{{"N", lt, "100"}, {"N", pfx, "1"}}, Attrs: []string{"N"}},
		query{Name: "payload-size GT 0 AND NE 3 attrs=[size]", Class: "mixed-kinds:numeric-first+string-later", Filters: []flt{{object.FilterPayloadSize, gt, "0"}, {object.FilterPayloadSize, ne, "3"}}, Attrs: []string{object.FilterPayloadSize}},
		// additional requested attributes
		query{Name: "user-string PREFIX \"\" attrs=[S,N,owner]", Class: "user-string+more-attrs", Filters: []flt{{"S", pfx, ""}}, Attrs: []string{"S", "N", object.FilterOwnerID}},
		query{Name: "type PREFIX \"\" attrs=[type,associate]", Class: "type+more-attrs", Filters: []flt{{object.FilterType, pfx, ""}}, Attrs: []string{object.FilterType, object.AttributeAssociatedObject}},
		// unfiltered listing
		query{Name: "unfiltered", Class: "unfiltered"},
	)
	return qs
}
