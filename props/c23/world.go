package main

// svcworld for C23: the real getsvc.Service over a real 1-shard StorageEngine (FSTree + metabase on /dev/shm) as
// local storage, and a NeoFSNetwork fake that knows only the local node. Everything an object read needs is local;
// the client constructor refuses (and counts) any attempt to go remote.

import (
	"bytes"
	"context"
	"crypto/sha256"
	"errors"
	"fmt"
	"os"
	"path/filepath"
	"sync/atomic"

	"github.com/nspcc-dev/neo-go/pkg/crypto/keys"
	iec "github.com/nspcc-dev/neofs-node/internal/ec"
	clientcore "github.com/nspcc-dev/neofs-node/pkg/core/client"
	"github.com/nspcc-dev/neofs-node/pkg/local_object_storage/blobstor/fstree"
	"github.com/nspcc-dev/neofs-node/pkg/local_object_storage/engine"
	meta "github.com/nspcc-dev/neofs-node/pkg/local_object_storage/metabase"
	"github.com/nspcc-dev/neofs-node/pkg/local_object_storage/shard"
	getsvc "github.com/nspcc-dev/neofs-node/pkg/services/object/get"
	objutil "github.com/nspcc-dev/neofs-node/pkg/services/object/util"
	storage "github.com/nspcc-dev/neofs-node/pkg/util/state/session"
	cid "github.com/nspcc-dev/neofs-sdk-go/container/id"
	"github.com/nspcc-dev/neofs-sdk-go/netmap"
	"github.com/nspcc-dev/neofs-sdk-go/object"
	oid "github.com/nspcc-dev/neofs-sdk-go/object/id"
	sessionv2 "github.com/nspcc-dev/neofs-sdk-go/session/v2"
	"github.com/nspcc-dev/neofs-sdk-go/user"
	"go.uber.org/zap"
)

const currentEpoch = 100

func keyFrom(label string) *keys.PrivateKey {
	h := sha256.Sum256([]byte("verif-c23-" + label))
	k, err := keys.NewPrivateKeyFromBytes(h[:])
	if err != nil {
		panic(err)
	}
	return k
}

func idFrom(label string) (id oid.ID) {
	h := sha256.Sum256([]byte("verif-c23-oid-" + label))
	copy(id[:], h[:])
	return
}

func cidFrom(label string) (id cid.ID) {
	h := sha256.Sum256([]byte("verif-c23-cid-" + label))
	copy(id[:], h[:])
	return
}

var (
	ownerKey    = keyFrom("owner")
	nodeKey     = keyFrom("node")
	ownerSigner = user.NewAutoIDSignerRFC6979(ownerKey.PrivateKey)
)

type epochState struct{}

func (epochState) CurrentEpoch() uint64 { return currentEpoch }

type paymentsStub struct{}

func (paymentsStub) PaymentsDisabled() bool            { return true }
func (paymentsStub) UnpaidSince(cid.ID) (int64, error) { return -1, nil }

type sessStore struct{}

func (sessStore) GetToken(user.ID) *storage.PrivateToken                       { return nil }
func (sessStore) FindTokenBySubjects([]sessionv2.Target) *storage.PrivateToken { return nil }

// network: container -> EC rule (nil = REP 1); only the local node exists
type network struct {
	local netmap.NodeInfo
	ec    func(cid.ID) *iec.Rule
}

func (n *network) GetNodesForObject(a oid.Address) ([][]netmap.NodeInfo, []uint, []iec.Rule, error) {
	if r := n.ec(a.Container()); r != nil {
		return [][]netmap.NodeInfo{{n.local}}, nil, []iec.Rule{*r}, nil
	}
	return [][]netmap.NodeInfo{{n.local}}, []uint{1}, nil, nil
}

func (n *network) IsLocalNodePublicKey(b []byte) bool { return bytes.Equal(b, n.local.PublicKey()) }

type noClients struct{ calls *atomic.Int64 }

func (c noClients) Get(context.Context, netmap.NodeInfo) (clientcore.MultiAddressClient, error) {
	c.calls.Add(1)
	return nil, errors.New("no remote nodes in this world")
}

type world struct {
	dir         string
	eng         *engine.StorageEngine
	svc         *getsvc.Service
	remoteCalls atomic.Int64
	ecOf        map[cid.ID]*iec.Rule
}

var worldSeq atomic.Int64

func newWorld(ecOf map[cid.ID]*iec.Rule) (*world, error) {
	w := &world{ecOf: ecOf}
	w.dir = filepath.Join("/dev/shm", fmt.Sprintf("verif-c23-%d-%d", os.Getpid(), worldSeq.Add(1)))
	if err := os.MkdirAll(w.dir, 0o700); err != nil {
		return nil, err
	}
	w.eng = engine.New(engine.WithLogger(zap.NewNop()))
	_, err := w.eng.AddShard(
		shard.WithLogger(zap.NewNop()),
		shard.WithBlobstor(fstree.New(fstree.WithPath(filepath.Join(w.dir, "fstree")), fstree.WithDepth(1))),
		shard.WithMetaBaseOptions(
			meta.WithPath(filepath.Join(w.dir, "meta")),
			meta.WithPermissions(0o700),
			meta.WithEpochState(epochState{}),
			meta.WithLogger(zap.NewNop()),
		),
		shard.WithContainerPayments(paymentsStub{}),
	)
	if err != nil {
		return nil, fmt.Errorf("add shard: %w", err)
	}
	if err := w.eng.Init(); err != nil {
		return nil, fmt.Errorf("engine init: %w", err)
	}
	nw := &network{ec: func(c cid.ID) *iec.Rule { return w.ecOf[c] }}
	nw.local.SetPublicKey(nodeKey.PublicKey().Bytes())
	nw.local.SetNetworkEndpoints("/ip4/10.0.0.1/tcp/8080")
	k := nodeKey.PrivateKey
	lg := zap.NewNop()
	if os.Getenv("C23_DEBUG") != "" {
		lg, _ = zap.NewDevelopment()
	}
	w.svc = getsvc.New(nw,
		getsvc.WithLogger(lg),
		getsvc.WithLocalStorageEngine(w.eng),
		getsvc.WithClientConstructor(noClients{&w.remoteCalls}),
		getsvc.WithKeyStorage(objutil.NewKeyStorage(&k, sessStore{}, epochState{})),
	)
	return w, nil
}

func (w *world) put(o object.Object) error {
	return w.eng.Put(context.Background(), &o, nil)
}

func (w *world) close() {
	if w.eng != nil {
		_ = w.eng.Close()
	}
	_ = os.RemoveAll(w.dir)
}
