// C23: reading a split or erasure-coded object returns exactly its original bytes.
//
// Layouts (layouts.go): object stored whole; size-split v2 and v1, with and without the link object, split limit 1..4;
// EC 2/1, 3/1, 2/2 with EVERY set of at most `parity` parts not stored; size-split object whose children are EC parts.
// Payload sizes {0,1,2,3,5,8,13}. All objects live in a real 1-shard StorageEngine that is the local storage of the
// real getsvc.Service.
// Requests: Get (whole), Get with every range mode (offset+length, inclusive bounds, from, suffix) and GetRange, with
// every argument (pair) from 0..len+2 plus huge constants.
// Oracle (from the property text and the API description of ranges): satisfiable range -> exactly payload[off:off+ln]
// and no error; unsatisfiable -> an error that is apistatus.ErrObjectOutOfRange and no payload bytes.
package main

import (
	"bytes"
	"context"
	"errors"
	"fmt"
	"math"
	"os"
	"os/signal"
	"sort"
	"sync"
	"sync/atomic"
	"syscall"

	iec "github.com/nspcc-dev/neofs-node/internal/ec"
	"github.com/nspcc-dev/neofs-node/pkg/services/object/common"
	getsvc "github.com/nspcc-dev/neofs-node/pkg/services/object/get"
	objutil "github.com/nspcc-dev/neofs-node/pkg/services/object/util"
	"github.com/nspcc-dev/neofs-node/verif/lib/enumx"
	"github.com/nspcc-dev/neofs-node/verif/lib/ev"
	apistatus "github.com/nspcc-dev/neofs-sdk-go/client/status"
	cid "github.com/nspcc-dev/neofs-sdk-go/container/id"
	"github.com/nspcc-dev/neofs-sdk-go/object"
	oid "github.com/nspcc-dev/neofs-sdk-go/object/id"
)

var (
	r       *ev.Run
	classes sync.Map
)

func class(s string) { classes.Store(s, true) }

var violClasses sync.Map

func viol(fp, what string, rp any) {
	n, _ := violClasses.LoadOrStore(fp, new(atomic.Int64))
	n.(*atomic.Int64).Add(1)
	r.Violation(fp, what, rp)
}

type request struct {
	Mode string // get | offlen | bounds | from | suffix | getrange
	A, B uint64
}

type tcase struct {
	Layout layout // exported fields identify the layout
	Req    request
}

// reference: what the request denotes on a payload of n bytes
func refRange(q request, n uint64) (off, ln uint64, sat bool) {
	switch q.Mode {
	case "get":
		return 0, n, true
	case "offlen", "getrange":
		if q.B == 0 {
			// zero length: "whole payload" iff offset is zero too
			return 0, n, q.A == 0
		}
		if q.A > n || q.B > n-q.A {
			return 0, 0, false
		}
		return q.A, q.B, true
	case "bounds":
		if q.A > q.B || q.A >= n {
			return 0, 0, false
		}
		last := q.B
		if last > n-1 {
			last = n - 1
		}
		return q.A, last - q.A + 1, true
	case "from":
		if q.A >= n {
			return 0, 0, false
		}
		return q.A, n - q.A, true
	case "suffix":
		if q.A == 0 {
			return 0, 0, false
		}
		ln = q.A
		if ln > n {
			ln = n
		}
		return n - ln, ln, true
	}
	panic(q.Mode)
}

type capWriter struct {
	hdr  *object.Object
	hdrs int
	data []byte
}

func (w *capWriter) WriteHeader(o *object.Object) error {
	w.hdrs++
	c := *o
	w.hdr = &c
	return nil
}

func (w *capWriter) WriteChunk(p []byte) error {
	w.data = append(w.data, p...)
	return nil
}

func doRequest(w *world, l *layout, q request) (*capWriter, error) {
	cw := &capWriter{}
	addr := oid.NewAddress(l.cnr, l.parent)
	cp := objutil.CommonPrmFromRequest(2, nil, common.RequestTokens{})
	ctx := context.Background()
	if q.Mode == "getrange" {
		var p getsvc.RangePrm
		p.SetCommonParameters(cp)
		p.WithAddress(addr)
		p.WithContainer(l.cnrObj)
		p.SetChunkWriter(cw)
		rng := object.NewRange()
		rng.SetOffset(q.A)
		rng.SetLength(q.B)
		p.SetRange(rng)
		return cw, w.svc.GetRange(ctx, p)
	}
	var p getsvc.Prm
	p.SetCommonParameters(cp)
	p.WithAddress(addr)
	p.WithContainer(l.cnrObj)
	p.SetObjectWriter(cw)
	switch q.Mode {
	case "offlen":
		rng := object.NewRange()
		rng.SetOffset(q.A)
		rng.SetLength(q.B)
		p.SetRange(rng)
	case "bounds":
		p.SetRangeBounds(q.A, q.B)
	case "from":
		p.SetRangeFrom(q.A)
	case "suffix":
		p.SetRangeSuffix(q.A)
	}
	return cw, w.svc.Get(ctx, p)
}

func missClass(l *layout) string {
	if l.D == 0 {
		return ""
	}
	allData := uint64(1)<<uint(l.D) - 1
	dm := l.Missing & allData
	switch {
	case l.Missing == 0:
		return ":missing=none"
	case dm == 0:
		return ":missing=parity-only"
	case dm == allData:
		return ":missing=all-data-parts"
	case dm&1 != 0:
		return ":missing=part0"
	}
	return ":missing=data-but-not-part0"
}

func symptom(got, want []byte) string {
	switch {
	case len(got) == 0:
		return "empty-answer"
	case len(got) > len(want) && bytes.Equal(got[:len(want)], want):
		return "extra-bytes-after-the-right-ones"
	case len(got) < len(want) && bytes.Equal(want[:len(got)], got):
		return "truncated"
	}
	return "other-bytes"
}

func errClass(err error) string {
	switch {
	case errors.Is(err, apistatus.ErrObjectNotFound):
		return "not-found"
	case errors.Is(err, apistatus.ErrObjectOutOfRange):
		return "out-of-range"
	}
	return "other-error"
}

func layoutClass(l *layout) string {
	s := l.Kind
	if l.Kind == "v1" || l.Kind == "v2" || l.Kind == "v2+ec" {
		if l.Link {
			s += "+link"
		} else {
			s += "-link"
		}
	}
	return s + missClass(l)
}

func rangeClass(l *layout, q request, off, ln uint64, sat bool) string {
	if !sat {
		return "unsatisfiable"
	}
	n := uint64(l.Size)
	if n == 0 {
		return "empty-payload"
	}
	if ln == 0 {
		return "zero-bytes"
	}
	unit := uint64(l.Limit)
	if unit == 0 && l.D > 0 {
		unit = (n + uint64(l.D) - 1) / uint64(l.D)
	}
	s := "partial"
	if off == 0 && ln == n {
		s = "full"
	}
	if unit > 0 {
		if off/unit != (off+ln-1)/unit {
			s += ":crosses-piece-boundary"
		} else {
			s += ":inside-one-piece"
		}
	}
	return s
}

func check(w *world, l *layout, q request) {
	n := uint64(l.Size)
	off, ln, sat := refRange(q, n)
	c := tcase{Layout: *l, Req: q}
	var cw *capWriter
	var err error
	func() {
		defer func() {
			if p := recover(); p != nil {
				op := "range"
				if q.Mode == "get" {
					op = "get"
				}
				viol("panic:"+layoutClass(l)+":"+op, fmt.Sprintf("%s %s(%d,%d) on %d bytes: read path panicked: %v", l.label(), q.Mode, q.A, q.B, n, p), c)
				cw = nil
			}
		}()
		cw, err = doRequest(w, l, q)
	}()
	r.Eval(1)
	if cw == nil {
		return
	}
	lc := layoutClass(l)
	rc := rangeClass(l, q, off, ln, sat)
	op := "range"
	if q.Mode == "get" {
		op = "get"
	}
	fp := lc + ":" + op // violation fingerprint: layout class + operation (+ symptom); range mode and position are in the message
	okc := lc + ":" + q.Mode + ":" + rc
	desc := func() string {
		return fmt.Sprintf("%s %s(%d,%d) on %d bytes", l.label(), q.Mode, q.A, q.B, n)
	}
	if q.Mode == "getrange" && q.B == 0 {
		// zero-length legacy range is refused at the API layer before it reaches the service; only recorded
		class("getrange-zero-length:" + fmt.Sprint(err != nil))
		return
	}
	if !sat {
		if err == nil {
			viol("unsatisfiable-range-answered:"+fp, fmt.Sprintf("%s: no error, %d bytes %x returned", desc(), len(cw.data), cw.data), c)
			return
		}
		if !errors.Is(err, apistatus.ErrObjectOutOfRange) {
			viol("unsatisfiable-range-not-reported-as-out-of-range:"+fp+":"+errClass(err), fmt.Sprintf("%s: error is %v", desc(), err), c)
			return
		}
		if len(cw.data) > 0 {
			viol("unsatisfiable-range-leaked-bytes:"+fp, fmt.Sprintf("%s: %x written before the error", desc(), cw.data), c)
			return
		}
		class("out-of-range:" + lc + ":" + q.Mode)
		r.Nontrivial("oor|" + l.label() + "|" + fmt.Sprint(q))
		return
	}
	want := l.payload[off : off+ln]
	if err != nil {
		if q.Mode == "suffix" && n == 0 && errors.Is(err, apistatus.ErrObjectOutOfRange) {
			class("suffix-of-empty-payload:out-of-range")
			return
		}
		viol("read-failed:"+fp+":"+errClass(err), fmt.Sprintf("%s: want %x, got error %v (after %d bytes)", desc(), want, err, len(cw.data)), c)
		return
	}
	if !bytes.Equal(cw.data, want) {
		viol("wrong-bytes:"+fp+":"+symptom(cw.data, want), fmt.Sprintf("%s: want %x got %x", desc(), want, cw.data), c)
		return
	}
	if cw.hdr != nil && cw.hdr.GetID() != l.parent {
		viol("wrong-header:"+fp, fmt.Sprintf("%s: header of %s returned, requested %s", desc(), cw.hdr.GetID(), l.parent), c)
		return
	}
	if q.Mode == "get" {
		if cw.hdr == nil || cw.hdrs != 1 {
			viol("header-count:"+fp, fmt.Sprintf("%s: %d headers written", desc(), cw.hdrs), c)
			return
		}
		if cw.hdr.PayloadSize() != n {
			viol("wrong-header-size:"+fp, fmt.Sprintf("%s: header declares %d bytes", desc(), cw.hdr.PayloadSize()), c)
			return
		}
	}
	class("ok:" + okc)
	if l.Kind != "whole" && ln > 0 {
		r.Nontrivial("ok|" + l.label() + "|" + fmt.Sprint(off, ln, q.Mode))
	}
}

func requestsFor(n int, quick bool) []request {
	huge := []uint64{math.MaxUint64, math.MaxUint64 - 1, 1 << 63, 1 << 32}
	var vals []uint64
	for i := 0; i <= n+2; i++ {
		vals = append(vals, uint64(i))
	}
	vals = append(vals, huge...)
	rs := []request{{Mode: "get"}}
	for _, a := range vals {
		rs = append(rs, request{Mode: "from", A: a}, request{Mode: "suffix", A: a})
		for _, b := range vals {
			rs = append(rs, request{Mode: "offlen", A: a, B: b}, request{Mode: "bounds", A: a, B: b}, request{Mode: "getrange", A: a, B: b})
		}
	}
	return rs
}

var worlds struct {
	sync.Mutex
	all []*world
}

func cleanup() {
	worlds.Lock()
	for _, w := range worlds.all {
		w.close()
	}
	worlds.all = nil
	worlds.Unlock()
}

func main() {
	r = ev.Start("C23", ev.Exploration)
	sig := make(chan os.Signal, 1)
	signal.Notify(sig, syscall.SIGINT, syscall.SIGTERM)
	go func() { <-sig; cleanup(); os.Exit(2) }()

	layouts := allLayouts(r.Thorough())
	ecOf := map[cid.ID]*iec.Rule{}
	for _, l := range layouts {
		ecOf[l.cnr] = l.rule
	}
	getWorld := func() *world {
		w, err := newWorld(ecOf)
		if err != nil {
			cleanup()
			r.Fatal("world: %v", err)
		}
		worlds.Lock()
		worlds.all = append(worlds.all, w)
		worlds.Unlock()
		return w
	}
	load := func(w *world, l *layout) {
		for _, o := range l.objs {
			if err := w.put(o); err != nil {
				cleanup()
				r.Fatal("put %s: %v", l.label(), err)
			}
		}
	}

	if r.Replay != "" {
		var c tcase
		r.LoadReplay(&c)
		for _, l := range layouts {
			if l.label() == c.Layout.label() {
				w := getWorld()
				load(w, l)
				check(w, l, c.Req)
			}
		}
		cleanup()
		r.Finish()
	}

	var notExhaustive atomic.Bool
	pool := sync.Pool{New: func() any { return getWorld() }}
	var remote atomic.Int64
	enumx.Parallel(len(layouts), func(i int) {
		if r.Expired() {
			notExhaustive.Store(true)
			return
		}
		l := layouts[i]
		w := pool.Get().(*world)
		defer pool.Put(w)
		load(w, l)
		for _, q := range requestsFor(l.Size, r.Quick()) {
			check(w, l, q)
		}
		remote.Add(w.remoteCalls.Swap(0))
		if r.WantSample() && l.Kind == "v2+ec" && l.Missing != 0 {
			r.Sample(map[string]any{"layout": l.label(), "stored_objects": len(l.objs)})
		}
	})
	cleanup()

	var names []string
	classes.Range(func(k, _ any) bool { names = append(names, k.(string)); return true })
	sort.Strings(names)
	vc := map[string]int64{}
	violClasses.Range(func(k, v any) bool { vc[k.(string)] = v.(*atomic.Int64).Load(); return true })
	if len(vc) > 0 {
		r.Set("violation_classes", vc)
	}
	r.Set("outcome_classes", len(names))
	r.Set("outcome_class_names", names)
	r.Set("layouts", len(layouts))
	r.Set("attempts_to_go_remote", remote.Load())
	kinds := map[string]int{}
	for _, l := range layouts {
		kinds[layoutClass(l)]++
	}
	r.Set("layouts_by_class", kinds)
	tier := "sizes {0,1,2,3,5,8,13}, split limit 1..4, EC {2/1,3/1,2/2}"
	if r.Thorough() {
		tier = "sizes {0,1,2,3,5,8,13,21}, split limit 1..5, EC {2/1,3/1,2/2,3/2,1/1}"
	}
	r.Rule("layouts (" + tier + "): whole x every size; v1/v2 x link/no-link x every size > limit; EC rules x every size x every missing-part set of size <= parity; v2 split whose children are EC 2/1 parts x link/no-link x {no part, part 0, 1 or 2 of every child missing}. requests per layout: Get, and offset+length / inclusive bounds / GetRange for every pair, from / suffix for every value, values 0..len+2 and {2^64-1, 2^64-2, 2^63, 2^32}. one evaluation = one request checked against the reference; non-trivial = distinct (layout, satisfiable non-empty range) on a non-whole layout answered correctly, or distinct unsatisfiable request refused with out-of-range")
	r.Exhaustive(!notExhaustive.Load())
	r.Assume("all pieces are on the local node (real 1-shard engine); remote fetching, forwarding and multi-node EC placement are not exercised",
		"payload contents are one fixed pattern of distinct bytes; sizes up to 13 and split limits up to 4 stand for the child/part boundary arithmetic of larger objects (the quantifier's 64 KiB / 1-4 KiB ranges are not reached)",
		"a zero-length legacy GetRange is an API-level error and only recorded; suffix range on an empty payload may answer empty or out-of-range",
		"v1 layouts are built by hand after the legacy format (split ID, previous links, link object with children list and empty payload)")
	r.Finish()
}
