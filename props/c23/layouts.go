package main

import (
	"bytes"
	"fmt"
	"strings"

	iec "github.com/nspcc-dev/neofs-node/internal/ec"
	"github.com/nspcc-dev/neofs-node/verif/lib/enumx"
	"github.com/nspcc-dev/neofs-sdk-go/container"
	cid "github.com/nspcc-dev/neofs-sdk-go/container/id"
	"github.com/nspcc-dev/neofs-sdk-go/netmap"
	"github.com/nspcc-dev/neofs-sdk-go/object"
	oid "github.com/nspcc-dev/neofs-sdk-go/object/id"
	"github.com/nspcc-dev/neofs-sdk-go/version"
)

// layout = how one logical object of Size bytes is physically stored on the node.
type layout struct {
	Kind    string // whole | v1 | v2 | ec | v2+ec
	Size    int
	Limit   int    // split limit (v1/v2)
	Link    bool   // link object stored
	D, P    int    // EC rule
	Missing uint64 // bit mask of EC parts that are NOT stored (|Missing| <= P), per physical object for v2+ec

	cnr     cid.ID
	cnrObj  container.Container
	parent  oid.ID
	payload []byte
	objs    []object.Object
	rule    *iec.Rule
}

func (l *layout) label() string {
	return fmt.Sprintf("%s/size=%d/limit=%d/link=%v/ec=%d.%d/missing=%b", l.Kind, l.Size, l.Limit, l.Link, l.D, l.P, l.Missing)
}

func must(err error) {
	if err != nil {
		panic(err)
	}
}

func pay(n int) []byte {
	b := make([]byte, n)
	for i := range b {
		b[i] = byte(0xA0 + i) // all bytes distinct for n <= 13: any misplaced byte is visible
	}
	return b
}

func hdr(cnr cid.ID) object.Object {
	var o object.Object
	v := version.Current()
	o.SetVersion(&v)
	o.SetContainerID(cnr)
	o.SetOwner(ownerSigner.UserID())
	o.SetCreationEpoch(currentEpoch - 1)
	o.SetType(object.TypeRegular)
	return o
}

func seal(o *object.Object, payload []byte, sign bool) {
	o.SetPayload(payload)
	o.SetPayloadSize(uint64(len(payload)))
	o.CalculateAndSetPayloadChecksum()
	must(o.CalculateAndSetID())
	if sign {
		must(o.Sign(ownerSigner))
	}
}

func uuid4(x byte) []byte {
	b := bytes.Repeat([]byte{x}, 16)
	b[6] = 0x40 | x&0x0f
	b[8] = 0x80 | x&0x3f
	return b
}

func mkContainer(pol string) container.Container {
	var p netmap.PlacementPolicy
	must(p.DecodeString(pol))
	var c container.Container
	c.Init()
	c.SetOwner(ownerSigner.UserID())
	c.SetPlacementPolicy(p)
	return c
}

func fullParent(cnr cid.ID, payload []byte, extra ...object.Attribute) object.Object {
	p := hdr(cnr)
	p.SetAttributes(append([]object.Attribute{object.NewAttribute("FileName", "obj.bin")}, extra...)...)
	p.SetPayloadSize(uint64(len(payload)))
	p.SetPayloadChecksum(object.CalculatePayloadChecksum(payload))
	must(p.CalculateAndSetID())
	must(p.Sign(ownerSigner))
	return p
}

func chunksOf(p []byte, limit int) [][]byte {
	var res [][]byte
	for len(p) > limit {
		res = append(res, p[:limit])
		p = p[limit:]
	}
	return append(res, p)
}

// ecParts turns one physical object into its EC part objects (all of them).
func ecParts(rule iec.Rule, phys object.Object) []object.Object {
	payload := phys.Payload()
	parts, sums, err := iec.Encode(rule, bytes.Clone(payload)[:len(payload):len(payload)])
	must(err)
	par := phys
	par.SetPayload(nil)
	par.SetAttributes(append(par.Attributes(), object.NewAttribute(iec.AttributePartsHashes, strings.Join(sums, ",")))...)
	// the parent header changed: new ID and signature (this is what the PUT service's split modifier does
	// before the header is finalised)
	must(par.CalculateAndSetID())
	must(par.Sign(ownerSigner))
	var res []object.Object
	for i := range parts {
		po, err := iec.FormObjectForECPart(nil, par, bytes.Clone(parts[i]), iec.PartInfo{RuleIndex: 0, Index: i})
		must(err)
		res = append(res, po)
	}
	return res
}

func (l *layout) build() {
	l.cnr = cidFrom(l.label())
	l.payload = pay(l.Size)
	pol := "REP 1"
	if l.D > 0 {
		pol = fmt.Sprintf("EC %d/%d", l.D, l.P)
		l.rule = &iec.Rule{DataPartNum: uint8(l.D), ParityPartNum: uint8(l.P)}
	}
	l.cnrObj = mkContainer(pol)

	switch l.Kind {
	case "whole":
		o := hdr(l.cnr)
		o.SetAttributes(object.NewAttribute("FileName", "obj.bin"))
		seal(&o, l.payload, true)
		l.parent = o.GetID()
		l.objs = []object.Object{o}
	case "ec":
		o := hdr(l.cnr)
		o.SetAttributes(object.NewAttribute("FileName", "obj.bin"))
		seal(&o, l.payload, true)
		parts := ecParts(*l.rule, o)
		l.parent = parts[0].Parent().GetID()
		for i, p := range parts {
			if l.Missing&(1<<uint(i)) == 0 {
				l.objs = append(l.objs, p)
			}
		}
	case "v2", "v2+ec":
		full := fullParent(l.cnr, l.payload)
		l.parent = full.GetID()
		raw := hdr(l.cnr)
		raw.SetAttributes(object.NewAttribute("FileName", "obj.bin"))
		chunks := chunksOf(l.payload, l.Limit)
		var ids []oid.ID
		var measured []object.MeasuredObject
		var phys []object.Object
		for i, ch := range chunks {
			c := hdr(l.cnr)
			if i == 0 {
				c.SetParent(&raw)
			} else {
				c.SetFirstID(ids[0])
				c.SetPreviousID(ids[i-1])
			}
			if i == len(chunks)-1 {
				c.SetParent(&full)
				c.SetParentID(full.GetID())
			}
			seal(&c, ch, true)
			phys = append(phys, c)
			if l.Kind == "v2+ec" {
				// children are stored as EC parts; the chain references the EC parents' IDs
				ps := ecParts(*l.rule, c)
				ids = append(ids, ps[0].Parent().GetID())
				for j, p := range ps {
					if l.Missing&(1<<uint(j)) == 0 {
						l.objs = append(l.objs, p)
					}
				}
			} else {
				ids = append(ids, c.GetID())
				l.objs = append(l.objs, c)
			}
			var m object.MeasuredObject
			m.SetObjectID(ids[i])
			m.SetObjectSize(uint32(len(ch)))
			measured = append(measured, m)
		}
		if l.Link {
			k := hdr(l.cnr)
			k.SetType(object.TypeLink)
			k.SetFirstID(ids[0])
			k.SetParent(&full)
			k.SetParentID(full.GetID())
			var lk object.Link
			lk.SetObjects(measured)
			seal(&k, lk.Marshal(), true)
			l.objs = append(l.objs, k)
		}
	case "v1":
		full := fullParent(l.cnr, l.payload)
		l.parent = full.GetID()
		sid := object.NewSplitIDFromV2(uuid4(byte(l.Size*16 + l.Limit)))
		chunks := chunksOf(l.payload, l.Limit)
		var ids []oid.ID
		for i, ch := range chunks {
			c := hdr(l.cnr)
			c.SetSplitID(sid)
			if i > 0 {
				c.SetPreviousID(ids[i-1])
			}
			if i == len(chunks)-1 {
				c.SetParent(&full)
				c.SetParentID(full.GetID())
			}
			seal(&c, ch, true)
			ids = append(ids, c.GetID())
			l.objs = append(l.objs, c)
		}
		if l.Link {
			k := hdr(l.cnr)
			k.SetSplitID(sid)
			k.SetParent(&full)
			k.SetParentID(full.GetID())
			k.SetChildren(ids...)
			seal(&k, nil, true)
			l.objs = append(l.objs, k)
		}
	default:
		panic(l.Kind)
	}
}

func allLayouts(thorough bool) []*layout {
	sizes := []int{0, 1, 2, 3, 5, 8, 13}
	maxLimit := 4
	rules := [][2]int{{2, 1}, {3, 1}, {2, 2}}
	if thorough {
		sizes = append(sizes, 21)
		maxLimit = 5
		rules = append(rules, [2]int{3, 2}, [2]int{1, 1})
	}
	var ls []*layout
	for _, n := range sizes {
		ls = append(ls, &layout{Kind: "whole", Size: n})
	}
	for _, n := range sizes {
		for limit := 1; limit <= maxLimit; limit++ {
			if n <= limit {
				continue
			}
			for _, kind := range []string{"v2", "v1"} {
				for _, link := range []bool{true, false} {
					ls = append(ls, &layout{Kind: kind, Size: n, Limit: limit, Link: link})
				}
			}
		}
	}
	for _, r := range rules {
		for _, n := range sizes {
			enumx.Subsets(r[0]+r[1], func(m uint64) bool {
				if len(enumx.Bits(m)) <= r[1] {
					ls = append(ls, &layout{Kind: "ec", Size: n, D: r[0], P: r[1], Missing: m})
				}
				return true
			})
		}
	}
	// size-split object whose children are erasure coded (EC container), link present/absent, one part lost per child
	ecSplitSizes := []int{5, 8}
	if thorough {
		ecSplitSizes = []int{3, 5, 8, 13}
	}
	for _, n := range ecSplitSizes {
		for _, limit := range []int{2, 3, 4} {
			if n <= limit {
				continue
			}
			for _, link := range []bool{true, false} {
				for _, m := range []uint64{0, 1, 2, 4} {
					ls = append(ls, &layout{Kind: "v2+ec", Size: n, Limit: limit, Link: link, D: 2, P: 1, Missing: m})
				}
			}
		}
	}
	for _, l := range ls {
		l.build()
	}
	return ls
}
