package policer

import (
	"context"
	"errors"
	"fmt"
	"io"
	"slices"
	"strconv"
	"sync"
	"time"

	iec "github.com/nspcc-dev/neofs-node/internal/ec"
	"github.com/nspcc-dev/neofs-node/pkg/services/replicator"
	apistatus "github.com/nspcc-dev/neofs-sdk-go/client/status"
	cid "github.com/nspcc-dev/neofs-sdk-go/container/id"
	"github.com/nspcc-dev/neofs-sdk-go/netmap"
	"github.com/nspcc-dev/neofs-sdk-go/object"
	oid "github.com/nspcc-dev/neofs-sdk-go/object/id"
	"go.uber.org/zap"
)

func (p *Policer) processECPart(ctx context.Context, addr oid.Address, parent oid.ID, pi iec.PartInfo, ecRules []iec.Rule, nodeLists [][]netmap.NodeInfo) {
	if pi.RuleIndex >= len(ecRules) {
		p.log.Warn("local object with invalid EC rule index detected, deleting",
			zap.Stringer("object", addr), zap.Int("ruleIdx", pi.RuleIndex), zap.Int("totalRules", len(ecRules)))
		if err := p.deleteLocalObject(ctx, addr, true); err != nil {
			p.log.Error("failed to delete local object with invalid EC rule index",
				zap.Stringer("object", addr), zap.Error(err))
		}
		return
	}

	rule := ecRules[pi.RuleIndex]
	if pi.Index >= int(rule.DataPartNum+rule.ParityPartNum) {
		p.log.Warn("local object with invalid EC part index detected, deleting",
			zap.Stringer("object", addr), zap.Stringer("rule", rule), zap.Int("partIdx", pi.Index))
		if err := p.deleteLocalObject(ctx, addr, true); err != nil {
			p.log.Error("failed to delete local object with invalid EC part index",
				zap.Stringer("object", addr), zap.Error(err))
		}
		return
	}

	p.checkECParts(ctx, addr.Container(), parent, rule, pi.RuleIndex, pi.Index, addr.Object())
	p.processECPartByRule(ctx, rule, addr, pi.Index, nodeLists[pi.RuleIndex])
}

func (p *Policer) processECPartByRule(ctx context.Context, rule iec.Rule, addr oid.Address, partIdx int, nodes []netmap.NodeInfo) {
	var candidates []netmap.NodeInfo
	var maintenance bool
	headTimeout := time.Duration(-1)

	for i := range iec.NodeSequenceForPart(partIdx, int(rule.DataPartNum+rule.ParityPartNum), len(nodes)) {
		if p.network.IsLocalNodePublicKey(nodes[i].PublicKey()) {
			if len(candidates) == 0 {
				p.log.Debug("local node is optimal for EC part, hold",
					zap.Stringer("cid", addr.Container()), zap.Stringer("partOID", addr.Object()),
					zap.Stringer("rule", rule), zap.Int("partIdx", partIdx))
				return
			}
			break
		}

		if headTimeout < 0 {
			headTimeout = p.getHeadTimeout()
		}

		callCtx, cancel := context.WithTimeout(ctx, headTimeout)
		_, err := p.apiConns.headObject(callCtx, nodes[i], addr, true, nil)
		cancel()

		if err == nil {
			p.log.Info("EC part header successfully received from more optimal node, drop",
				zap.Stringer("cid", addr.Container()), zap.Stringer("partOID", addr.Object()),
				zap.Stringer("rule", rule), zap.Int("partIdx", partIdx),
				zap.Strings("node", slices.Collect(nodes[i].NetworkEndpoints())))
			p.dropRedundantLocalObject(ctx, addr, true)
			return
		}

		switch {
		default:
			p.log.Info("failed to receive EC part header from more optimal node, exclude",
				zap.Stringer("cid", addr.Container()), zap.Stringer("partOID", addr.Object()),
				zap.Stringer("rule", rule), zap.Int("partIdx", partIdx), zap.Error(err)) // error includes network addresses
		case errors.Is(err, apistatus.ErrNodeUnderMaintenance): // same as for REP rules
			p.log.Info("failed to receive EC part header from more optimal node due to its maintenance, continue",
				zap.Stringer("cid", addr.Container()), zap.Stringer("partOID", addr.Object()),
				zap.Stringer("rule", rule), zap.Int("partIdx", partIdx),
				zap.Strings("node", slices.Collect(nodes[i].NetworkEndpoints())))
			maintenance = true
		case errors.Is(err, apistatus.ErrObjectNotFound):
			candidates = append(candidates, nodes[i])
		}
	}

	if maintenance {
		// same as for REP rules
		p.log.Info("more optimal node for EC part is under maintenance, hold",
			zap.Stringer("cid", addr.Container()), zap.Stringer("partOID", addr.Object()),
			zap.Stringer("rule", rule), zap.Int("partIdx", partIdx))
		return
	}

	if len(candidates) == 0 {
		p.log.Info("local node is suboptimal for EC part but now there are no other candidates, hold",
			zap.Stringer("cid", addr.Container()), zap.Stringer("partOID", addr.Object()),
			zap.Stringer("rule", rule), zap.Int("partIdx", partIdx))
		return
	}

	p.log.Info("local node is suboptimal for EC part, moving to more optimal node...",
		zap.Stringer("cid", addr.Container()), zap.Stringer("partOID", addr.Object()),
		zap.Stringer("rule", rule), zap.Int("partIdx", partIdx), zap.Int("candidateNum", len(candidates)))

	var repRes singleReplication
	p.tryToReplicate(ctx, addr, 1, candidates, &repRes)
	if repRes.done {
		p.metrics.IncPolicerObjectReplicated(true)
		p.log.Info("EC part successfully moved to more optimal node, drop",
			zap.Stringer("cid", addr.Container()), zap.Stringer("partOID", addr.Object()),
			zap.Stringer("rule", rule), zap.Int("partIdx", partIdx), zap.Strings("newHolder", repRes.netAddresses))
		p.dropRedundantLocalObject(ctx, addr, true)
		return
	}

	p.log.Info("failed to move EC part to more optimal node, hold",
		zap.Stringer("cid", addr.Container()), zap.Stringer("partOID", addr.Object()),
		zap.Stringer("rule", rule), zap.Int("partIdx", partIdx), zap.Int("candidateNum", len(candidates)))
}

type singleReplication struct {
	done         bool
	netAddresses []string
}

func (x *singleReplication) SubmitSuccessfulReplication(node netmap.NodeInfo) {
	if x.done {
		panic("recall")
	}
	x.done = true
	x.netAddresses = slices.Collect(node.NetworkEndpoints())
}

func (p *Policer) checkECParts(ctx context.Context, cnr cid.ID, parent oid.ID, rule iec.Rule, ruleIdx, localPartIdx int, localPartID oid.ID) {
	parentAddr := oid.NewAddress(cnr, parent)

	sortedNodeLists, repRules, ecRules, err := p.network.GetNodesForObject(parentAddr)
	if err != nil {
		p.log.Warn("failed to select nodes for EC parent to check its parts",
			zap.Stringer("container", cnr), zap.Stringer("parent", parent),
			zap.Stringer("rule", rule), zap.Error(err))
		return
	}

	if ruleIdx >= len(ecRules) {
		p.log.Error("rule index overflows total number of EC rules in policy",
			zap.Stringer("container", cnr), zap.Stringer("parent", parent), zap.Stringer("rule", rule),
			zap.Int("rule_idx", ruleIdx), zap.Int("total_rules", len(ecRules)))
		return
	}

	totalParts := int(rule.DataPartNum + rule.ParityPartNum)
	if localPartIdx >= totalParts {
		p.log.Error("part index overflows total number of parts in the EC rule",
			zap.Stringer("container", cnr), zap.Stringer("parent", parent), zap.Stringer("rule", rule),
			zap.Int("rule_idx", ruleIdx), zap.Int("total_parts", totalParts))
		return
	}

	var missingIdx, skipIdx []int
	var parentHdr object.Object
	var partLen uint64
	mPartID := make(map[int]oid.ID, totalParts)
	ruleIdxAttr := strconv.Itoa(ruleIdx)
	headTimeout := p.getHeadTimeout()
	sortedNodes := sortedNodeLists[len(repRules)+ruleIdx]

headNextPart:
	for partIdx := range totalParts {
		if partIdx == localPartIdx {
			mPartID[partIdx] = localPartID
			continue
		}

		var partIdxAttr string

		for nodeIdx := range iec.NodeSequenceForPart(partIdx, totalParts, len(sortedNodes)) {
			var hdr object.Object
			local := p.network.IsLocalNodePublicKey(sortedNodes[nodeIdx].PublicKey())
			if local {
				hdr, err = p.localStorage.HeadECPart(ctx, cnr, parent, iec.PartInfo{RuleIndex: ruleIdx, Index: partIdx})
			} else {
				if partIdxAttr == "" {
					partIdxAttr = strconv.Itoa(partIdx)
				}
				hdr, err = p.headECPart(ctx, headTimeout, sortedNodes[nodeIdx], cnr, parent, ruleIdxAttr, partIdxAttr)
			}
			if err == nil {
				if parentHdr.GetID().IsZero() {
					ph := hdr.Parent()
					if ph == nil {
						p.log.Error("missing parent header in received EC part object",
							zap.Stringer("container", cnr), zap.Stringer("parent", parent), zap.Stringer("rule", rule),
							zap.Int("ruleIdx", ruleIdx), zap.Int("partIdx", partIdx), zap.Bool("local", local),
							zap.String("node", netmap.StringifyPublicKey(sortedNodes[nodeIdx])))

						return
					}

					parentHdr = *ph
					partLen = (parentHdr.PayloadSize() + uint64(rule.DataPartNum) - 1) / uint64(rule.DataPartNum)
				}

				if got := hdr.PayloadSize(); got != partLen {
					p.log.Error("unexpected payload len of EC part object received",
						zap.Stringer("container", cnr), zap.Stringer("parent", parent), zap.Stringer("rule", rule),
						zap.Int("ruleIdx", ruleIdx), zap.Int("partIdx", partIdx), zap.Bool("local", local),
						zap.String("node", netmap.StringifyPublicKey(sortedNodes[nodeIdx])), zap.Uint64("expected", partLen),
						zap.Uint64("got", got))
					return
				}

				mPartID[partIdx] = hdr.GetID()
				continue headNextPart
			}

			switch {
			case errors.Is(err, apistatus.ErrObjectAlreadyRemoved):
				return
			case errors.Is(err, apistatus.ErrNodeUnderMaintenance):
				// Server may store the part. We consider it unavailable, but we don't attempt to recreate it.
				// Once SN finishes maintenance, the part will likely become available.
				if len(missingIdx)+len(skipIdx) >= int(rule.ParityPartNum) {
					p.log.Warn("too many EC parts unavailable, recreation is impossible",
						zap.Stringer("container", cnr), zap.Stringer("parent", parent), zap.Stringer("rule", rule),
						zap.Int("unavailable", len(missingIdx)+len(skipIdx)))
					return
				}

				skipIdx = append(skipIdx, partIdx)
				continue headNextPart
			case errors.Is(err, apistatus.ErrObjectNotFound):
			default:
				p.log.Info("failed to get EC part header",
					zap.Stringer("container", cnr), zap.Stringer("parent", parent), zap.Stringer("rule", rule),
					zap.Int("ruleIdx", ruleIdx), zap.Int("partIdx", partIdx), zap.Bool("local", local), zap.Error(err))
			}
		}

		if len(missingIdx)+len(skipIdx) >= int(rule.ParityPartNum) {
			p.log.Warn("too many EC parts unavailable, recreation is impossible",
				zap.Stringer("container", cnr), zap.Stringer("parent", parent), zap.Stringer("rule", rule),
				zap.Int("unavailable", len(missingIdx)+len(skipIdx)))
			return
		}

		missingIdx = append(missingIdx, partIdx)
	}

	if len(missingIdx) == 0 {
		return
	}

	p.metrics.SetPolicerConsistency(false)
	p.hadReplicaShortage.Store(true)

	if parentHdr.GetID().IsZero() {
		// can only happen for 1/1 rule: local part is never HEADed in for-loop above and remote one is unreachable
		hdr, err := p.localStorage.Head(ctx, parentAddr, false)
		if err != nil {
			p.log.Info("failed to get EC parent header locally",
				zap.Stringer("container", cnr), zap.Stringer("parent", parent), zap.Stringer("rule", rule),
				zap.Int("ruleIdx", ruleIdx), zap.Error(err))
			return
		}

		parentHdr = *hdr
		partLen = (parentHdr.PayloadSize() + uint64(rule.DataPartNum) - 1) / uint64(rule.DataPartNum)
	}

	parts := make([][]byte, totalParts)
	required := make([]bool, totalParts)

getNextPart:
	for partIdx := range totalParts {
		if slices.Contains(skipIdx, partIdx) {
			continue
		}
		if slices.Contains(missingIdx, partIdx) {
			required[partIdx] = true
			continue
		}

		partID, ok := mPartID[partIdx]
		if !ok {
			panic(fmt.Sprintf("missing ID of part#%d after successful HEAD", partIdx))
		}

		if partIdx == localPartIdx {
			b, err := p.localStorage.GetRange(ctx, oid.NewAddress(cnr, partID), 0, 0)
			if err == nil {
				parts[partIdx] = b
				continue
			}

			p.log.Info("failed to RANGE EC part from local storage",
				zap.Stringer("container", cnr), zap.Stringer("parent", parent), zap.Stringer("rule", rule),
				zap.Int("ruleIdx", ruleIdx), zap.Int("partIdx", partIdx), zap.Stringer("partID", partID), zap.Error(err))
		}

		var partIdxAttr string
		var off, ln uint64
		for nodeIdx := range iec.NodeSequenceForPart(partIdx, totalParts, len(sortedNodes)) {
			if p.network.IsLocalNodePublicKey(sortedNodes[nodeIdx].PublicKey()) {
				if partIdx == localPartIdx { // done above
					continue
				}

				b, err := p.localStorage.GetRange(ctx, oid.NewAddress(cnr, partID), off, ln)
				if err != nil {
					p.log.Info("failed to RANGE EC part from local storage",
						zap.Stringer("container", cnr), zap.Stringer("parent", parent), zap.Stringer("rule", rule),
						zap.Int("ruleIdx", ruleIdx), zap.Int("partIdx", partIdx), zap.Stringer("partID", partID), zap.Error(err))
					continue
				}

				if parts[partIdx] == nil {
					parts[partIdx] = make([]byte, partLen)
				}

				copy(parts[partIdx][off:], b)
				continue getNextPart
			}

			if partIdxAttr == "" {
				partIdxAttr = strconv.Itoa(partIdx)
			}

			// TODO: this is the 1st place where we known IDs of EC parts in advance.
			//  Consider supporting direct requests of EC parts by ID, they are more lightweight.
			rc, err := p.apiConns.GetRange(ctx, sortedNodes[nodeIdx], cnr, parent, off, ln, []string{
				iec.AttributeRuleIdx, ruleIdxAttr,
				iec.AttributePartIdx, partIdxAttr,
			})
			if err != nil {
				p.log.Info("failed to open RANGE stream for EC part from remote node",
					zap.Stringer("container", cnr), zap.Stringer("parent", parent), zap.Stringer("rule", rule),
					zap.Int("ruleIdx", ruleIdx), zap.Int("partIdx", partIdx), zap.Stringer("partID", partID), zap.Error(err))
				continue
			}

			defer rc.Close()

			if parts[partIdx] == nil {
				parts[partIdx] = make([]byte, partLen)
			}

			n, err := io.ReadFull(rc, parts[partIdx][off:])
			if err == nil {
				continue getNextPart
			}
			if errors.Is(err, apistatus.ErrObjectAlreadyRemoved) {
				return
			}

			if errors.Is(err, io.EOF) {
				err = io.ErrUnexpectedEOF
			}

			p.log.Info("failed to RANGE EC part from remote node",
				zap.Stringer("container", cnr), zap.Stringer("parent", parent), zap.Stringer("rule", rule),
				zap.Int("ruleIdx", ruleIdx), zap.Int("partIdx", partIdx),
				zap.Stringer("partID", partID), zap.Uint64("off", off), zap.Uint64("len", ln), zap.Error(err))

			if n > 0 {
				off += uint64(n)
				ln = partLen - off
			}
		}

		if len(missingIdx)+len(skipIdx) >= int(rule.ParityPartNum) {
			p.log.Warn("too many EC parts unavailable, recreation is impossible",
				zap.Stringer("container", cnr), zap.Stringer("parent", parent), zap.Stringer("rule", rule),
				zap.Int("unavailable", len(missingIdx)+len(skipIdx)))
			return
		}

		parts[partIdx] = nil

		// Exists and may be OK later, so do not recreate.
		skipIdx = append(skipIdx, partIdx)
	}

	p.recreateECParts(ctx, parentHdr, rule, ruleIdx, parts, missingIdx)
}

// returns part ID and parent header.
func (p *Policer) headECPart(ctx context.Context, timeout time.Duration, node netmap.NodeInfo, cnr cid.ID, parent oid.ID,
	ruleIdx, partIdx string) (object.Object, error) {
	ctx, cancel := context.WithTimeout(ctx, timeout)
	defer cancel()

	hdr, err := p.apiConns.headObject(ctx, node, oid.NewAddress(cnr, parent), false, []string{
		iec.AttributeRuleIdx, ruleIdx,
		iec.AttributePartIdx, partIdx,
	})
	if err != nil {
		return object.Object{}, err
	}

	if got := hdr.GetParentID(); got != parent {
		return object.Object{}, fmt.Errorf("wrong parent ID in received object %s", got)
	}

	if err = checkECAttributesInReceivedObject(hdr, ruleIdx, partIdx); err != nil {
		return object.Object{}, err
	}

	return hdr, nil
}

func (p *Policer) recreateECParts(ctx context.Context, parent object.Object, rule iec.Rule, ruleIdx int, parts [][]byte, missingIdx []int) {
	sortedNodeLists, repRules, ecRules, err := p.network.GetNodesForObject(oid.NewAddress(parent.GetContainerID(), parent.GetID()))
	if err != nil {
		p.log.Error("failed to select nodes for EC parent to recreate its parts",
			zap.Stringer("container", parent.GetContainerID()), zap.Stringer("parent", parent.GetID()),
			zap.Stringer("rule", rule), zap.Error(err))
		return
	}

	if ruleIdx >= len(ecRules) {
		p.log.Error("rule index overflows total number of EC rules in policy",
			zap.Stringer("container", parent.GetContainerID()), zap.Stringer("parent", parent.GetID()),
			zap.Stringer("rule", rule), zap.Int("rule_idx", ruleIdx), zap.Int("total_rules", len(ecRules)))
		return
	}

	// first len(repRules) lists relate to replication, the EC ones follow
	p.recreateECPartsIdx(ctx, parent, rule, ruleIdx, sortedNodeLists[len(repRules)+ruleIdx], parts, missingIdx)
}

func (p *Policer) recreateECPartsIdx(ctx context.Context, parent object.Object, rule iec.Rule, ruleIdx int, sortedNodes []netmap.NodeInfo,
	parts [][]byte, missingIdx []int) {
	if err := iec.DecodeIndexes(rule, parts, missingIdx); err != nil { // should never happen if we count parts correctly
		p.log.Error("missing EC parts cannot be re-calculated",
			zap.Stringer("container", parent.GetContainerID()), zap.Stringer("parent", parent.GetID()),
			zap.Stringer("rule", rule), zap.Error(err))
		return
	}

	var wg sync.WaitGroup

	for _, partIdx := range missingIdx {
		wg.Go(func() {
			p.recreateECPart(ctx, parent, rule, ruleIdx, partIdx, parts[partIdx], sortedNodes)
		})
	}

	wg.Wait()
}

func (p *Policer) recreateECPart(ctx context.Context, parent object.Object, rule iec.Rule, ruleIdx, partIdx int, part []byte, sortedNodes []netmap.NodeInfo) {
	partObj, err := iec.FormObjectForECPart(p.signer, parent, part, iec.PartInfo{
		RuleIndex: ruleIdx,
		Index:     partIdx,
	})
	if err != nil {
		p.log.Info("failed to form object with restored EC part",
			zap.Stringer("container", parent.GetContainerID()), zap.Stringer("parent", parent.GetID()),
			zap.Stringer("rule", rule), zap.Int("part_idx", partIdx), zap.Error(err))
		return
	}

	totalParts := int(rule.DataPartNum) + int(rule.ParityPartNum)
	seq := slices.Collect(iec.NodeSequenceForPart(partIdx, totalParts, len(sortedNodes)))
	nodes := make([]netmap.NodeInfo, len(seq))
	for i, idx := range seq {
		nodes[i] = sortedNodes[idx]
	}

	var repRes singleReplication
	var task replicator.Task
	task.SetObject(&partObj)
	task.SetObjectAddress(oid.NewAddress(parent.GetContainerID(), partObj.GetID()))
	task.SetCopiesNumber(1)
	task.SetNodes(nodes)
	p.replicator.HandleTask(ctx, task, &repRes)

	if repRes.done {
		p.metrics.IncPolicerObjectReplicated(true)
		p.log.Info("EC part successfully recreated",
			zap.Stringer("container", parent.GetContainerID()), zap.Stringer("parent", parent.GetID()),
			zap.Stringer("rule", rule), zap.Int("part_idx", partIdx), zap.Stringer("part_id", partObj.GetID()),
			zap.Strings("node", repRes.netAddresses))
	} else {
		p.log.Info("failed to put recreated EC part on any node",
			zap.Stringer("container", parent.GetContainerID()), zap.Stringer("parent", parent.GetID()),
			zap.Stringer("rule", rule), zap.Int("part_idx", partIdx), zap.Stringer("part_id", partObj.GetID()))
	}
}

func checkECAttributesInReceivedObject(hdr object.Object, ruleIdx, partIdx string) error {
	// copy-paste from GET service
	var found uint8
	const expected = 2

	attrs := hdr.Attributes()
	for i := range attrs {
		switch attrs[i].Key() {
		default:
			continue
		case iec.AttributeRuleIdx:
			if attrs[i].Value() != ruleIdx {
				return fmt.Errorf("wrong EC rule index attribute in received object for part: requested %q, got %q", ruleIdx, attrs[i].Value())
			}
		case iec.AttributePartIdx:
			if attrs[i].Value() != partIdx {
				return fmt.Errorf("wrong EC part index attribute in received object for part: requested %q, got %q", partIdx, attrs[i].Value())
			}
		}

		found++
		if found == expected {
			return nil
		}
	}

	return fmt.Errorf("not all EC attributes received: requested %d, got %d", expected, found)
}
