// C22, "callers" part: the node order actually USED by the callers of iec.NodeSequenceForPart.
//
//   - policer (pkg/services/policer/ec.go): an EC part is lost on every node; the local node holds another part
//     of the same parent, so the real checkECParts looks the lost part up (HEAD by parent + EC attributes),
//     reads the surviving parts, re-computes the lost one and the real recreateECPart hands it to the real
//     replicator. EVERY candidate refuses the replica, so the whole order is walked. Observed: the order of
//     the look-up, the order of the placement attempts, and the node list the Network fake handed out.
//   - PUT (pkg/services/object/put/ec.go): a client-sealed EC part is PUT while every node refuses it, so
//     distributeECPart walks its whole order.
package main

import (
	"bytes"
	"context"
	"crypto/sha256"
	"fmt"
	"io"
	"slices"
	"strconv"

	iec "github.com/nspcc-dev/neofs-node/internal/ec"
	clientcore "github.com/nspcc-dev/neofs-node/pkg/core/client"
	putsvc "github.com/nspcc-dev/neofs-node/pkg/services/object/put"
	"github.com/nspcc-dev/neofs-node/verif/lib/ev"
	"github.com/nspcc-dev/neofs-node/verif/props/c26/polworld"
	"github.com/nspcc-dev/neofs-sdk-go/client"
	apistatus "github.com/nspcc-dev/neofs-sdk-go/client/status"
	cid "github.com/nspcc-dev/neofs-sdk-go/container/id"
	"github.com/nspcc-dev/neofs-sdk-go/netmap"
	"github.com/nspcc-dev/neofs-sdk-go/object"
	oid "github.com/nspcc-dev/neofs-sdk-go/object/id"
	"github.com/nspcc-dev/neofs-sdk-go/user"
)

type ccase struct {
	Side    string // "policer" | "put"
	Data    int
	Parity  int
	Nodes   int   // nodes in the EC rule's list (node id = position in the list)
	Lost    int   // part that has to be recreated / is being PUT
	LocalAt int   // policer: list position of the local node; put: -1 (local node outside the list)
	Held    int   // policer: part held by the local node
	RepList []int // policer: node ids of a REP rule's list preceding the EC rule (nil = EC-only policy)
}

func (c ccase) String() string {
	s := fmt.Sprintf("%s EC %d/%d over %d nodes, part %d", c.Side, c.Data, c.Parity, c.Nodes, c.Lost)
	if c.Side == "policer" {
		s += fmt.Sprintf(" lost, local node at position %d holds part %d", c.LocalAt, c.Held)
		if c.RepList != nil {
			s += fmt.Sprintf(", policy = REP 1 over nodes %v followed by the EC rule", c.RepList)
		}
	}
	return s
}

// ecFixture: a real parent with real EC parts for a rule.
type ecFixture struct {
	parent  object.Object
	parts   []object.Object // with payload
	payload [][]byte
}

var fixtures = map[[2]int]*ecFixture{}

func fixture(d, p int) *ecFixture {
	k := [2]int{d, p}
	if f, ok := fixtures[k]; ok {
		return f
	}
	rule := iec.Rule{DataPartNum: uint8(d), ParityPartNum: uint8(p)}
	pl := make([]byte, 0, 8*d)
	for i := 0; len(pl) < 8*d; i++ {
		h := sha256.Sum256([]byte("verif-c22-payload-" + strconv.Itoa(i)))
		pl = append(pl, h[:]...)
	}
	pl = pl[:8*d]
	var par object.Object
	par.SetContainerID(polworld.Cnr)
	par.SetOwner(user.ID{})
	par.SetPayloadSize(uint64(len(pl)))
	par.SetID(polworld.Parent)
	parts, _, err := iec.Encode(rule, pl)
	if err != nil {
		panic(err)
	}
	f := &ecFixture{parent: par}
	for i := range parts {
		o, err := iec.FormObjectForECPart(nil, par, parts[i], iec.PartInfo{RuleIndex: 0, Index: i})
		if err != nil {
			panic(err)
		}
		f.parts = append(f.parts, o)
		f.payload = append(f.payload, bytes.Clone(parts[i]))
	}
	fixtures[k] = f
	return f
}

func refSeq(part, total, nodes int) []int {
	return slices.Collect(iec.NodeSequenceForPart(part, total, nodes))
}

func classOf(c ccase) string {
	t := c.Data + c.Parity
	s := "nodes" + cmp(c.Nodes, t) + "parts"
	if c.RepList != nil {
		s += ":REP-rule-precedes-the-EC-rule"
	}
	return s
}

// judgeOrder compares an observed order of node ids with the property: every node of the rule's list exactly
// once, in NodeSequenceForPart's order, starting at the part's own node when there are enough nodes.
func judgeOrder(c ccase, what string, got []int) (fp, msg string) {
	t := c.Data + c.Parity
	want := refSeq(c.Lost, t, c.Nodes)
	seen := map[int]bool{}
	perm := len(got) == c.Nodes
	outside := false
	for _, n := range got {
		if n < 0 || n >= c.Nodes {
			outside = true
		}
		if seen[n] {
			perm = false
		}
		seen[n] = true
	}
	switch {
	case outside:
		return c.Side + ":" + what + "-order-uses-nodes-outside-the-rule's-list:" + classOf(c), fmt.Sprintf("%v: %s order %v contains nodes that are not in the EC rule's list 0..%d", c, what, got, c.Nodes-1)
	case !perm:
		return c.Side + ":" + what + "-order-is-not-a-permutation-of-the-rule's-nodes:" + classOf(c), fmt.Sprintf("%v: %s order %v does not list every node 0..%d exactly once", c, what, got, c.Nodes-1)
	case c.Nodes >= t && got[0] != c.Lost:
		return c.Side + ":" + what + "-order-does-not-start-at-the-part's-own-node:" + classOf(c), fmt.Sprintf("%v: %s order %v", c, what, got)
	case !slices.Equal(got, want):
		return c.Side + ":" + what + "-order-differs-from-NodeSequenceForPart:" + classOf(c), fmt.Sprintf("%v: %s order %v, NodeSequenceForPart gives %v", c, what, got, want)
	}
	return "", ""
}

// ---- policer side -----------------------------------------------------------------------------------------

func runPolicer(w *polworld.World, c ccase) (fp, msg, obs string) {
	f := fixture(c.Data, c.Parity)
	ecList := make([]netmap.NodeInfo, c.Nodes)
	for i := range ecList {
		ecList[i] = polworld.Node(i, false)
	}
	w.Local, w.InNetmap = c.LocalAt, true
	w.Placement = polworld.Placement{EC: []iec.Rule{{DataPartNum: uint8(c.Data), ParityPartNum: uint8(c.Parity)}}}
	if c.RepList != nil {
		rl := make([]netmap.NodeInfo, len(c.RepList))
		for i, n := range c.RepList {
			rl[i] = polworld.Node(n, false)
		}
		w.Placement.Lists = append(w.Placement.Lists, rl)
		w.Placement.Rep = []uint{1}
	}
	w.Placement.Lists = append(w.Placement.Lists, ecList)
	var private [][]string // private copy of what the Network fake hands out
	for _, l := range w.Placement.Lists {
		var ks []string
		for _, n := range l {
			ks = append(ks, string(n.PublicKey()))
		}
		private = append(private, ks)
	}
	var lookup []int
	w.AllowForeign = true
	w.PartHead = func(node, rule, part int) (object.Object, error) {
		if rule != 0 {
			return object.Object{}, polworld.ErrGeneric
		}
		if part == c.Lost {
			lookup = append(lookup, node)
			return object.Object{}, apistatus.ErrObjectNotFound
		}
		h := f.parts[part]
		h.SetPayload(nil)
		return h, nil
	}
	w.PartRange = func(_, rule, part int) ([]byte, error) {
		if rule != 0 || part == c.Lost {
			return nil, apistatus.ErrObjectNotFound
		}
		return f.payload[part], nil
	}
	w.LocalRange = func(id oid.ID) ([]byte, error) {
		if id == polworld.Obj {
			return f.payload[c.Held], nil
		}
		for i := range f.parts {
			if i != c.Lost && f.parts[i].GetID() == id {
				return f.payload[i], nil
			}
		}
		return nil, apistatus.ErrObjectNotFound
	}
	w.LocalHead = func(id oid.ID) (*object.Object, error) {
		if id == polworld.Parent {
			p := f.parent
			return &p, nil
		}
		return nil, apistatus.ErrObjectNotFound
	}
	var putIDs []oid.ID
	w.LocalPut = func(o *object.Object) error { putIDs = append(putIDs, o.GetID()); return polworld.ErrGeneric }
	w.HeadAnswer = func(int) error { return polworld.ErrNotFound } // the held part itself is nowhere else
	w.Replicate = func(int) error { return polworld.ErrGeneric }   // every candidate refuses every replica
	w.Run(object.TypeRegular, []string{"shard0"}, 0, c.Held)

	if len(w.UnknownCalls) > 0 {
		return "harness:unexpected-call", fmt.Sprintf("%v: %v", c, w.UnknownCalls), ""
	}
	// the recreated part is identified by its (re-computed) object ID
	wantID := f.parts[c.Lost].GetID()
	var placed []int
	for _, s := range w.Sends {
		if s.ID == wantID {
			placed = append(placed, s.Node)
		} else if s.ID != polworld.Obj {
			return c.Side + ":recreated-part-differs-from-the-lost-one", fmt.Sprintf("%v: a replica of unknown object %v was sent to node %d", c, s.ID, s.Node), ""
		}
	}
	obs = fmt.Sprintf("lookup=%v placed=%v", lookup, placed)
	if c.Parity == 0 || len(lookup) == 0 {
		return "harness:lost-part-was-not-looked-up", fmt.Sprintf("%v: %s", c, obs), obs
	}
	if fp, msg = judgeOrder(c, "look-up", lookup); fp != "" {
		return fp, msg, obs
	}
	if len(placed) == 0 {
		return c.Side + ":lost-part-not-recreated:" + classOf(c), fmt.Sprintf("%v: the lost part was looked up on %v but never handed to the replicator", c, lookup), obs
	}
	if c.RepList != nil {
		// one normalised class for "the order was computed over the node list of ANOTHER rule"
		var other []int
		for _, i := range refSeq(c.Lost, c.Data+c.Parity, len(c.RepList)) {
			other = append(other, c.RepList[i])
		}
		if slices.Equal(placed, other) && !slices.Equal(placed, refSeq(c.Lost, c.Data+c.Parity, c.Nodes)) {
			return "policer:recreated-part-placed-over-the-node-list-of-another-rule:REP-rule-precedes-the-EC-rule",
				fmt.Sprintf("%v: the recreated part was offered to %v = NodeSequenceForPart over the REP rule's list %v, not over the EC rule's list 0..%d", c, placed, c.RepList, c.Nodes-1), obs
		}
	}
	if fp, msg = judgeOrder(c, "placement", placed); fp != "" {
		return fp, msg, obs
	}
	for i, l := range w.Placement.Lists {
		for j, n := range l {
			if string(n.PublicKey()) != private[i][j] {
				var now []int
				for _, x := range l {
					now = append(now, polworld.NodeIndex(x))
				}
				return c.Side + ":node-list-of-the-network-changed-by-the-caller:" + classOf(c), fmt.Sprintf("%v: list #%d handed out by Network.GetNodesForObject now reads %v", c, i, now), obs
			}
		}
	}
	return "", "", obs
}

// ---- PUT side ------------------------------------------------------------------------------------------------

type putWorld struct {
	c     ccase
	order []int
	bad   []string
}

func (w *putWorld) IsLocalNodePublicKey([]byte) bool                        { return false }
func (w *putWorld) GetContainerNodes(cid.ID) (putsvc.ContainerNodes, error) { panic("unused") }
func (w *putWorld) GetEpochBlock(uint64) (uint32, error)                    { panic("unused") }
func (w *putWorld) GetEpochBlockByTime(uint32) (uint32, error)              { panic("unused") }
func (w *putWorld) Put(context.Context, *object.Object, []byte) error {
	w.bad = append(w.bad, "local put")
	return polworld.ErrGeneric
}
func (w *putWorld) IsLocked(context.Context, oid.Address) (bool, error) { return false, nil }
func (w *putWorld) HandlePostPlacement(*object.Object, []netmap.NodeInfo) {
	w.bad = append(w.bad, "post placement")
}
func (w *putWorld) SendReplicationRequestToNode(context.Context, []byte, netmap.NodeInfo) ([]byte, error) {
	w.bad = append(w.bad, "transport used although the local node is outside the container")
	return nil, polworld.ErrGeneric
}
func (w *putWorld) Get(_ context.Context, n netmap.NodeInfo) (clientcore.MultiAddressClient, error) {
	return &putClient{w: w, node: polworld.NodeIndex(n)}, nil
}

type putClient struct {
	clientcore.MultiAddressClient
	w    *putWorld
	node int
}

type putWriter struct{ c *putClient }

func (c *putClient) ObjectPutInit(context.Context, object.Object, user.Signer, client.PrmObjectPutInit) (client.ObjectWriter, error) {
	return putWriter{c}, nil
}
func (x putWriter) Write(p []byte) (int, error)          { return len(p), nil }
func (x putWriter) ReadFrom(r io.Reader) (int64, error)  { return io.Copy(io.Discard, r) }
func (x putWriter) GetResult() (res client.ResObjectPut) { return }
func (x putWriter) Close() error {
	x.c.w.order = append(x.c.w.order, x.c.node)
	return polworld.ErrGeneric // every node refuses
}

type putNodes struct {
	list []netmap.NodeInfo
	rule iec.Rule
}

func (x putNodes) Unsorted() [][]netmap.NodeInfo { return [][]netmap.NodeInfo{x.list} }
func (x putNodes) SortForObject(oid.ID) ([][]netmap.NodeInfo, error) {
	return [][]netmap.NodeInfo{x.list}, nil
}
func (x putNodes) PrimaryCounts() []uint { return []uint{} }
func (x putNodes) ECRules() []iec.Rule   { return []iec.Rule{x.rule} }

func runPut(c ccase) (fp, msg, obs string) {
	f := fixture(c.Data, c.Parity)
	w := &putWorld{c: c}
	list := make([]netmap.NodeInfo, c.Nodes)
	for i := range list {
		list[i] = polworld.Node(i, false)
	}
	private := slices.Clone(list)
	cn := putNodes{list, iec.Rule{DataPartNum: uint8(c.Data), ParityPartNum: uint8(c.Parity)}}
	hdr := f.parts[c.Lost]
	hdr.SetPayload(nil)
	t := putsvc.VerifNewDistributedTarget(putsvc.VerifTargetPrm{
		Ctx: context.Background(), Net: w, ContainerNodes: cn, LocalStorage: w, Clients: w, Transport: w,
		KeyStorage: polworld.KeyStorage(), PostPlacement: w, ECRules: cn.ECRules(),
		ECPart: iec.PartInfo{RuleIndex: 0, Index: c.Lost},
	})
	_, err := t.Put(hdr, f.payload[c.Lost])
	obs = fmt.Sprintf("tried=%v err=%v", w.order, err != nil)
	if len(w.bad) > 0 {
		return "harness:unexpected-call", fmt.Sprintf("%v: %v", c, w.bad), obs
	}
	if err == nil {
		return c.Side + ":success-although-every-node-refused", fmt.Sprintf("%v: PUT of the part succeeded, tried %v", c, w.order), obs
	}
	if fp, msg = judgeOrder(c, "placement", w.order); fp != "" {
		return fp, msg, obs
	}
	for i := range list {
		if string(list[i].PublicKey()) != string(private[i].PublicKey()) {
			return c.Side + ":node-list-of-the-network-changed-by-the-caller:" + classOf(c), fmt.Sprintf("%v: container node list permuted", c), obs
		}
	}
	return "", "", obs
}

// ---- enumeration ---------------------------------------------------------------------------------------------

func callerCases(thorough bool) (cs []ccase) {
	maxTotal := 6
	if thorough {
		maxTotal = 8
	}
	for t := 2; t <= maxTotal; t++ {
		for p := 1; p < t; p++ {
			d := t - p
			for _, n := range []int{t - 1, t, t + 1, 2 * t} {
				if n < 1 || n > polworld.MaxNodes-2 {
					continue
				}
				for lost := 0; lost < t; lost++ {
					cs = append(cs, ccase{Side: "put", Data: d, Parity: p, Nodes: n, Lost: lost, LocalAt: -1})
					for held := 0; held < t; held++ {
						if held == lost {
							continue
						}
						for at := 0; at < n; at++ {
							cs = append(cs, ccase{Side: "policer", Data: d, Parity: p, Nodes: n, Lost: lost, LocalAt: at, Held: held})
						}
						// mixed policy: a REP rule precedes the EC rule; its list is shorter / other nodes / a
						// reversed copy of the EC list
						at := held % n
						rev := make([]int, n)
						for i := range rev {
							rev[i] = n - 1 - i
						}
						for _, rl := range [][]int{{n, n + 1}, {n}, rev} {
							cs = append(cs, ccase{Side: "policer", Data: d, Parity: p, Nodes: n, Lost: lost, LocalAt: at, Held: held, RepList: rl})
						}
					}
				}
			}
		}
	}
	return
}

func callers(r *ev.Run) string {
	if err := polworld.CalibrateAgainstSDK(); err != nil {
		r.Fatal("%v", err)
	}
	cs := callerCases(r.Thorough())
	w := polworld.New() // recreation runs in one goroutine per lost part; the cases are run sequentially
	classes := map[string]int{}
	one := func(c ccase) {
		var fp, msg, obs string
		if c.Side == "put" {
			fp, msg, obs = runPut(c)
		} else {
			fp, msg, obs = runPolicer(w, c)
		}
		r.Eval(1)
		classes[c.Side+":"+classOf(c)]++
		r.Nontrivial(fmt.Sprint(c.Side, c.Data, c.Parity, c.Nodes, c.Lost, obs))
		if fp != "" {
			r.Violation(fp, msg, c)
		} else if c.Side == "policer" && c.Lost == 2 && c.Nodes == c.Data+c.Parity+1 && c.LocalAt == 0 && c.RepList == nil {
			r.Sample(map[string]any{"case": c.String(), "observed": obs})
		}
	}
	for _, c := range cs {
		one(c)
	}
	r.Set("caller_case_classes", classes)
	return fmt.Sprintf("callers part: %d cases = every EC rule d/p with d+p<=%d (p>=1), node count in {parts-1, parts, parts+1, 2*parts}, every lost part; policer side: every other part held locally x local node at every list position (EC-only policy), plus three mixed policies with a REP rule before the EC rule; PUT side: sealed part PUT with the local node outside the list; every candidate refuses, so the whole order is walked", len(cs), map[bool]int{false: 6, true: 8}[r.Thorough()])
}

func replayCaller(r *ev.Run, c ccase) {
	var fp, msg, obs string
	if c.Side == "put" {
		fp, msg, obs = runPut(c)
	} else {
		fp, msg, obs = runPolicer(polworld.New(), c)
	}
	r.Eval(1)
	fmt.Println("replay:", c, "->", obs)
	if fp != "" {
		r.Violation(fp, msg, c)
	}
}
