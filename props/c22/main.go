// C22: EC part node order visits every node once and spreads parts.
// Complete enumeration of (part, total, nodes) for total 1..32 (thorough 1..48), nodes 0..128 (thorough 0..200)
// on the real iec.NodeSequenceForPart, including every early-stop prefix length.
package main

import (
	"fmt"

	iec "github.com/nspcc-dev/neofs-node/internal/ec"
	"github.com/nspcc-dev/neofs-node/verif/lib/ev"
)

type triple struct{ Part, Total, Nodes int }

func main() {
	r := ev.Start("C22", ev.Exploration)
	maxTotal, maxNodes := 32, 128
	if r.Thorough() {
		maxTotal, maxNodes = 48, 200
	}
	check := func(t triple) {
		var seq []int
		for i := range iec.NodeSequenceForPart(t.Part, t.Total, t.Nodes) {
			seq = append(seq, i)
			if len(seq) > t.Nodes+1 {
				break
			}
		}
		r.Eval(1)
		seen := make([]bool, t.Nodes)
		ok := len(seq) == t.Nodes
		for _, i := range seq {
			if i < 0 || i >= t.Nodes || seen[i] {
				ok = false
				break
			}
			seen[i] = true
		}
		if !ok {
			r.Violation(fmt.Sprintf("not-a-permutation:total=%d,nodes%stotal", t.Total, cmp(t.Nodes, t.Total)),
				fmt.Sprintf("sequence for %+v is %v, not a permutation of 0..%d", t, seq, t.Nodes-1), t)
			return
		}
		if t.Nodes >= t.Total && (len(seq) == 0 || seq[0] != t.Part) {
			r.Violation("first-node-is-not-part-index", fmt.Sprintf("sequence for %+v starts with %v", t, seq), t)
			return
		}
		// every early stop yields exactly the prefix (iterator honours yield=false)
		for k := 1; k <= len(seq); k++ {
			var got []int
			for i := range iec.NodeSequenceForPart(t.Part, t.Total, t.Nodes) {
				got = append(got, i)
				if len(got) == k {
					break
				}
			}
			r.Eval(1)
			if len(got) != k || got[k-1] != seq[k-1] {
				r.Violation("early-stop-prefix-differs", fmt.Sprintf("%+v stop after %d: %v vs %v", t, k, got, seq[:k]), t)
				return
			}
		}
		if t.Nodes > 0 {
			r.Nontrivial(fmt.Sprint(seq))
		}
		if t.Total > 2 && t.Nodes > t.Total && t.Part == 1 {
			r.Sample(map[string]any{"case": t, "sequence": seq})
		}
	}
	if r.Replay != "" {
		var cc ccase
		r.LoadReplay(&cc)
		if cc.Side != "" {
			replayCaller(r, cc)
			r.Finish()
		}
		var t triple
		r.LoadReplay(&t)
		check(t)
		r.Finish()
	}
	for total := 1; total <= maxTotal; total++ {
		for nodes := 0; nodes <= maxNodes; nodes++ {
			starts := map[int]int{}
			for part := 0; part < total; part++ {
				check(triple{part, total, nodes})
				if nodes >= total {
					for i := range iec.NodeSequenceForPart(part, total, nodes) {
						if p, dup := starts[i]; dup {
							r.Violation("two-parts-start-at-same-node", fmt.Sprintf("parts %d and %d of %d both start at node %d of %d", p, part, total, i, nodes), triple{part, total, nodes})
						}
						starts[i] = part
						break
					}
				}
			}
		}
	}
	callersRule := callers(r)
	r.Rule(fmt.Sprintf("all (part,total,nodes) with total 1..%d, part<total, nodes 0..%d, plus every early-stop prefix; non-trivial = distinct non-empty node sequences. %s; non-trivial there = distinct (side, rule, nodes, part, observed orders)", maxTotal, maxNodes, callersRule))
	r.Exhaustive(true)
	r.Assume("callers part: the policer is driven with one lost part, all surviving parts healthy on the first node asked, and every candidate refusing the recreated part; the PUT side PUTs a client-sealed part with every node refusing; node answers are deterministic",
		"only the stated finite ranges are decided; the general (all n) proof asked for in the quantifier is outside bounded enumeration")
	r.Finish()
}

func cmp(a, b int) string {
	switch {
	case a < b:
		return "<"
	case a == b:
		return "="
	}
	return ">"
}
