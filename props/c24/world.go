package main

// svcworld for C24: real putsvc.Service instances (3 nodes) over recording fakes supplied through the
// exported interfaces. Node 0 is the node under test; nodes 1,2 are reached only through the fake
// transport, which hands the decoded replicate request to the remote node's real
// ValidateAndStoreObjectLocally (the same composition the package's own test cluster uses).

import (
	"bytes"
	"context"
	"crypto/ecdsa"
	"crypto/sha256"
	"errors"
	"fmt"
	"math"
	"sync"

	"github.com/nspcc-dev/neo-go/pkg/crypto/keys"
	iec "github.com/nspcc-dev/neofs-node/internal/ec"
	isessions "github.com/nspcc-dev/neofs-node/internal/sessions"
	clientcore "github.com/nspcc-dev/neofs-node/pkg/core/client"
	putsvc "github.com/nspcc-dev/neofs-node/pkg/services/object/put"
	objutil "github.com/nspcc-dev/neofs-node/pkg/services/object/util"
	storage "github.com/nspcc-dev/neofs-node/pkg/util/state/session"
	"github.com/nspcc-dev/neofs-sdk-go/container"
	cid "github.com/nspcc-dev/neofs-sdk-go/container/id"
	"github.com/nspcc-dev/neofs-sdk-go/netmap"
	"github.com/nspcc-dev/neofs-sdk-go/object"
	oid "github.com/nspcc-dev/neofs-sdk-go/object/id"
	protoobject "github.com/nspcc-dev/neofs-sdk-go/proto/object"
	sessionv2 "github.com/nspcc-dev/neofs-sdk-go/session/v2"
	"github.com/nspcc-dev/neofs-sdk-go/user"
	"go.uber.org/zap"
	"google.golang.org/protobuf/proto"
)

const currentEpoch = 100

func keyFrom(label string) *keys.PrivateKey {
	h := sha256.Sum256([]byte("verif-c24-" + label))
	k, err := keys.NewPrivateKeyFromBytes(h[:])
	if err != nil {
		panic(err)
	}
	return k
}

func idFrom(label string) (id oid.ID) {
	h := sha256.Sum256([]byte("verif-c24-oid-" + label))
	copy(id[:], h[:])
	return
}

func cidFrom(label string) (id cid.ID) {
	h := sha256.Sum256([]byte("verif-c24-cid-" + label))
	copy(id[:], h[:])
	return
}

var (
	ownerKey    = keyFrom("owner")
	attackerKey = keyFrom("attacker")
	sessionKey  = keyFrom("session")
	otherKey    = keyFrom("other-session")
	nodeKeys    = []*keys.PrivateKey{keyFrom("node0"), keyFrom("node1"), keyFrom("node2")}

	ownerSigner    = user.NewAutoIDSignerRFC6979(ownerKey.PrivateKey)
	attackerSigner = user.NewAutoIDSignerRFC6979(attackerKey.PrivateKey)
	sessionSigner  = user.NewAutoIDSignerRFC6979(sessionKey.PrivateKey)
	node0Signer    = user.NewAutoIDSignerRFC6979(nodeKeys[0].PrivateKey)

	cidREP   = cidFrom("rep")
	cidEC    = cidFrom("ec")
	cidOther = cidFrom("unknown")

	ecRule = iec.Rule{DataPartNum: 2, ParityPartNum: 1}
)

// ---- recording local storage

type stored struct {
	Node   int
	Obj    object.Object // what was persisted (decoded from the binary when a binary was given)
	BinBad string        // non-empty: the binary handed to storage does not encode the object handed with it
}

type recStore struct {
	node   int
	w      *world
	failAt int // fail the n-th Put (0-based) of this case; -1 = never
	puts   int
}

var errInjected = errors.New("injected storage failure")

func (s *recStore) Put(_ context.Context, obj *object.Object, objBin []byte) error {
	s.w.mu.Lock()
	defer s.w.mu.Unlock()
	n := s.puts
	s.puts++
	if s.failAt == n {
		s.w.faultsFired++
		return errInjected
	}
	var st stored
	st.Node = s.node
	if objBin != nil {
		var dec object.Object
		if err := dec.Unmarshal(objBin); err != nil {
			st.BinBad = "binary does not decode: " + err.Error()
			obj.CopyTo(&st.Obj)
		} else {
			st.Obj = dec
			if !bytes.Equal(dec.CutPayload().Marshal(), obj.CutPayload().Marshal()) || !bytes.Equal(dec.Payload(), obj.Payload()) {
				st.BinBad = "binary encodes a different object than the one passed along"
			}
		}
	} else {
		obj.CopyTo(&st.Obj)
		st.Obj.SetPayload(bytes.Clone(obj.Payload()))
	}
	s.w.stored = append(s.w.stored, st)
	return nil
}

func (s *recStore) IsLocked(context.Context, oid.Address) (bool, error) { return false, nil }

// ---- network / containers

type cnrNodes struct {
	lists   [][]netmap.NodeInfo
	reps    []uint
	ecRules []iec.Rule
	w       *world
}

func (x cnrNodes) Unsorted() [][]netmap.NodeInfo { return x.lists }
func (x cnrNodes) SortForObject(oid.ID) ([][]netmap.NodeInfo, error) {
	if len(x.ecRules) == 0 || x.w.rot == 0 {
		return x.lists, nil
	}
	// harness-chosen rotation of every list (owned nondeterminism of HRW sorting)
	res := make([][]netmap.NodeInfo, len(x.lists))
	for i, l := range x.lists {
		r := make([]netmap.NodeInfo, len(l))
		for j := range l {
			r[j] = l[(j+x.w.rot)%len(l)]
		}
		res[i] = r
	}
	return res, nil
}
func (x cnrNodes) PrimaryCounts() []uint { return x.reps }
func (x cnrNodes) ECRules() []iec.Rule   { return x.ecRules }

type network struct {
	w    *world
	node int
}

func (n *network) CurrentEpoch() uint64         { return currentEpoch }
func (n *network) CurrentBlock() uint32         { return 1000 }
func (n *network) CurrentEpochDuration() uint64 { return 240 }
func (n *network) GetContainerNodes(id cid.ID) (putsvc.ContainerNodes, error) {
	switch id {
	case cidREP:
		return cnrNodes{lists: [][]netmap.NodeInfo{n.w.nodes[:1]}, reps: []uint{1}, w: n.w}, nil
	case cidEC:
		return cnrNodes{lists: [][]netmap.NodeInfo{n.w.nodes}, ecRules: []iec.Rule{ecRule}, w: n.w}, nil
	}
	return nil, errors.New("container not found")
}
func (n *network) IsLocalNodePublicKey(pub []byte) bool {
	return bytes.Equal(pub, nodeKeys[n.node].PublicKey().Bytes())
}
func (n *network) GetEpochBlock(uint64) (uint32, error)       { return 0, errors.New("not available") }
func (n *network) GetEpochBlockByTime(uint32) (uint32, error) { return 0, errors.New("not available") }

type cnrSource struct{}

func mkContainer(pol string) container.Container {
	var p netmap.PlacementPolicy
	if err := p.DecodeString(pol); err != nil {
		panic(err)
	}
	var c container.Container
	c.Init()
	c.SetOwner(ownerSigner.UserID())
	c.SetPlacementPolicy(p)
	return c
}

var (
	cnrREP = mkContainer("REP 1")
	cnrEC  = mkContainer("EC 2/1")
)

func (cnrSource) Get(id cid.ID) (container.Container, error) {
	switch id {
	case cidREP:
		return cnrREP, nil
	case cidEC:
		return cnrEC, nil
	}
	return container.Container{}, errors.New("container not found")
}

// ---- sessions held by node 0

type sessStore struct{}

func (sessStore) GetToken(acc user.ID) *storage.PrivateToken {
	if acc == sessionSigner.UserID() {
		return storage.NewPrivateToken(&sessionKey.PrivateKey, currentEpoch+10)
	}
	return nil
}
func (sessStore) FindTokenBySubjects([]sessionv2.Target) *storage.PrivateToken { return nil }

// ---- misc fakes

type quotas struct{}

func (quotas) AvailableQuotasLeft(cid.ID, user.ID) (uint64, uint64, error) {
	return math.MaxUint64, math.MaxUint64, nil
}

type payments struct{}

func (payments) UnpaidSince(cid.ID) (int64, error) { return -1, nil }

type maxSize struct{ w *world }

func (m maxSize) MaxObjectSize() uint64 { return m.w.maxObj }

type splitVerifier struct{}

func (splitVerifier) VerifySplit(context.Context, cid.ID, oid.ID, []object.MeasuredObject) error {
	return nil
}

type tombVerifier struct{}

func (tombVerifier) VerifyTombStoneWithoutPayload(context.Context, object.Object) error { return nil }

type noPostPlacement struct{}

func (noPostPlacement) HandlePostPlacement(*object.Object, []netmap.NodeInfo) {}

// transport: decoded replicate request goes to the remote node's real validation + its recording storage
type transport struct{ w *world }

func (t transport) SendReplicationRequestToNode(ctx context.Context, reqBin []byte, node netmap.NodeInfo) ([]byte, error) {
	var req protoobject.ReplicateRequest
	if err := proto.Unmarshal(reqBin, &req); err != nil {
		return nil, fmt.Errorf("invalid request: %w", err)
	}
	if req.Object == nil {
		return nil, errors.New("missing object in request")
	}
	var obj object.Object
	if err := obj.FromProtoMessage(req.Object); err != nil {
		return nil, fmt.Errorf("invalid object in request: %w", err)
	}
	for i := range t.w.nodes {
		if bytes.Equal(t.w.nodes[i].PublicKey(), node.PublicKey()) {
			t.w.mu.Lock()
			t.w.forwards++
			t.w.mu.Unlock()
			return nil, t.w.svcs[i].ValidateAndStoreObjectLocally(ctx, obj)
		}
	}
	return nil, errors.New("unknown node")
}

type noClients struct{ w *world }

func (c noClients) Get(context.Context, netmap.NodeInfo) (clientcore.MultiAddressClient, error) {
	c.w.mu.Lock()
	c.w.clientGets++
	c.w.mu.Unlock()
	return nil, errors.New("no API clients in this world")
}

// ---- world

type world struct {
	mu          sync.Mutex
	nodes       []netmap.NodeInfo
	svcs        []*putsvc.Service
	stores      []*recStore
	stored      []stored
	maxObj      uint64
	rot         int
	forwards    int
	clientGets  int
	faultsFired int
}

func newWorld() *world {
	w := &world{maxObj: 64}
	w.nodes = make([]netmap.NodeInfo, 3)
	for i := range w.nodes {
		w.nodes[i].SetPublicKey(nodeKeys[i].PublicKey().Bytes())
		w.nodes[i].SetNetworkEndpoints(fmt.Sprintf("/ip4/10.0.0.%d/tcp/8080", i+1))
	}
	for i := range w.nodes {
		st := &recStore{node: i, w: w, failAt: -1}
		nw := &network{w: w, node: i}
		var k ecdsa.PrivateKey = nodeKeys[i].PrivateKey
		svc := putsvc.NewService(transport{w}, nw, nil, quotas{}, payments{},
			putsvc.WithSessionsCache(isessions.NewObjectSessionsCache(64)),
			putsvc.WithLogger(zap.NewNop()),
			putsvc.WithKeyStorage(objutil.NewKeyStorage(&k, sessStore{}, nw)),
			putsvc.WithObjectStorage(st),
			putsvc.WithMaxSizeSource(maxSize{w}),
			putsvc.WithContainerSource(cnrSource{}),
			putsvc.WithNetworkState(nw),
			putsvc.WithClientConstructor(noClients{w}),
			putsvc.WithSplitChainVerifier(splitVerifier{}),
			putsvc.WithTombstoneVerifier(tombVerifier{}),
			putsvc.WithPostPlacementReplicator(noPostPlacement{}),
		)
		w.svcs = append(w.svcs, svc)
		w.stores = append(w.stores, st)
	}
	return w
}

func (w *world) reset(maxObj uint64, rot int, failAt int) {
	w.stored = nil
	w.maxObj = maxObj
	w.rot = rot
	w.forwards, w.clientGets, w.faultsFired = 0, 0, 0
	for _, s := range w.stores {
		s.puts = 0
		s.failAt = -1
	}
	w.stores[0].failAt = failAt
}
