// C24: nodes store only self-consistent, authenticated objects.
//
// World: three real putsvc.Service instances over recording fakes (world.go); node 0 is under test.
// Enumeration (no randomness):
//
//	R  replication path  ValidateAndStoreObjectLocally:  every base object x every applicable single mutation
//	S  client PUT of a finished object through the Streamer: every base x mutation; when Init accepts the
//	   header, every payload variant (exact, last byte dropped, one byte appended, every single byte flipped,
//	   nothing streamed) x EVERY chunking (all compositions) of the streamed bytes
//	T  client PUT of a raw header the node slices/signs itself (owner = node key, or owner's session key held by
//	   the node; REP container and EC 2/1 container): raw-header mutations x max object size 2,3,4,8 x declared
//	   size {unset, n, n-1, n+1} x EVERY chunking of a 6-byte payload, plus local-storage failure at every Put index
//
// Oracle: a reference validity predicate written from the property text (ref.go) is evaluated on every object that
// reaches any node's storage fake (as decoded from the binary handed to storage): it must hold. The unmutated base
// must be stored (vacuity guard). For node-side slicing, a successful PUT must leave pieces (split chain, EC parts)
// that reassemble to exactly the bytes whose SendChunk calls were acknowledged.
package main

import (
	"bytes"
	"context"
	"crypto/sha256"
	"errors"
	"fmt"
	"runtime/debug"
	"sort"
	"strings"
	"sync"
	"sync/atomic"

	iec "github.com/nspcc-dev/neofs-node/internal/ec"
	"github.com/nspcc-dev/neofs-node/pkg/services/object/common"
	putsvc "github.com/nspcc-dev/neofs-node/pkg/services/object/put"
	objutil "github.com/nspcc-dev/neofs-node/pkg/services/object/util"
	"github.com/nspcc-dev/neofs-node/verif/lib/enumx"
	"github.com/nspcc-dev/neofs-node/verif/lib/ev"
	"github.com/nspcc-dev/neofs-sdk-go/object"
	oid "github.com/nspcc-dev/neofs-sdk-go/object/id"
	"github.com/nspcc-dev/neofs-sdk-go/session"
	"github.com/nspcc-dev/neofs-sdk-go/version"
)

var (
	r       *ev.Run
	bases   []*base
	muts    []mutation
	classes sync.Map
)

func class(s string) { classes.Store(s, true) }

var violClasses sync.Map

func viol(fp, what string, rp any) {
	n, _ := violClasses.LoadOrStore(fp, new(atomic.Int64))
	n.(*atomic.Int64).Add(1)
	r.Violation(fp, what, rp)
}

// replay artefact
type tcase struct {
	Path     string // R | S | T
	Base     string
	Mutation string // "" = none
	Variant  string // S: payload variant
	Chunks   []int
	Raw      string // T: raw header kind
	RawMut   string
	MaxObj   uint64
	Declared string
	FailAt   int
	Len      int
}

func findBase(n string) *base {
	for _, b := range bases {
		if b.Name == n {
			return b
		}
	}
	return nil
}

func findMut(n string) *mutation {
	for i := range muts {
		if muts[i].Name == n {
			return &muts[i]
		}
	}
	return nil
}

func mutated(b *base, m *mutation) object.Object {
	o := clone(b.obj)
	if m != nil {
		m.apply(&o, b)
	}
	return o
}

// checkStored: the reference predicate on everything that reached a storage fake.
func checkStored(w *world, path, what string, c tcase) (bad bool) {
	for _, s := range w.stored {
		if s.BinBad != "" {
			viol("stored-binary-mismatch:"+path, fmt.Sprintf("%+v: node %d: %s", c, s.Node, s.BinBad), c)
			bad = true
		}
		if err := refValid(s.Obj); err != nil {
			if path == "sealed-by-node" {
				if perr := refPayload(s.Obj); perr != nil {
					err = perr // the most telling complaint first
				}
			}
			fp := "stored-invalid:" + path + ":" + clauseOf(err) + ":" + what
			if path == "sealed-by-node" {
				// what the node sealed is wrong in itself: class = the reference's complaint, digits stripped
				fp = "stored-invalid:" + path + ":" + strings.Map(func(c rune) rune {
					if c >= '0' && c <= '9' {
						return -1
					}
					return c
				}, strings.ReplaceAll(strings.ReplaceAll(err.Error(), ": ", ":"), " ", "-"))
			}
			viol(fp, fmt.Sprintf("%+v: node %d stored object %s which is not valid: %v", c, s.Node, s.Obj.GetID(), err), c)
			bad = true
		}
	}
	return
}

func sameObject(a, b object.Object) bool {
	return bytes.Equal(a.CutPayload().Marshal(), b.CutPayload().Marshal()) && bytes.Equal(a.Payload(), b.Payload())
}

// ---- R: replication path
func runR(w *world, c tcase) {
	b := findBase(c.Base)
	m := findMut(c.Mutation)
	o := mutated(b, m)
	w.reset(1024, b.rot, -1)
	err := w.svcs[0].ValidateAndStoreObjectLocally(context.Background(), o)
	r.Eval(1)
	what := "unmutated"
	if m != nil {
		what = m.Name
	}
	if checkStored(w, "replicate", what, c) {
		return
	}
	if m == nil {
		if err != nil || len(w.stored) != 1 || !sameObject(w.stored[0].Obj, b.obj) {
			r.Fatal("vacuity guard: valid base %s not stored by replication path: err=%v stored=%d", b.Name, err, len(w.stored))
		}
		class("R:stored:valid")
		r.Nontrivial("R|" + b.Name)
		return
	}
	if err == nil {
		// accepted but nothing invalid was stored => nothing stored at all (the mutated object is invalid)
		class("R:accepted-without-store")
	} else {
		class("R:rejected:" + m.Clause)
	}
	if len(w.stored) == 0 {
		r.Nontrivial("R|" + b.Name + "|" + m.Name)
	}
}

// ---- S: finished object through the Streamer
type variant struct {
	name string
	f    func(p []byte) []byte
}

func variants(n int) []variant {
	vs := []variant{{"exact", func(p []byte) []byte { return p }}}
	if n > 0 {
		vs = append(vs, variant{"last-byte-dropped", func(p []byte) []byte { return p[:len(p)-1] }})
		if n > 1 {
			vs = append(vs, variant{"nothing-streamed", func(p []byte) []byte { return nil }})
		}
		for i := 0; i < n; i++ {
			vs = append(vs, variant{fmt.Sprintf("byte-%d-flipped", i), func(p []byte) []byte { return flip(p, i) }})
		}
	}
	vs = append(vs, variant{"one-byte-appended", func(p []byte) []byte { return append(bytes.Clone(p), 0x5A) }})
	return vs
}

func initPrm(hdr *object.Object, tok *session.Object) *putsvc.PutInitPrm {
	cp := objutil.CommonPrmFromRequest(2, nil, common.RequestTokens{SessionV1: tok})
	return new(putsvc.PutInitPrm).WithObject(hdr).WithCommonPrm(cp)
}

// streamS runs one stream; returns stage at which it was refused ("" = accepted).
func streamS(w *world, o object.Object, streamed []byte, chunks []int) (stage string, err error) {
	st, _ := w.svcs[0].Put(context.Background())
	h := o.CutPayload()
	if err = st.Init(initPrm(h, nil)); err != nil {
		return "init", err
	}
	off := 0
	for _, n := range chunks {
		if err = st.SendChunk(new(putsvc.PutChunkPrm).WithChunk(bytes.Clone(streamed[off : off+n]))); err != nil {
			return "chunk", err
		}
		off += n
	}
	if _, err = st.Close(); err != nil {
		return "close", err
	}
	return "", nil
}

func runS(w *world, c tcase) {
	b := findBase(c.Base)
	m := findMut(c.Mutation)
	o := mutated(b, m)
	var streamed []byte
	for _, v := range variants(len(o.Payload())) {
		if v.name == c.Variant {
			streamed = v.f(bytes.Clone(o.Payload()))
		}
	}
	w.reset(1024, b.rot, -1)
	stage, err := streamS(w, o, streamed, c.Chunks)
	r.Eval(1)
	what := c.Variant
	if m != nil {
		what = m.Name + "+" + c.Variant
	}
	if checkStored(w, "stream", what, c) {
		return
	}
	valid := m == nil && c.Variant == "exact"
	if valid {
		if err != nil || len(w.stored) != 1 || !sameObject(w.stored[0].Obj, b.obj) {
			r.Fatal("vacuity guard: valid base %s chunks %v not stored by streamer: stage=%s err=%v stored=%d", b.Name, c.Chunks, stage, err, len(w.stored))
		}
		class("S:stored:valid")
		r.Nontrivial(fmt.Sprintf("S|%s|%v", b.Name, c.Chunks))
		return
	}
	if err == nil {
		class("S:accepted-without-store")
	} else {
		cl := "payload"
		if m != nil {
			cl = m.Clause
		}
		class("S:rejected-at-" + stage + ":" + cl)
	}
	if len(w.stored) == 0 && len(c.Chunks) > 1 {
		r.Nontrivial(fmt.Sprintf("S|%s|%s|%s|%v", b.Name, c.Mutation, c.Variant, c.Chunks))
	}
}

// ---- T: raw header, node-side slicing/signing (and EC encoding)
type rawKind struct {
	name string
	mk   func() (object.Object, *session.Object)
	ec   bool
	sys  bool
}

var rawKinds = []rawKind{
	{"rep/owner=node", func() (object.Object, *session.Object) {
		o := hdr(cidREP)
		o.SetOwner(node0Signer.UserID())
		o.SetAttributes(object.NewAttribute("FileName", "f"), object.NewAttribute(object.AttributeExpirationEpoch, expAttr))
		return o, nil
	}, false, false},
	{"rep/session", func() (object.Object, *session.Object) {
		o := hdr(cidREP)
		o.SetAttributes(object.NewAttribute("FileName", "f"))
		t := sessionToken(sessionSigner.Public(), ownerSigner)
		return o, &t
	}, false, false},
	{"ec/owner=node", func() (object.Object, *session.Object) {
		o := hdr(cidEC)
		o.SetOwner(node0Signer.UserID())
		o.SetAttributes(object.NewAttribute("FileName", "f"))
		return o, nil
	}, true, false},
	{"rep/tombstone/owner=node", func() (object.Object, *session.Object) {
		o := hdr(cidREP)
		o.SetOwner(node0Signer.UserID())
		o.SetType(object.TypeTombstone)
		o.SetAttributes(object.NewAttribute(object.AttributeExpirationEpoch, expAttr))
		o.AssociateDeleted(idFrom("target"))
		return o, nil
	}, false, true},
}

type rawMut struct {
	name string
	f    func(o *object.Object)
}

var rawMuts = []rawMut{
	{"", func(*object.Object) {}},
	{"attribute-zero-byte", func(o *object.Object) { addAttr(o, "k", "v\x00") }},
	{"attribute-duplicate", func(o *object.Object) { addAttr(o, "d", "1"); addAttr(o, "d", "2") }},
	{"attribute-empty-value", func(o *object.Object) { addAttr(o, "e", "") }},
	{"expiration-in-the-past", func(o *object.Object) { setAttr(o, object.AttributeExpirationEpoch, "50") }},
	{"ec-attribute", func(o *object.Object) { addAttr(o, iec.AttributePartIdx, "0"); addAttr(o, iec.AttributeRuleIdx, "0") }},
	{"owner-is-not-the-signing-key", func(o *object.Object) { o.SetOwner(attackerSigner.UserID()) }},
	{"old-version-2.17", func(o *object.Object) {
		var v version.Version
		v.SetMajor(2)
		v.SetMinor(17)
		o.SetVersion(&v)
	}},
}

func findRaw(n string) *rawKind {
	for i := range rawKinds {
		if rawKinds[i].name == n {
			return &rawKinds[i]
		}
	}
	return nil
}

// physical objects visible on the cluster: stored whole objects, or (EC container) objects rebuilt from parts
func physical(w *world, ecCnr bool) (map[oid.ID]object.Object, error) {
	res := map[oid.ID]object.Object{}
	type pset struct {
		hdr   object.Object
		parts [][]byte
	}
	ecs := map[oid.ID]*pset{}
	for _, s := range w.stored {
		o := s.Obj
		if ecCnr && o.Type() == object.TypeRegular && iec.ObjectWithAttributes(o) {
			pi, err := iec.GetRequiredPartInfo(o)
			if err != nil || o.Parent() == nil {
				return nil, fmt.Errorf("stored EC part without part info: %v", err)
			}
			pid := o.Parent().GetID()
			ps := ecs[pid]
			if ps == nil {
				ps = &pset{hdr: *o.Parent(), parts: make([][]byte, ecRule.DataPartNum+ecRule.ParityPartNum)}
				ecs[pid] = ps
			}
			if pi.Index >= len(ps.parts) {
				return nil, fmt.Errorf("part index %d", pi.Index)
			}
			if ps.parts[pi.Index] != nil && !bytes.Equal(ps.parts[pi.Index], o.Payload()) {
				return nil, fmt.Errorf("two different parts #%d for %s", pi.Index, pid)
			}
			ps.parts[pi.Index] = append([]byte{}, o.Payload()...)
			continue
		}
		res[o.GetID()] = o
	}
	for id, ps := range ecs {
		for i, p := range ps.parts {
			if p == nil {
				return nil, fmt.Errorf("EC part #%d of %s is stored nowhere", i, id)
			}
		}
		ln := ps.hdr.PayloadSize()
		var pl []byte
		if ln > 0 {
			// every d-subset must give the same bytes: decode with each single part erased
			for erased := 0; erased < len(ps.parts); erased++ {
				in := make([][]byte, len(ps.parts))
				for i := range in {
					if i != erased {
						in[i] = bytes.Clone(ps.parts[i])
					}
				}
				got, err := iec.Decode(ecRule, ln, in)
				if err != nil {
					return nil, fmt.Errorf("EC decode of %s without part %d: %v", id, erased, err)
				}
				if pl != nil && !bytes.Equal(pl, got) {
					return nil, fmt.Errorf("EC decode of %s differs between part subsets", id)
				}
				pl = got
			}
		}
		o := ps.hdr
		o.SetPayload(pl)
		res[id] = o
	}
	return res, nil
}

// reassemble the root object's payload from physical objects.
func reassemble(phys map[oid.ID]object.Object, root oid.ID) ([]byte, string, error) {
	if o, ok := phys[root]; ok {
		if err := refPayload(o); err != nil {
			return nil, "", err
		}
		return o.Payload(), "unsplit", nil
	}
	var link *object.Object
	var rootHdr *object.Object
	for _, o := range phys {
		if p := o.Parent(); p != nil && p.GetID() == root {
			if o.Type() == object.TypeLink {
				o := o
				link = &o
			}
			rootHdr = p
		}
	}
	if rootHdr == nil {
		return nil, "", errors.New("no stored object carries the root header")
	}
	if link == nil {
		return nil, "", errors.New("no link object stored")
	}
	var l object.Link
	if err := link.ReadLink(&l); err != nil {
		return nil, "", fmt.Errorf("link payload: %v", err)
	}
	var pl []byte
	var prev oid.ID
	for i, m := range l.Objects() {
		ch, ok := phys[m.ObjectID()]
		if !ok {
			return nil, "", fmt.Errorf("child #%d listed by the link is stored nowhere", i)
		}
		if uint32(len(ch.Payload())) != m.ObjectSize() {
			return nil, "", fmt.Errorf("child #%d has %d bytes, link says %d", i, len(ch.Payload()), m.ObjectSize())
		}
		if i > 0 && ch.GetPreviousID() != prev {
			return nil, "", fmt.Errorf("child #%d does not point to child #%d", i, i-1)
		}
		if i > 0 {
			if f, ok := ch.FirstID(); !ok || f != l.Objects()[0].ObjectID() {
				return nil, "", fmt.Errorf("child #%d has wrong first ID", i)
			}
		}
		prev = m.ObjectID()
		pl = append(pl, ch.Payload()...)
	}
	if rootHdr.PayloadSize() != uint64(len(pl)) {
		return nil, "", fmt.Errorf("root header declares %d bytes, children give %d", rootHdr.PayloadSize(), len(pl))
	}
	cs, _ := rootHdr.PayloadChecksum()
	h := sha256.Sum256(pl)
	if !bytes.Equal(cs.Value(), h[:]) {
		return nil, "", errors.New("root checksum does not match the children")
	}
	return pl, "split", nil
}

func declaredOf(name string, n int) uint64 {
	switch name {
	case "n":
		return uint64(n)
	case "n-1":
		return uint64(n - 1)
	case "n+1":
		return uint64(n + 1)
	}
	return 0
}

func runT(w *world, c tcase) {
	k := findRaw(c.Raw)
	h, tok := k.mk()
	for _, m := range rawMuts {
		if m.name == c.RawMut {
			m.f(&h)
		}
	}
	n := c.Len
	payload := pay(n, 0x66)
	if d := declaredOf(c.Declared, n); d > 0 {
		h.SetPayloadSize(d)
	}
	w.reset(c.MaxObj, 0, c.FailAt)
	st, _ := w.svcs[0].Put(context.Background())
	var acked []byte
	stage := ""
	var rootID oid.ID
	err := st.Init(initPrm(&h, tok))
	if err != nil {
		stage = "init"
	} else {
		off := 0
		for _, cn := range c.Chunks {
			ch := bytes.Clone(payload[off : off+cn])
			off += cn
			if err = st.SendChunk(new(putsvc.PutChunkPrm).WithChunk(ch)); err != nil {
				stage = "chunk"
				break
			}
			acked = append(acked, payload[off-cn:off]...)
		}
		if err == nil {
			if rootID, err = st.Close(); err != nil {
				stage = "close"
			}
		}
	}
	r.Eval(1)
	what := "declared-size=" + c.Declared
	if w.faultsFired > 0 {
		what = "after-local-storage-failure-during-stream"
	}
	if c.RawMut != "" {
		what += ":raw-mutation=" + c.RawMut
	}
	if checkStored(w, "slice", what, c) {
		return
	}
	split := "unsplit"
	if uint64(n) > c.MaxObj {
		split = "split"
	}
	fault := "no-fault"
	if w.faultsFired > 0 {
		fault = "storage-fault"
	}
	if c.RawMut != "" && len(w.stored) == 0 {
		class("T:rejected-at-" + stage + ":raw-mutation")
		r.Nontrivial(fmt.Sprintf("T|%+v", c))
		return
	}
	if err != nil {
		class(fmt.Sprintf("T:refused-at-%s:%s:declared=%s:%s:leftover-objects=%v", stage, split, c.Declared, fault, len(w.stored) > 0))
		if r.Replay != "" {
			fmt.Println("refused:", stage, err, "stored", len(w.stored))
		}
		return
	}
	// PUT acknowledged: pieces must reassemble to the acknowledged bytes
	detail := fmt.Sprintf("%s:declared=%s", split, c.Declared)
	if k.ec {
		detail = "ec:" + detail
	}
	// fingerprint = cause class only (shape of the object is in the message)
	cause := "declared-size=" + c.Declared
	if w.faultsFired > 0 {
		cause = "after-local-storage-failure-during-stream"
	}
	if c.RawMut != "" {
		cause += ":raw-mutation=" + c.RawMut
	}
	fpTail := detail + ":" + fault
	if c.RawMut != "" {
		fpTail += ":raw-mutation=" + c.RawMut
	}
	phys, perr := physical(w, k.ec)
	if perr != nil {
		viol("put-acknowledged-but-pieces-incomplete:"+cause, fmt.Sprintf("%+v (%s): %v", c, detail, perr), c)
		return
	}
	got, shape, rerr := reassemble(phys, rootID)
	if rerr != nil {
		viol("put-acknowledged-but-pieces-do-not-reassemble:"+cause, fmt.Sprintf("%+v (%s): root %s: %v (stored %d objects)", c, detail, rootID, rerr, len(w.stored)), c)
		return
	}
	if !bytes.Equal(got, acked) {
		diff := 0
		for diff < len(got) && diff < len(acked) && got[diff] == acked[diff] {
			diff++
		}
		viol("put-acknowledged-but-stored-payload-differs-from-streamed:"+cause, fmt.Sprintf("%+v (%s): every SendChunk and Close succeeded for %d bytes, stored pieces reassemble to %d bytes (first difference at offset %d)", c, detail, len(acked), len(got), diff), c)
		return
	}
	class("T:stored:" + shape + ":" + fpTail)
	r.Nontrivial(fmt.Sprintf("T|%+v", c))
	if r.WantSample() && shape == "split" && k.ec {
		r.Sample(map[string]any{"case": c, "stored_objects": len(w.stored), "forwards_to_other_nodes": w.forwards})
	}
}

// ---- U: the same (possibly mutated) object handed over as a RAW header on the session PUT path: the client drops the
// ID and the signature, the node seals the member with the session key it holds. Whatever it seals and stores must still
// satisfy the reference predicate, embedded parent headers included.
func rawOf(o object.Object) object.Object {
	h := *o.CutPayload()
	h.ResetID()
	h.SetSignature(nil)
	h.SetSessionToken(nil)
	return h
}

func sameRelations(a, b object.Object) bool {
	af, aok := a.FirstID()
	bf, bok := b.FirstID()
	if aok != bok || af != bf || a.GetPreviousID() != b.GetPreviousID() || a.Type() != b.Type() {
		return false
	}
	if (a.SplitID() == nil) != (b.SplitID() == nil) || (a.Parent() == nil) != (b.Parent() == nil) {
		return false
	}
	if a.Parent() != nil && !bytes.Equal(a.Parent().Marshal(), b.Parent().Marshal()) {
		return false
	}
	return true
}

func runU(w *world, c tcase) {
	b := findBase(c.Base)
	m := findMut(c.Mutation)
	o := mutated(b, m)
	h := rawOf(o)
	tok := sessionToken(sessionSigner.Public(), ownerSigner)
	payload := o.Payload()
	w.reset(1024, b.rot, -1)
	st, _ := w.svcs[0].Put(context.Background())
	stage := ""
	err := st.Init(initPrm(&h, &tok))
	if err != nil {
		stage = "init"
	} else {
		off := 0
		for _, n := range c.Chunks {
			if err = st.SendChunk(new(putsvc.PutChunkPrm).WithChunk(bytes.Clone(payload[off : off+n]))); err != nil {
				stage = "chunk"
				break
			}
			off += n
		}
		if err == nil {
			if _, err = st.Close(); err != nil {
				stage = "close"
			}
		}
	}
	r.Eval(1)
	what := "unmutated"
	if m != nil {
		what = m.Name
	}
	if r.Replay != "" {
		for _, s := range w.stored {
			fmt.Printf("stored on node %d: id=%s type=%v cnr=%s sig=%v attrs=%v parent=%v children=%d payload=%d\n", s.Node, s.Obj.GetID(), s.Obj.Type(), s.Obj.GetContainerID(), s.Obj.Signature() != nil, s.Obj.Attributes(), s.Obj.Parent() != nil, len(s.Obj.Children()), len(s.Obj.Payload()))
		}
		fmt.Println("result:", stage, err)
	}
	if checkStored(w, "sealed-by-node", what, c) {
		return
	}
	if m == nil {
		if err != nil || len(w.stored) != 1 || !bytes.Equal(w.stored[0].Obj.Payload(), b.obj.Payload()) || !sameRelations(w.stored[0].Obj, b.obj) {
			r.Fatal("vacuity guard: raw header of valid base %s chunks %v not sealed and stored with its relations intact: stage=%s err=%v stored=%d", b.Name, c.Chunks, stage, err, len(w.stored))
		}
		class("U:stored:valid:" + b.Name)
		r.Nontrivial(fmt.Sprintf("U|%s|%v", b.Name, c.Chunks))
		return
	}
	if len(w.stored) == 0 {
		class("U:rejected-at-" + stage + ":" + m.Clause)
		r.Nontrivial(fmt.Sprintf("U|%s|%s|%v", b.Name, m.Name, c.Chunks))
		return
	}
	// stored and valid per reference: the mutation concerned only what the node recomputes (ID, signature, checksum)
	// or what the session overrides (owner); it must not have survived into the stored object
	class("U:stored:mutation-did-not-survive-sealing:" + m.Clause)
}

func run(w *world, c tcase) {
	defer func() {
		if p := recover(); p != nil {
			stack := string(debug.Stack())
			where := "?"
			for _, l := range strings.Split(stack, "\n") {
				if strings.Contains(l, "neofs-sdk-go") || strings.Contains(l, "/repo/") {
					where = strings.TrimSpace(l)
					break
				}
			}
			fp := "panic:" + c.Path
			if c.Path == "T" {
				fp += ":declared-size=" + c.Declared
				if w.faultsFired > 0 {
					fp += ":after-local-storage-failure-during-stream"
				}
			}
			viol(fp, fmt.Sprintf("%+v: PUT pipeline panicked: %v at %s", c, p, where), c)
		}
	}()
	switch c.Path {
	case "R":
		runR(w, c)
	case "S":
		runS(w, c)
	case "T":
		runT(w, c)
	case "U":
		runU(w, c)
	}
}

func main() {
	r = ev.Start("C24", ev.Exploration)
	bases = buildBases()
	muts = buildMutations()

	if r.Replay != "" {
		var c tcase
		r.LoadReplay(&c)
		run(newWorld(), c)
		r.Finish()
	}

	// ---- menu self-check: bases valid, every mutation invalid per the reference predicate
	pairs := 0
	for _, b := range bases {
		if err := refValid(b.obj); err != nil {
			r.Fatal("base %s is not valid per reference: %v", b.Name, err)
		}
		for i := range muts {
			m := &muts[i]
			if !m.applies(b) {
				continue
			}
			pairs++
			o := mutated(b, m)
			err := refValid(o)
			if err == nil {
				r.Fatal("mutation %s of %s is still valid per reference (menu bug)", m.Name, b.Name)
			}
			class("menu:" + m.Clause + "/reference-first-complaint:" + clauseOf(err))
		}
		if err := refValid(b.obj); err != nil {
			r.Fatal("base %s damaged by mutations: %v", b.Name, err)
		}
	}

	var cases []tcase
	// R
	for _, b := range bases {
		cases = append(cases, tcase{Path: "R", Base: b.Name})
		for i := range muts {
			if muts[i].applies(b) {
				cases = append(cases, tcase{Path: "R", Base: b.Name, Mutation: muts[i].Name})
			}
		}
	}
	nR := len(cases)
	// S
	probe := newWorld()
	for _, b := range bases {
		for i := -1; i < len(muts); i++ {
			var m *mutation
			name := ""
			if i >= 0 {
				m = &muts[i]
				if !m.applies(b) {
					continue
				}
				name = m.Name
			}
			o := mutated(b, m)
			// does Init accept the header? (decided by the implementation; if not, chunkings are moot)
			probe.reset(1024, b.rot, -1)
			st, _ := probe.svcs[0].Put(context.Background())
			if err := st.Init(initPrm(o.CutPayload(), nil)); err != nil {
				cases = append(cases, tcase{Path: "S", Base: b.Name, Mutation: name, Variant: "exact", Chunks: compositionsOf(len(o.Payload()))[0]})
				continue
			}
			for _, v := range variants(len(o.Payload())) {
				if m != nil && v.name != "exact" && v.name != "last-byte-dropped" && v.name != "one-byte-appended" {
					continue // header mutation x byte flips adds nothing: two independent defects
				}
				sl := len(v.f(bytes.Clone(o.Payload())))
				for _, ch := range compositionsOf(sl) {
					cases = append(cases, tcase{Path: "S", Base: b.Name, Mutation: name, Variant: v.name, Chunks: ch})
				}
			}
		}
	}
	nS := len(cases) - nR
	// U
	for _, b := range bases {
		if b.signer == nil {
			continue // EC parts are never sealed by the node on this path
		}
		n := len(b.obj.Payload())
		for _, ch := range compositionsOf(n) {
			cases = append(cases, tcase{Path: "U", Base: b.Name, Chunks: ch})
		}
		for i := range muts {
			if !muts[i].applies(b) {
				continue
			}
			pl := len(mutated(b, &muts[i]).Payload())
			comps := compositionsOf(pl)
			for _, ch := range [][]int{comps[0], comps[len(comps)-1]} {
				cases = append(cases, tcase{Path: "U", Base: b.Name, Mutation: muts[i].Name, Chunks: ch})
			}
		}
	}
	nU := len(cases) - nR - nS
	// T
	type regime struct {
		maxObj uint64
		n      int
		cuts   []int // candidate chunk boundaries; every subset is a chunking
	}
	// the link object's payload (about 40 bytes per child) must itself fit the size limit, so split regimes use a
	// 128-byte limit and chunk boundaries taken from the positions around the child boundaries
	regimes := []regime{
		{8, 6, []int{1, 2, 3, 4, 5}},
		{128, 129, []int{1, 127, 128}},
		{128, 256, []int{1, 127, 128, 129, 255}},
		{128, 259, []int{1, 127, 128, 129, 255, 256, 257, 258}},
	}
	if r.Thorough() {
		regimes = append(regimes,
			regime{7, 7, []int{1, 2, 3, 4, 5, 6}},
			regime{128, 130, []int{1, 2, 64, 127, 128, 129}},
			regime{128, 384, []int{1, 127, 128, 129, 255, 256, 257, 383}},
			regime{128, 385, []int{128, 256, 384}}, // 4 children: link does not fit
			regime{4, 6, []int{1, 2, 3, 4, 5}},     // link never fits
		)
	}
	for _, k := range rawKinds {
		for _, rm := range rawMuts {
			for _, rg := range regimes {
				for _, decl := range []string{"unset", "n", "n-1", "n+1"} {
					ln := rg.n
					var comps [][]int
					if k.sys {
						ln = 0
						if decl != "unset" || rg.n != regimes[0].n {
							continue
						}
						comps = [][]int{{}}
					} else {
						enumx.Subsets(len(rg.cuts), func(mask uint64) bool {
							var ch []int
							prev := 0
							for _, i := range enumx.Bits(mask) {
								ch = append(ch, rg.cuts[i]-prev)
								prev = rg.cuts[i]
							}
							comps = append(comps, append(ch, ln-prev))
							return true
						})
					}
					if rm.name != "" {
						comps = comps[:1] // refused at Init; one chunking is enough when it is
					}
					for _, ch := range comps {
						cases = append(cases, tcase{Path: "T", Raw: k.name, RawMut: rm.name, MaxObj: rg.maxObj, Declared: decl, Chunks: ch, FailAt: -1, Len: ln})
					}
					if rm.name == "" && (decl == "unset" || decl == "n") && !k.sys {
						// local storage failure at every Put index, three chunkings
						for _, ch := range [][]int{comps[0], comps[len(comps)-1], comps[1]} {
							for f := 0; f <= 4; f++ {
								cases = append(cases, tcase{Path: "T", Raw: k.name, MaxObj: rg.maxObj, Declared: decl, Chunks: ch, FailAt: f, Len: ln})
							}
						}
					}
				}
			}
		}
	}
	nT := len(cases) - nR - nS - nU

	var notExhaustive atomic.Bool
	var wpool = sync.Pool{New: func() any { return newWorld() }}
	enumx.Parallel(len(cases), func(i int) {
		if r.Expired() {
			notExhaustive.Store(true)
			return
		}
		w := wpool.Get().(*world)
		run(w, cases[i])
		wpool.Put(w)
	})

	var names []string
	classes.Range(func(k, _ any) bool { names = append(names, k.(string)); return true })
	sort.Strings(names)
	vc := map[string]int64{}
	violClasses.Range(func(k, v any) bool { vc[k.(string)] = v.(*atomic.Int64).Load(); return true })
	if len(vc) > 0 {
		r.Set("violation_classes", vc)
	}
	r.Set("outcome_classes", len(names))
	r.Set("outcome_class_names", names)
	r.Set("bases", len(bases))
	r.Set("mutations", len(muts))
	r.Set("base_x_mutation_pairs", pairs)
	r.Set("cases_replicate", nR)
	r.Set("cases_stream_finished_object", nS)
	r.Set("cases_node_side_slicing", nT)
	r.Set("cases_raw_header_sealed_by_node", nU)
	var bn []string
	for _, b := range bases {
		bn = append(bn, b.Name)
	}
	r.Sample(map[string]any{"bases": strings.Join(bn, ","), "example_mutations": []string{muts[0].Name, muts[len(muts)/2].Name, muts[len(muts)-1].Name}})
	r.Rule(fmt.Sprintf("R: %d bases x every applicable mutation of a %d-entry menu (%d pairs) through ValidateAndStoreObjectLocally; S: the same pairs through Streamer Init/SendChunk/Close; when Init accepts: payload variants (exact, last byte dropped, nothing, each byte flipped, byte appended) x every composition of the streamed length (payload <= 7 bytes; 4 chunkings for the longer link payload); U: every signed base and every base x mutation pair again with ID, signature and session token stripped, as a raw header on the session PUT path where node 0 seals it with the owner's session key (all chunkings for the unmutated base, single-chunk and finest chunking for mutated ones): the sealed object must keep its split relations and embedded parent header and satisfy the reference predicate at every nesting level; "+
		"T: %d raw header kinds x %d raw mutations x regimes {max object size, payload length, candidate chunk boundaries} %v x declared size {unset,n,n-1,n+1} x every subset of the candidate boundaries as a chunking, plus node-0 storage failure at Put index 0..4 for 3 chunkings. one evaluation = one complete PUT/replicate call with the oracle applied to everything stored; non-trivial = mutated/invalid case with >1 chunk (or any R/T case) that left nothing stored, or valid case stored and reassembled", len(bases), len(muts), pairs, len(rawKinds), len(rawMuts)-1, regimes))
	r.Exhaustive(!notExhaustive.Load())
	r.Assume("request-level checks (ACL, session/bearer token validity and lifetime, request signatures) happen before the PUT service and are other properties' subject; a session token given with a raw header is genuine",
		"replication path = putsvc.Service.ValidateAndStoreObjectLocally (what Server.Replicate calls after authorising the request)",
		"objects of protocol version < 2.18, N3 and WalletConnect signatures, session v2 tokens and homomorphic checksums are not enumerated (bases use the current version, ECDSA RFC6979/SHA-512 signatures, v1 session tokens)",
		"split verification of link objects and tombstone target verification are stubbed to accept (they need other nodes)",
		"one mutation at a time; a client that continues after a failed Init is outside the streamer contract and not modelled",
		"storage fake of node 0 may fail (T only); remote nodes never fail")
	r.Finish()
}

var compCache sync.Map

func compositionsOf(n int) [][]int {
	if v, ok := compCache.Load(n); ok {
		return v.([][]int)
	}
	var res [][]int
	nn := n
	if nn > 7 {
		nn = 0
	}
	enumx.Compositions(nn, func(p []int) bool {
		res = append(res, append([]int{}, p...))
		return true
	})
	if n == 0 {
		res = [][]int{{}}
	}
	if n > 7 {
		// long payloads (link object: protobuf list): bounded chunkings
		res = [][]int{{n}, {1, n - 1}, {n - 1, 1}, {n / 2, n - n/2}}
	}
	compCache.Store(n, res)
	return res
}
