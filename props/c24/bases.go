package main

import (
	"bytes"
	"fmt"
	"time"

	"github.com/google/uuid"
	iec "github.com/nspcc-dev/neofs-node/internal/ec"
	"github.com/nspcc-dev/neofs-sdk-go/checksum"
	neofscrypto "github.com/nspcc-dev/neofs-sdk-go/crypto"
	"github.com/nspcc-dev/neofs-sdk-go/object"
	"github.com/nspcc-dev/neofs-sdk-go/session"
	sessionv2 "github.com/nspcc-dev/neofs-sdk-go/session/v2"
	"github.com/nspcc-dev/neofs-sdk-go/user"
	"github.com/nspcc-dev/neofs-sdk-go/version"
)

type base struct {
	Name   string
	obj    object.Object
	signer user.Signer // who legitimately signs it (nil: unsigned EC part)
	rot    int         // node list rotation making node 0 the first holder
}

func must(err error) {
	if err != nil {
		panic(err)
	}
}

func clone(o object.Object) object.Object {
	var c object.Object
	must(c.Unmarshal(o.Marshal()))
	if c.Payload() == nil && o.Payload() != nil {
		c.SetPayload([]byte{})
	}
	return c
}

func uuid4(x byte) []byte {
	b := bytes.Repeat([]byte{x}, 16)
	b[6] = 0x40 | x&0x0f
	b[8] = 0x80 | x&0x3f
	return b
}

func pay(n int, salt byte) []byte {
	b := make([]byte, n)
	for i := range b {
		b[i] = byte(i*7+3) ^ salt
	}
	return b
}

func hdr(cnr [32]byte) object.Object {
	var o object.Object
	v := version.Current()
	o.SetVersion(&v)
	o.SetContainerID(cnr)
	o.SetOwner(ownerSigner.UserID())
	o.SetCreationEpoch(currentEpoch - 1)
	o.SetType(object.TypeRegular)
	return o
}

func seal(o *object.Object, payload []byte, s user.Signer) {
	o.SetPayload(payload)
	o.SetPayloadSize(uint64(len(payload)))
	o.CalculateAndSetPayloadChecksum()
	resign(o, s)
}

// resign recomputes the ID and signs it (s == nil: ID only, signature removed).
func resign(o *object.Object, s user.Signer) {
	o.SetSignature(nil)
	must(o.CalculateAndSetID())
	if s != nil {
		must(o.Sign(s))
	}
}

func sessionToken(authKey neofscrypto.PublicKey, issuer user.Signer) session.Object {
	var t session.Object
	t.SetID(uuid.UUID{1, 2, 3, 4, 5, 6, 0x47, 8, 0x89, 10, 11, 12, 13, 14, 15, 16}) // fixed, version 4
	t.SetIat(currentEpoch - 5)
	t.SetNbf(currentEpoch - 5)
	t.SetExp(currentEpoch + 50)
	t.BindContainer(cidREP)
	t.ForVerb(session.VerbObjectPut)
	t.SetAuthKey(authKey)
	must(t.Sign(issuer))
	return t
}

func sessionTokenV2(issuer user.Signer) sessionv2.Token {
	var t sessionv2.Token
	t.SetVersion(sessionv2.TokenCurrentVersion)
	at := time.Unix(1_800_000_000, 0)
	t.SetIat(at)
	t.SetNbf(at)
	t.SetExp(at.Add(1000 * time.Hour))
	ctx, err := sessionv2.NewContext(cidREP, []sessionv2.Verb{sessionv2.VerbObjectPut})
	must(err)
	must(t.SetContexts([]sessionv2.Context{ctx}))
	must(t.SetSubjects([]sessionv2.Target{sessionv2.NewTargetUser(sessionSigner.UserID())}))
	must(t.Sign(issuer))
	var chk sessionv2.Token
	must(chk.Unmarshal(t.Marshal())) // must survive the wire
	return t
}

func fullParent(cnr [32]byte, payload []byte, extra ...object.Attribute) object.Object {
	p := hdr(cnr)
	p.SetAttributes(append([]object.Attribute{object.NewAttribute("FileName", "parent.bin")}, extra...)...)
	p.SetPayloadSize(uint64(len(payload)))
	p.SetPayloadChecksum(object.CalculatePayloadChecksum(payload))
	resign(&p, ownerSigner)
	return p
}

const expAttr = "150"

func buildBases() []*base {
	var bs []*base
	add := func(name string, o object.Object, s user.Signer, rot int) {
		bs = append(bs, &base{Name: name, obj: o, signer: s, rot: rot})
	}

	o := hdr(cidREP)
	seal(&o, pay(5, 0), ownerSigner)
	add("regular", o, ownerSigner, 0)

	o = hdr(cidREP)
	o.SetAttributes(object.NewAttribute("k1", "v1"), object.NewAttribute("k2", "v2"), object.NewAttribute(object.AttributeExpirationEpoch, expAttr))
	seal(&o, pay(3, 0x10), ownerSigner)
	add("regular+attrs", o, ownerSigner, 0)

	o = hdr(cidREP)
	tok := sessionToken(sessionSigner.Public(), ownerSigner)
	o.SetSessionToken(&tok)
	seal(&o, pay(4, 0x20), sessionSigner)
	add("regular+session", o, sessionSigner, 0)

	whole := pay(8, 0x30)
	par := fullParent(cidREP, whole)
	o = hdr(cidREP)
	o.SetFirstID(idFrom("first"))
	o.SetPreviousID(idFrom("prev"))
	o.SetParent(&par)
	seal(&o, whole[5:], ownerSigner)
	add("v2-last-child", o, ownerSigner, 0)

	par = fullParent(cidREP, whole)
	o = hdr(cidREP)
	o.SetSplitID(object.NewSplitIDFromV2(uuid4(7)))
	o.SetPreviousID(idFrom("prev"))
	o.SetParent(&par)
	o.SetChildren(idFrom("prev"), idFrom("self"))
	seal(&o, whole[5:], ownerSigner)
	add("v1-last-child", o, ownerSigner, 0)

	o = hdr(cidREP) // v2 middle member: first + previous links, no parent header
	o.SetFirstID(idFrom("first"))
	o.SetPreviousID(idFrom("prev"))
	seal(&o, whole[2:5], ownerSigner)
	add("v2-middle-child", o, ownerSigner, 0)

	o = hdr(cidREP) // v1 middle member
	o.SetSplitID(object.NewSplitIDFromV2(uuid4(7)))
	o.SetPreviousID(idFrom("prev"))
	seal(&o, whole[2:5], ownerSigner)
	add("v1-middle-child", o, ownerSigner, 0)

	rawPar := hdr(cidREP) // v2 first child carries the unfinished parent header
	rawPar.SetAttributes(object.NewAttribute("FileName", "parent.bin"))
	o = hdr(cidREP)
	o.SetParent(&rawPar)
	seal(&o, whole[:4], ownerSigner)
	add("v2-first-child", o, ownerSigner, 0)

	o = hdr(cidREP)
	o.SetType(object.TypeTombstone)
	o.SetAttributes(object.NewAttribute(object.AttributeExpirationEpoch, expAttr))
	o.AssociateDeleted(idFrom("target"))
	seal(&o, nil, ownerSigner)
	add("tombstone", o, ownerSigner, 0)

	o = hdr(cidREP)
	o.SetType(object.TypeLock)
	o.SetAttributes(object.NewAttribute(object.AttributeExpirationEpoch, expAttr))
	o.AssociateLocked(idFrom("target"))
	seal(&o, nil, ownerSigner)
	add("lock", o, ownerSigner, 0)

	par = fullParent(cidREP, whole)
	o = hdr(cidREP)
	o.SetType(object.TypeLink)
	o.SetFirstID(idFrom("first"))
	o.SetParent(&par)
	var l object.Link
	var m1, m2 object.MeasuredObject
	m1.SetObjectID(idFrom("first"))
	m1.SetObjectSize(5)
	m2.SetObjectID(idFrom("last"))
	m2.SetObjectSize(3)
	l.SetObjects([]object.MeasuredObject{m1, m2})
	seal(&o, l.Marshal(), ownerSigner)
	add("link", o, ownerSigner, 0)

	// EC parts (container with EC 2/1): parent announces the part hashes, parts are unsigned
	ecPayload := pay(5, 0x40)
	parts, sums, err := iec.Encode(ecRule, bytes.Clone(ecPayload)[:5:5])
	must(err)
	hashes := sums[0]
	for _, s := range sums[1:] {
		hashes += "," + s
	}
	ecPar := fullParent(cidEC, ecPayload, object.NewAttribute(iec.AttributePartsHashes, hashes))
	for _, k := range []int{0, 2} {
		p, err := iec.FormObjectForECPart(nil, ecPar, bytes.Clone(parts[k]), iec.PartInfo{RuleIndex: 0, Index: k})
		must(err)
		add(fmt.Sprintf("ec-part-%d", k), p, nil, (3-k)%3)
	}
	return bs
}

// ---- mutations

type mutation struct {
	Name    string
	Clause  string // which clause of the property it breaks: id | payload | format | auth
	applies func(b *base) bool
	apply   func(o *object.Object, b *base)
}

func always(*base) bool          { return true }
func signed(b *base) bool        { return b.signer != nil }
func isEC(b *base) bool          { return b.signer == nil }
func hasFullParent(b *base) bool { p := b.obj.Parent(); return p != nil && !p.GetID().IsZero() }
func named(n ...string) func(*base) bool {
	return func(b *base) bool {
		for _, x := range n {
			if b.Name == x {
				return true
			}
		}
		return false
	}
}
func and(f ...func(*base) bool) func(*base) bool {
	return func(b *base) bool {
		for _, g := range f {
			if !g(b) {
				return false
			}
		}
		return true
	}
}
func not(f func(*base) bool) func(*base) bool { return func(b *base) bool { return !f(b) } }

func flip(b []byte, i int) []byte {
	c := bytes.Clone(b)
	c[i%len(c)] ^= 0x01
	return c
}

func addAttr(o *object.Object, k, v string) {
	o.SetAttributes(append(o.Attributes(), object.NewAttribute(k, v))...)
}

func setAttr(o *object.Object, k, v string) {
	as := o.Attributes()
	for i := range as {
		if as[i].Key() == k {
			as[i].SetValue(v)
			o.SetAttributes(as...)
			return
		}
	}
	addAttr(o, k, v)
}

func dropAttr(o *object.Object, k string) {
	var as []object.Attribute
	for _, a := range o.Attributes() {
		if a.Key() != k {
			as = append(as, a)
		}
	}
	o.SetAttributes(as...)
}

func withParent(o *object.Object, f func(p *object.Object)) {
	p := clone(*o.Parent())
	f(&p)
	o.SetParent(&p)
}

func buildMutations() []mutation {
	var ms []mutation
	add := func(name, clause string, applies func(*base) bool, apply func(o *object.Object, b *base)) {
		ms = append(ms, mutation{name, clause, applies, apply})
	}

	// --- header field changed; three fix-up levels that can never make it authentic
	type field struct {
		name    string
		applies func(*base) bool
		f       func(o *object.Object)
	}
	fields := []field{
		{"version-minor+1", always, func(o *object.Object) {
			v := *o.Version()
			v.SetMinor(v.Minor() + 1)
			o.SetVersion(&v)
		}},
		{"creation-epoch+1", always, func(o *object.Object) { o.SetCreationEpoch(o.CreationEpoch() + 1) }},
		{"declared-size+1", always, func(o *object.Object) { o.SetPayloadSize(o.PayloadSize() + 1) }},
		{"declared-size-1", func(b *base) bool { return b.obj.PayloadSize() > 0 }, func(o *object.Object) { o.SetPayloadSize(o.PayloadSize() - 1) }},
		{"checksum-byte", always, func(o *object.Object) {
			cs, _ := o.PayloadChecksum()
			o.SetPayloadChecksum(checksum.New(cs.Type(), flip(cs.Value(), 3)))
		}},
		{"attribute-added", not(isEC), func(o *object.Object) { addAttr(o, "extra", "1") }},
		{"attribute-value", named("regular+attrs"), func(o *object.Object) { setAttr(o, "k1", "changed") }},
		{"container->other-known", not(isEC), func(o *object.Object) { o.SetContainerID(cidEC) }},
		{"container->unknown", always, func(o *object.Object) { o.SetContainerID(cidOther) }},
		{"previous-id", named("v2-last-child", "v1-last-child"), func(o *object.Object) { o.SetPreviousID(idFrom("other-prev")) }},
		{"first-id", named("v2-last-child", "link"), func(o *object.Object) { o.SetFirstID(idFrom("other-first")) }},
		{"associated-target", named("tombstone", "lock"), func(o *object.Object) {
			setAttr(o, "__NEOFS__ASSOCIATE", idFrom("other-target").String())
		}},
		{"parent-attribute", func(b *base) bool { return b.obj.Parent() != nil }, func(o *object.Object) {
			withParent(o, func(p *object.Object) { setAttr(p, "FileName", "evil.bin") })
		}},
		{"session-token-removed", named("regular+session"), func(o *object.Object) { o.SetSessionToken(nil) }},
	}
	for _, f := range fields {
		f := f
		add(f.name+"/stale-id", "id", f.applies, func(o *object.Object, b *base) { f.f(o) })
		add(f.name+"/new-id-stale-signature", "auth", and(f.applies, signed), func(o *object.Object, b *base) {
			f.f(o)
			sig := o.Signature()
			must(o.CalculateAndSetID())
			o.SetSignature(sig)
		})
		add(f.name+"/new-id-attacker-signature", "auth", and(f.applies, signed), func(o *object.Object, b *base) {
			f.f(o)
			resign(o, attackerSigner)
		})
	}
	add("owner->attacker/stale-id", "id", always, func(o *object.Object, b *base) { o.SetOwner(attackerSigner.UserID()) })
	add("owner->attacker/new-id-stale-signature", "auth", signed, func(o *object.Object, b *base) {
		o.SetOwner(attackerSigner.UserID())
		sig := o.Signature()
		must(o.CalculateAndSetID())
		o.SetSignature(sig)
	})
	add("unchanged/attacker-signature", "auth", signed, func(o *object.Object, b *base) { resign(o, attackerSigner) })

	// --- ID / signature themselves
	add("id-byte", "id", always, func(o *object.Object, b *base) {
		id := o.GetID()
		id[5] ^= 1
		o.SetID(id)
	})
	add("id-byte/signed-over-bogus-id", "id", signed, func(o *object.Object, b *base) {
		id := o.GetID()
		id[5] ^= 1
		o.SetID(id)
		must(o.Sign(b.signer))
	})
	add("signature-value-byte", "auth", signed, func(o *object.Object, b *base) {
		s := *o.Signature()
		s.SetValue(flip(s.Value(), 10))
		o.SetSignature(&s)
	})
	add("signature-key->attacker", "auth", signed, func(o *object.Object, b *base) {
		s := *o.Signature()
		s.SetPublicKeyBytes(attackerKey.PublicKey().Bytes())
		o.SetSignature(&s)
	})
	add("signature-removed", "auth", signed, func(o *object.Object, b *base) { o.SetSignature(nil) })

	// --- self-consistent (ID recomputed, signed by the legitimate signer) but invalid format/attributes
	legit := func(name, clause string, applies func(*base) bool, f func(o *object.Object, b *base)) {
		add(name+"/legit-signature", clause, applies, func(o *object.Object, b *base) {
			f(o, b)
			resign(o, b.signer)
		})
	}
	legit("attribute-zero-byte-in-key", "format", not(isEC), func(o *object.Object, b *base) { addAttr(o, "ke\x00y", "v") })
	legit("attribute-zero-byte-in-value", "format", not(isEC), func(o *object.Object, b *base) { addAttr(o, "key", "v\x00") })
	legit("attribute-duplicate", "format", not(isEC), func(o *object.Object, b *base) { addAttr(o, "dup", "1"); addAttr(o, "dup", "2") })
	legit("attribute-duplicate-same-value", "format", named("regular+attrs"), func(o *object.Object, b *base) { addAttr(o, "k1", "v1") })
	legit("attribute-empty-value", "format", not(isEC), func(o *object.Object, b *base) { addAttr(o, "empty", "") })
	legit("expiration-in-the-past", "format", not(isEC), func(o *object.Object, b *base) { setAttr(o, object.AttributeExpirationEpoch, "50") })
	legit("expiration-not-a-number", "format", not(isEC), func(o *object.Object, b *base) { setAttr(o, object.AttributeExpirationEpoch, "soon") })
	legit("no-expiration", "format", named("tombstone", "lock"), func(o *object.Object, b *base) { dropAttr(o, object.AttributeExpirationEpoch) })
	legit("no-target", "format", named("tombstone", "lock"), func(o *object.Object, b *base) { dropAttr(o, "__NEOFS__ASSOCIATE") })
	legit("system-object-with-payload", "format", named("tombstone", "lock"), func(o *object.Object, b *base) {
		o.SetPayload([]byte{1, 2})
		o.SetPayloadSize(2)
		o.CalculateAndSetPayloadChecksum()
	})
	legit("ec-attribute-in-non-ec-container", "format", not(isEC), func(o *object.Object, b *base) { addAttr(o, iec.AttributeRuleIdx, "0") })
	legit("ec-hashes-attribute-in-non-ec-container", "format", not(isEC), func(o *object.Object, b *base) { addAttr(o, iec.AttributePartsHashes, "00") })
	legit("storage-group-type", "format", named("regular", "regular+attrs"), func(o *object.Object, b *base) {
		o.SetType(object.TypeStorageGroup) //nolint:staticcheck
	})
	legit("both-session-tokens", "format", named("regular+session"), func(o *object.Object, b *base) {
		t2 := sessionTokenV2(attackerSigner) // wire-valid v2 token (issued by a stranger) next to the v1 token
		o.SetSessionTokenV2(&t2)
	})
	legit("owner-zero", "format", named("regular"), func(o *object.Object, b *base) { o.SetOwner(user.ID{}) })
	legit("v1-member-with-first-id", "format", named("v1-last-child"), func(o *object.Object, b *base) { o.SetFirstID(idFrom("first")) })
	legit("v2-middle-without-previous", "format", named("v2-last-child"), func(o *object.Object, b *base) { o.ResetPreviousID() })
	legit("link-parent-unsigned", "format", named("link"), func(o *object.Object, b *base) {
		withParent(o, func(p *object.Object) { p.SetSignature(nil) })
	})
	// payload does not match the (self-consistent, legitimately signed) header
	legit("declared-size+1", "payload", and(signed, named("regular", "regular+attrs", "regular+session", "v2-last-child", "link")), func(o *object.Object, b *base) {
		o.SetPayloadSize(o.PayloadSize() + 1)
	})
	legit("declared-size-1", "payload", and(signed, named("regular", "regular+attrs", "regular+session", "v2-last-child", "link")), func(o *object.Object, b *base) {
		o.SetPayloadSize(o.PayloadSize() - 1)
	})
	legit("checksum-of-other-payload", "payload", always, func(o *object.Object, b *base) {
		o.SetPayloadChecksum(object.CalculatePayloadChecksum(append(bytes.Clone(o.Payload()), 0xEE)))
	})
	legit("checksum-type-tz", "payload", signed, func(o *object.Object, b *base) {
		cs, _ := o.PayloadChecksum()
		o.SetPayloadChecksum(checksum.New(checksum.TillichZemor, bytes.Repeat(cs.Value(), 2)))
	})
	// parent header
	legit("parent-id-byte", "id", hasFullParent, func(o *object.Object, b *base) {
		withParent(o, func(p *object.Object) {
			id := p.GetID()
			id[9] ^= 1
			p.SetID(id)
		})
	})
	legit("parent-signature-byte", "auth", hasFullParent, func(o *object.Object, b *base) {
		withParent(o, func(p *object.Object) {
			s := *p.Signature()
			s.SetValue(flip(s.Value(), 7))
			p.SetSignature(&s)
		})
	})
	legit("parent-header-changed-after-signing", "id", hasFullParent, func(o *object.Object, b *base) {
		withParent(o, func(p *object.Object) { setAttr(p, "FileName", "evil.bin") })
	})
	legit("parent-payload-size-changed-after-signing", "id", and(hasFullParent, not(isEC)), func(o *object.Object, b *base) {
		withParent(o, func(p *object.Object) { p.SetPayloadSize(p.PayloadSize() + 1) })
	})
	legit("parent-unsigned", "auth", hasFullParent, func(o *object.Object, b *base) {
		withParent(o, func(p *object.Object) { p.SetSignature(nil) })
	})
	legit("parent-signature-key->attacker", "auth", hasFullParent, func(o *object.Object, b *base) {
		withParent(o, func(p *object.Object) {
			s := *p.Signature()
			s.SetPublicKeyBytes(attackerKey.PublicKey().Bytes())
			p.SetSignature(&s)
		})
	})
	legit("parent-id-byte-and-signed-over-bogus-id", "id", hasFullParent, func(o *object.Object, b *base) {
		withParent(o, func(p *object.Object) {
			id := p.GetID()
			id[9] ^= 1
			p.SetID(id)
			must(p.Sign(ownerSigner))
		})
	})
	legit("parent-owner->attacker-resealed-by-owner", "auth", and(hasFullParent, not(isEC)), func(o *object.Object, b *base) {
		withParent(o, func(p *object.Object) { p.SetOwner(attackerSigner.UserID()); resign(p, ownerSigner) })
	})
	legit("parent-signed-by-attacker", "auth", hasFullParent, func(o *object.Object, b *base) {
		withParent(o, func(p *object.Object) { resign(p, attackerSigner) })
	})
	legit("parent-attribute-zero-byte-legit", "format", and(hasFullParent, not(isEC)), func(o *object.Object, b *base) {
		withParent(o, func(p *object.Object) { addAttr(p, "k", "v\x00"); resign(p, ownerSigner) })
	})
	legit("parent-expired-legit", "format", and(hasFullParent, not(isEC)), func(o *object.Object, b *base) {
		withParent(o, func(p *object.Object) { addAttr(p, object.AttributeExpirationEpoch, "50"); resign(p, ownerSigner) })
	})
	legit("unfinished-parent-attribute-zero-byte", "format", named("v2-first-child"), func(o *object.Object, b *base) {
		withParent(o, func(p *object.Object) { addAttr(p, "k\x00", "v") })
	})
	legit("parent-nesting-3", "format", named("v2-last-child", "v1-last-child"), func(o *object.Object, b *base) {
		mk := func(inner *object.Object, whole []byte) object.Object {
			p := hdr(cidREP)
			p.SetSplitID(object.NewSplitIDFromV2(uuid4(9)))
			if inner != nil {
				p.SetParent(inner)
			}
			p.SetPayloadSize(uint64(len(whole)))
			p.SetPayloadChecksum(object.CalculatePayloadChecksum(whole))
			resign(&p, ownerSigner)
			return p
		}
		p3 := mk(nil, pay(8, 0x30))
		p2 := mk(&p3, pay(8, 0x30))
		p1 := mk(&p2, pay(8, 0x30))
		o.SetParent(&p1)
	})
	// session token
	legit("token-signature-byte", "auth", named("regular+session"), func(o *object.Object, b *base) {
		t := *o.SessionToken()
		s, _ := t.Signature()
		s.SetValue(flip(s.Value(), 11))
		t.AttachSignature(s)
		o.SetSessionToken(&t)
	})
	legit("token-for-another-key", "auth", named("regular+session"), func(o *object.Object, b *base) {
		t := sessionToken(user.NewAutoIDSignerRFC6979(otherKey.PrivateKey).Public(), ownerSigner)
		o.SetSessionToken(&t)
	})
	legit("token-issued-by-attacker", "auth", named("regular+session"), func(o *object.Object, b *base) {
		t := sessionToken(sessionSigner.Public(), attackerSigner)
		o.SetSessionToken(&t)
	})
	legit("token-issuer-field->owner-but-signed-by-attacker", "auth", named("regular+session"), func(o *object.Object, b *base) {
		t := sessionToken(sessionSigner.Public(), attackerSigner)
		t.SetIssuer(ownerSigner.UserID())
		must(t.SetSignature(attackerSigner))
		o.SetSessionToken(&t)
	})
	add("token-kept/object-signed-by-owner-not-session-key", "auth", named("regular+session"), func(o *object.Object, b *base) { resign(o, ownerSigner) })
	add("token-kept/object-signed-by-attacker", "auth", named("regular+session"), func(o *object.Object, b *base) { resign(o, attackerSigner) })

	// --- EC part specific (ID recomputed, parts carry no signature)
	ec := func(name string, f func(o *object.Object, b *base)) {
		add(name+"/new-id", "format", isEC, func(o *object.Object, b *base) {
			f(o, b)
			must(o.CalculateAndSetID())
		})
	}
	ec("ec-part-signed-by-owner", func(o *object.Object, b *base) { must(o.CalculateAndSetID()); must(o.Sign(ownerSigner)) })
	ec("ec-part-with-session-token", func(o *object.Object, b *base) {
		t := sessionToken(sessionSigner.Public(), ownerSigner)
		o.SetSessionToken(&t)
	})
	ec("ec-part-index->1", func(o *object.Object, b *base) { setAttr(o, iec.AttributePartIdx, "1") })
	ec("ec-part-index->3", func(o *object.Object, b *base) { setAttr(o, iec.AttributePartIdx, "3") })
	ec("ec-rule-index->1", func(o *object.Object, b *base) { setAttr(o, iec.AttributeRuleIdx, "1") })
	ec("ec-part-index-missing", func(o *object.Object, b *base) { dropAttr(o, iec.AttributePartIdx) })
	ec("ec-part-index-not-a-number", func(o *object.Object, b *base) { setAttr(o, iec.AttributePartIdx, "x") })
	ec("ec-part-with-user-attribute", func(o *object.Object, b *base) { addAttr(o, "user", "attr") })
	ec("ec-part-other-payload", func(o *object.Object, b *base) {
		o.SetPayload(flip(o.Payload(), 1))
		o.CalculateAndSetPayloadChecksum()
	})
	ec("ec-part-longer-payload", func(o *object.Object, b *base) {
		o.SetPayload(append(bytes.Clone(o.Payload()), 1))
		o.SetPayloadSize(uint64(len(o.Payload())))
		o.CalculateAndSetPayloadChecksum()
	})
	ec("ec-part-owner-differs-from-parent", func(o *object.Object, b *base) { o.SetOwner(attackerSigner.UserID()) })
	ec("ec-part-epoch-differs-from-parent", func(o *object.Object, b *base) { o.SetCreationEpoch(o.CreationEpoch() + 1) })
	ec("ec-parent-without-hashes-legit", func(o *object.Object, b *base) {
		withParent(o, func(p *object.Object) { dropAttr(p, iec.AttributePartsHashes); resign(p, ownerSigner) })
	})
	ec("ec-parent-hashes-changed-stale", func(o *object.Object, b *base) {
		withParent(o, func(p *object.Object) {
			for _, a := range p.Attributes() {
				if a.Key() == iec.AttributePartsHashes {
					setAttr(p, iec.AttributePartsHashes, "ff"+a.Value()[2:])
				}
			}
		})
	})
	ec("ec-parent-missing", func(o *object.Object, b *base) { o.SetParent(nil); o.ResetParentID() })
	return ms
}
