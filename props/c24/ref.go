package main

// Reference validity predicate written from the property text (C24), independent of pkg/core/object:
// an object may be stored only if (1) its ID is the hash of its header, (2) its payload has the declared
// length and SHA-256 checksum, (3) its format and attributes are valid, (4) non-EC: its signature
// authenticates the owner, or the session key of a token issued and signed by the owner.
// Only SDK primitives are used (marshalling, hashing, ECDSA verification).

import (
	"bytes"
	"crypto/elliptic"
	"crypto/sha256"
	"encoding/hex"
	"errors"
	"fmt"
	"strconv"
	"strings"

	"github.com/nspcc-dev/neo-go/pkg/crypto/keys"
	iec "github.com/nspcc-dev/neofs-node/internal/ec"
	"github.com/nspcc-dev/neofs-sdk-go/checksum"
	neofscrypto "github.com/nspcc-dev/neofs-sdk-go/crypto"
	neofsecdsa "github.com/nspcc-dev/neofs-sdk-go/crypto/ecdsa"
	"github.com/nspcc-dev/neofs-sdk-go/object"
	"github.com/nspcc-dev/neofs-sdk-go/user"
	"github.com/nspcc-dev/neofs-sdk-go/version"
)

type refErr struct {
	clause string // id | payload | format | auth
	msg    string
}

func (e *refErr) Error() string { return e.clause + ": " + e.msg }

func bad(clause, f string, a ...any) error { return &refErr{clause, fmt.Sprintf(f, a...)} }

func clauseOf(err error) string {
	var e *refErr
	if errors.As(err, &e) {
		return e.clause
	}
	return "?"
}

// refValid checks a complete object (header + payload as it would be stored).
func refValid(obj object.Object) error {
	if err := refHeader(obj, 0, true); err != nil {
		return err
	}
	return refPayload(obj)
}

func refPayload(obj object.Object) error {
	pl := obj.Payload()
	if uint64(len(pl)) != obj.PayloadSize() {
		return bad("payload", "payload has %d bytes, header declares %d", len(pl), obj.PayloadSize())
	}
	cs, ok := obj.PayloadChecksum()
	if !ok {
		return bad("payload", "no payload checksum")
	}
	if cs.Type() != checksum.SHA256 {
		return bad("payload", "checksum type %v", cs.Type())
	}
	h := sha256.Sum256(pl)
	if !bytes.Equal(h[:], cs.Value()) {
		return bad("payload", "payload does not hash to the declared checksum")
	}
	return nil
}

func ecPrefixed(k string) bool { return strings.HasPrefix(k, iec.AttributePrefix) }

func refAttributes(obj object.Object) error {
	seen := map[string]bool{}
	for _, a := range obj.Attributes() {
		if seen[a.Key()] {
			return bad("format", "duplicate attribute %q", a.Key())
		}
		seen[a.Key()] = true
		if a.Value() == "" {
			return bad("format", "empty attribute value")
		}
		if strings.IndexByte(a.Key(), 0) >= 0 || strings.IndexByte(a.Value(), 0) >= 0 {
			return bad("format", "zero byte in attribute")
		}
		if a.Key() == object.AttributeExpirationEpoch {
			e, err := strconv.ParseUint(a.Value(), 10, 64)
			if err != nil {
				return bad("format", "expiration is not a number")
			}
			if e < currentEpoch {
				return bad("format", "expired object")
			}
		}
	}
	return nil
}

// full = complete (prepared) header: ID and authentication are required.
func refHeader(obj object.Object, nesting int, full bool) error {
	isParent := nesting > 0
	cnr := obj.GetContainerID()
	cnrEC := cnr == cidEC
	if cnr != cidREP && cnr != cidEC {
		return bad("format", "unknown container")
	}
	if obj.Owner().IsZero() {
		return bad("format", "no owner")
	}
	if full {
		v := obj.Version()
		if v == nil || *v != version.Current() {
			return bad("format", "version is not the current one")
		}
	}
	typ := obj.Type()
	switch typ {
	case object.TypeRegular, object.TypeLink:
	case object.TypeTombstone, object.TypeLock:
		if len(obj.Payload()) > 0 || (full && obj.PayloadSize() > 0) {
			return bad("format", "%s with payload", typ)
		}
		if obj.AssociatedObject().IsZero() {
			return bad("format", "%s without target", typ)
		}
		hasExp := false
		for _, a := range obj.Attributes() {
			hasExp = hasExp || a.Key() == object.AttributeExpirationEpoch
		}
		if !hasExp {
			return bad("format", "%s without expiration", typ)
		}
	default:
		return bad("format", "unsupported type %v", typ)
	}
	if err := refAttributes(obj); err != nil {
		return err
	}
	if obj.SessionToken() != nil && obj.SessionTokenV2() != nil {
		return bad("format", "both session tokens")
	}
	// EC attributes
	var ecAttrs, otherAttrs int
	for _, a := range obj.Attributes() {
		if ecPrefixed(a.Key()) {
			ecAttrs++
		} else {
			otherAttrs++
		}
	}
	isECPart := false
	if !cnrEC {
		if ecAttrs > 0 {
			return bad("format", "EC attribute in a container without EC rules")
		}
	} else {
		switch typ {
		case object.TypeRegular:
			if isParent {
				break
			}
			if !full {
				if ecAttrs > 0 {
					return bad("format", "raw object with EC attributes")
				}
				break
			}
			if ecAttrs == 0 {
				return bad("format", "regular object in EC container is not an EC part")
			}
			if otherAttrs > 0 {
				return bad("format", "mix of EC and non-EC attributes")
			}
			isECPart = true
		default:
			if ecAttrs > 0 {
				return bad("format", "%s with EC attributes", typ)
			}
		}
	}
	_, firstSet := obj.FirstID()
	splitID := obj.SplitID()
	par := obj.Parent()
	if !isECPart && obj.HasParent() {
		if splitID != nil {
			if firstSet {
				return bad("format", "v1 split member with first ID")
			}
		} else if firstSet {
			if typ == object.TypeLink && (par == nil || par.Signature() == nil) {
				return bad("format", "link without signed parent header")
			}
			if typ != object.TypeLink && obj.GetPreviousID().IsZero() {
				return bad("format", "v2 middle part without previous ID")
			}
		}
	}
	if full {
		if obj.GetID().IsZero() {
			return bad("id", "no ID")
		}
		id, err := obj.CalculateID()
		if err != nil || id != obj.GetID() {
			return bad("id", "ID is not the hash of the header")
		}
		if isECPart {
			if err := refECPart(obj); err != nil {
				return err
			}
		} else if err := refAuth(obj); err != nil {
			return err
		}
	}
	if par != nil {
		if nesting == 2 {
			return bad("format", "parent nesting too deep")
		}
		parFull := firstSet || splitID != nil || isECPart
		if err := refHeader(*par, nesting+1, parFull); err != nil {
			return fmt.Errorf("parent: %w", err)
		}
	}
	return nil
}

func userOfKeyBytes(b []byte) (user.ID, *neofsecdsa.PublicKey, error) {
	pk, err := keys.NewPublicKeyFromBytes(b, elliptic.P256())
	if err != nil {
		return user.ID{}, nil, err
	}
	return user.NewFromScriptHash(pk.GetScriptHash()), (*neofsecdsa.PublicKey)(pk), nil
}

func refAuth(obj object.Object) error {
	sig := obj.Signature()
	if sig == nil {
		return bad("auth", "no signature")
	}
	switch sig.Scheme() {
	case neofscrypto.ECDSA_SHA512, neofscrypto.ECDSA_DETERMINISTIC_SHA256, neofscrypto.ECDSA_WALLETCONNECT:
	default:
		return bad("auth", "scheme %v not modelled", sig.Scheme())
	}
	signerUser, signerPub, err := userOfKeyBytes(sig.PublicKeyBytes())
	if err != nil {
		return bad("auth", "signature key: %v", err)
	}
	if !sig.Verify(obj.GetID().Marshal()) {
		return bad("auth", "signature does not verify over the ID")
	}
	if obj.SessionTokenV2() != nil {
		return bad("auth", "session v2 tokens are not modelled (none is valid in this world)")
	}
	if st := obj.SessionToken(); st != nil {
		if !st.AssertAuthKey(signerPub) {
			return bad("auth", "session token is not issued for the object signer")
		}
		tsig, ok := st.Signature()
		if !ok {
			return bad("auth", "unsigned session token")
		}
		issuer, _, err := userOfKeyBytes(tsig.PublicKeyBytes())
		if err != nil || !tsig.Verify(st.SignedData()) {
			return bad("auth", "session token signature is invalid")
		}
		if issuer != st.Issuer() {
			return bad("auth", "session token issuer is not its signer")
		}
		if st.Issuer() != obj.Owner() {
			return bad("auth", "session token issuer is not the object owner")
		}
		return nil
	}
	if signerUser != obj.Owner() {
		return bad("auth", "signer is not the owner")
	}
	return nil
}

func refECPart(part object.Object) error {
	if part.Signature() != nil {
		return bad("format", "signed EC part")
	}
	if part.SessionToken() != nil || part.SessionTokenV2() != nil {
		return bad("format", "EC part with session token")
	}
	par := part.Parent()
	if par == nil {
		return bad("format", "EC part without parent header")
	}
	pv, cv := par.Version(), part.Version()
	if (pv == nil) != (cv == nil) || (pv != nil && *pv != *cv) {
		return bad("format", "EC part version differs from parent")
	}
	if par.GetContainerID() != part.GetContainerID() || par.Owner() != part.Owner() || par.CreationEpoch() != part.CreationEpoch() {
		return bad("format", "EC part container/owner/epoch differs from parent")
	}
	var ruleIdx, partIdx = -1, -1
	for _, a := range part.Attributes() {
		switch a.Key() {
		case iec.AttributeRuleIdx, iec.AttributePartIdx:
			n, err := strconv.Atoi(a.Value())
			if err != nil || n < 0 {
				return bad("format", "EC index attribute %q", a.Value())
			}
			if a.Key() == iec.AttributeRuleIdx {
				ruleIdx = n
			} else {
				partIdx = n
			}
		}
	}
	if ruleIdx != 0 {
		return bad("format", "EC rule index %d outside the policy", ruleIdx)
	}
	total := int(ecRule.DataPartNum + ecRule.ParityPartNum)
	if partIdx < 0 || partIdx >= total {
		return bad("format", "EC part index %d outside the rule", partIdx)
	}
	d := uint64(ecRule.DataPartNum)
	if (par.PayloadSize()+d-1)/d != part.PayloadSize() {
		return bad("format", "EC part length does not fit the parent length")
	}
	var hashes []string
	for _, a := range par.Attributes() {
		if ecPrefixed(a.Key()) {
			if a.Key() != iec.AttributePartsHashes {
				return bad("format", "parent with EC attribute %s", a.Key())
			}
			hashes = strings.Split(a.Value(), ",")
		}
	}
	if len(hashes) != total {
		return bad("format", "parent announces %d part hashes", len(hashes))
	}
	cs, ok := part.PayloadChecksum()
	if !ok || hex.EncodeToString(cs.Value()) != hashes[partIdx] {
		return bad("format", "EC part checksum is not the one announced by the parent")
	}
	return nil
}
