#!/usr/bin/env python3
"""Regenerates, from /repo's CURRENT tree, the candidate repairs for the C03/C05 findings as staged copies and as
git-apply diffs (a/ b/ prefixes). /repo is only read. Usage: python3 props/c03/fixcheck/make_stages.py

C05: props/c05/fix_a_plusplus.diff, props/c05/fix_b_range.diff (independent files: signed256.go / metadata.go)
C03: props/c03/fix_1..5_*.diff on pkg/core/object/metadata.go, each applicable on top of the previous ones.
"""
import os, subprocess, sys

REPO = os.environ.get("VERIF_REPO", "/repo")
ROOT = "/verif"
MD = "pkg/core/object/metadata.go"
S256 = "internal/signed256/signed256.go"


def read(p):
    return open(p).read()


def sub(s, old, new, what):
    if s.count(old) != 1:
        sys.exit("make_stages: anchor for %s found %d times (tree changed?)" % (what, s.count(old)))
    return s.replace(old, new)


def diff(rel, a_text, b_text, out):
    os.makedirs("/dev/shm/verif-mkst/a/" + os.path.dirname(rel), exist_ok=True)
    os.makedirs("/dev/shm/verif-mkst/b/" + os.path.dirname(rel), exist_ok=True)
    open("/dev/shm/verif-mkst/a/" + rel, "w").write(a_text)
    open("/dev/shm/verif-mkst/b/" + rel, "w").write(b_text)
    r = subprocess.run(["diff", "-u", "--label", "a/" + rel, "--label", "b/" + rel, "a/" + rel, "b/" + rel],
                       cwd="/dev/shm/verif-mkst", capture_output=True, text=True)
    open(out, "w").write("diff --git a/%s b/%s\n" % (rel, rel) + r.stdout)


# ---------------- C05 a: "++1" / "-+1" ----------------
s0 = read(os.path.join(REPO, S256))
s1 = sub(s0, '''	if s == "" {
		return fmt.Errorf("missing digits")
	}

	if err := z.mag.SetFromDecimal(s); err != nil {''', '''	if s == "" {
		return fmt.Errorf("missing digits")
	}
	if s[0] < '0' || s[0] > '9' { // uint256 skips one more leading '+' itself
		z.neg = false
		return fmt.Errorf("invalid decimal digit %q", s[0])
	}

	if err := z.mag.SetFromDecimal(s); err != nil {''', "signed256 SetFromDecimal")
open(ROOT + "/props/c05/fixcheck/signed256.go", "w").write(s1)
diff(S256, s0, s1, ROOT + "/props/c05/fix_a_plusplus.diff")

# ---------------- C05 b: range check in the merge comparator ----------------
m0 = read(os.path.join(REPO, MD))
mb = sub(m0, '''					if _, _, err = splitIntString(sets[i][0].Attributes[0]); err != nil {''',
         '''					if _, err = compareIntStrings(sets[i][0].Attributes[0], "0"); err != nil {''', "merge first item")
mb = sub(mb, '''	if na != nb {
		if na {
			return -1, nil
		}
		return 1, nil
	}

	if len(da)''', '''	if compareNormalizedDigits(da, maxSigned256Digits) > 0 || compareNormalizedDigits(db, maxSigned256Digits) > 0 {
		return 0, errors.New("integer out of range")
	}

	if na != nb {
		if na {
			return -1, nil
		}
		return 1, nil
	}

	if len(da)''', "compareIntStrings")
open(ROOT + "/props/c05/fixcheck/metadata.go", "w").write(mb)
diff(MD, m0, mb, ROOT + "/props/c05/fix_b_range.diff")

# ---------------- C03 stages on metadata.go ----------------
stages = []

# 1: panic on [A <m> v, A NOT_PRESENT] with attributes requested
t1 = sub(m0, '''				mch, val := convertFilterValue(fs[i].SearchFilter)
				var matches bool
				if IsIntegerSearchOp(mch) {
					matches = fs[i].AutoMatch || intBytesMatch(primDBVal, mch, fs[i].Raw)''',
         '''				mch, val := convertFilterValue(fs[i].SearchFilter)
				if mch == object.MatchNotPresent { // here i > 0: the object does have the primary attribute
					return true
				}
				var matches bool
				if IsIntegerSearchOp(mch) {
					matches = fs[i].AutoMatch || intBytesMatch(primDBVal, mch, fs[i].Raw)''', "stage1")
stages.append(("fix_1_panic_same_key_not_present", t1))

# 2: filters on the primary attribute that need the other index kind are checked against the stored value
t2 = sub(t1, '''	fltVals := make([]signed256.Int, len(fs))
	fltValReady := make([]bool, len(fs))
''', '''	fltVals := make([]signed256.Int, len(fs))
	fltValReady := make([]bool, len(fs))
	// filters on the primary attribute which cannot be evaluated on the primary index key (other kind of index or
	// NOT_PRESENT) are checked against the stored value like filters on other attributes.
	onPrimKey := func(i int) bool {
		if i == 0 {
			return true
		}
		m, _ := convertFilterValue(fs[i].SearchFilter)
		return fs[i].Header() == fs[0].Header() && m != object.MatchNotPresent && IsIntegerSearchOp(m) == intPrimMatcher
	}
''', "stage2a")
t2 = sub(t2, '''				attr := fs[i].Header()
				if i > 0 && attr != fs[0].Header() {
					continue
				}
				mch, val := convertFilterValue(fs[i].SearchFilter)
				if mch == object.MatchNotPresent { // here i > 0: the object does have the primary attribute
					return true
				}
''', '''				attr := fs[i].Header()
				if !onPrimKey(i) {
					continue
				}
				mch, val := convertFilterValue(fs[i].SearchFilter)
''', "stage2b")
t2 = sub(t2, '''			if !idIter && (i == 0 || fs[i].Header() == fs[0].Header()) { // 1st already checked
				continue
			}''', '''			if !idIter && onPrimKey(i) { // already checked
				continue
			}''', "stage2c")
stages.append(("fix_2_same_key_filter_of_other_kind", t2))

# 3: a mismatch of a later filter on the primary attribute must not end the scan (except upper bounds)
t3 = sub(t2, '''				if !matches {
					if mch != object.MatchStringNotEqual && (wasPrimMatch || mch != object.MatchNumGT) {
						return false
					}
					return true
				}''', '''				if !matches {
					if i > 0 { // only the primary filter and upper bounds may end the scan
						return mch != object.MatchNumLT && mch != object.MatchNumLE
					}
					if mch != object.MatchStringNotEqual && (wasPrimMatch || mch != object.MatchNumGT) {
						return false
					}
					return true
				}''', "stage3")
stages.append(("fix_3_same_key_filter_early_stop", t3))

# 4: primary COMMON_PREFIX with a partial value of a binary-stored attribute
t4 = sub(t3, '''		return fs[i].Header() == fs[0].Header() && m != object.MatchNotPresent && IsIntegerSearchOp(m) == intPrimMatcher
	}
''', '''		return fs[i].Header() == fs[0].Header() && m != object.MatchNotPresent && IsIntegerSearchOp(m) == intPrimMatcher
	}
	primFullScan := primMatcher == object.MatchCommonPrefix && prefixNeedsFullScan(fs[0].Header(), fs[0].Value())
''', "stage4a")
t4 = sub(t4, '''					if mch != object.MatchStringNotEqual && (wasPrimMatch || mch != object.MatchNumGT) {
						return false
					}''', '''					if mch != object.MatchStringNotEqual && !primFullScan && (wasPrimMatch || mch != object.MatchNumGT) {
						return false
					}''', "stage4b")
t4 = sub(t4, '''	if !oidSorted && cursor == "" && primMatcher != object.MatchStringNotEqual && !IsIntegerSearchOp(primMatcher) {
		switch attr := fs[0].Header(); attr {''', '''	if !oidSorted && cursor == "" && primMatcher != object.MatchStringNotEqual && !IsIntegerSearchOp(primMatcher) &&
		!(primMatcher == object.MatchCommonPrefix && prefixNeedsFullScan(fs[0].Header(), primVal)) {
		switch attr := fs[0].Header(); attr {''', "stage4c")
t4 = sub(t4, '''func hasIntFilters(fs object.SearchFilters) bool {''', '''// prefixNeedsFullScan reports whether a COMMON_PREFIX value of a binary-stored attribute is not a complete value:
// then it is not a prefix of the stored bytes (Base58) or cannot be decoded (odd HEX, partial UUID), and all values
// of the attribute have to be checked in their string form.
func prefixNeedsFullScan(attr, val string) bool {
	switch attr {
	case object.FilterOwnerID:
		b, _ := base58.Decode(val)
		return len(b) != user.IDSize
	case object.FilterFirstSplitObject, object.FilterParentID, object.AttributeAssociatedObject:
		b, _ := base58.Decode(val)
		return len(b) != oid.Size
	//nolint:staticcheck // see above
	case object.FilterPayloadChecksum, object.FilterPayloadHomomorphicHash:
		_, err := hex.DecodeString(val)
		return err != nil
	case object.FilterSplitID:
		_, err := uuid.Parse(val)
		return err != nil
	}
	return false
}

func hasIntFilters(fs object.SearchFilters) bool {''', "stage4d")
stages.append(("fix_4_primary_prefix_partial_binary_value", t4))

# 5 (optional): numeric primary attribute is returned as stored, not in normal form
t5 = sub(t4, '''			if intPrimMatcher {
				if collected[0], err = RestoreIntAttribute(primDBVal); err != nil {
					resHolder.Err = invalidMetaBucketKeyErr(k, fmt.Errorf("invalid integer value: %w", err))
					return false
				}
			} else {''', '''			if intPrimMatcher {
				// the integer index keeps the number only: take the spelling from the stored value
				stored, err := attrGetter.Get(id, attrs[0])
				if err != nil {
					resHolder.Err = err
					return false
				}
				if collected[0] = string(stored); stored == nil {
					if collected[0], err = RestoreIntAttribute(primDBVal); err != nil {
						resHolder.Err = invalidMetaBucketKeyErr(k, fmt.Errorf("invalid integer value: %w", err))
						return false
					}
				}
			} else {''', "stage5")
stages.append(("fix_5_numeric_primary_value_as_stored", t5))

prev = m0
for i, (name, text) in enumerate(stages, 1):
    open("%s/props/c03/fixcheck/stage%d_metadata.go" % (ROOT, i), "w").write(text)
    diff(MD, prev, text, "%s/props/c03/%s.diff" % (ROOT, name))
    spec = "# candidate repairs up to stage %d (never applied to /repo)\n" % i
    spec += "replace %s props/c05/fixcheck/signed256.go\n" % S256
    spec += "replace %s props/c03/fixcheck/stage%d_metadata.go\n" % (MD, i)
    open("%s/props/c03/fixcheck/stage%d.spec" % (ROOT, i), "w").write(spec)
    prev = text
# stage 0: only the C05 "++1" repair
open(ROOT + "/props/c03/fixcheck/stage0.spec", "w").write("replace %s props/c05/fixcheck/signed256.go\n" % S256)
subprocess.run(["rm", "-rf", "/dev/shm/verif-mkst"])
print("ok")
