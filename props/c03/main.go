// C03: metabase / shard search returns exactly the matching available objects, ordered by the first requested
// attribute and then by object ID, across pages of any size.
//
// enumx: 3 curated corpora x exhaustive filter lists (every single filter of a value alphabet, every ordered pair
// (quick: over a reduced filter set), thorough also triples) x requested attributes {none, primary, primary+second}
// x page sizes {1,2,3,N,N+1}; every query is paged to exhaustion with the returned cursor through
// PreprocessSearchQuery + DB.Search (and Shard.Search, DB.Select, Shard.Select), and compared with an independent
// reference (filter -> sort -> page) written from the property text and the search API description.
package main

import (
	"bytes"
	"encoding/base64"
	"errors"
	"fmt"
	"math"
	"os"
	"path/filepath"
	"runtime"
	"sort"
	"strings"
	"sync"
	"sync/atomic"
	"time"

	"github.com/nspcc-dev/bbolt"
	objectcore "github.com/nspcc-dev/neofs-node/pkg/core/object"
	"github.com/nspcc-dev/neofs-node/pkg/local_object_storage/blobstor/common"
	"github.com/nspcc-dev/neofs-node/pkg/local_object_storage/blobstor/fstree"
	meta "github.com/nspcc-dev/neofs-node/pkg/local_object_storage/metabase"
	"github.com/nspcc-dev/neofs-node/pkg/local_object_storage/shard"
	"github.com/nspcc-dev/neofs-node/verif/lib/enumx"
	"github.com/nspcc-dev/neofs-node/verif/lib/ev"
	"github.com/nspcc-dev/neofs-sdk-go/client"
	cid "github.com/nspcc-dev/neofs-sdk-go/container/id"
	"github.com/nspcc-dev/neofs-sdk-go/object"
	oid "github.com/nspcc-dev/neofs-sdk-go/object/id"
	"github.com/nspcc-dev/neofs-sdk-go/user"
	"go.uber.org/zap"
)

var r *ev.Run

type epochState struct{}

func (epochState) CurrentEpoch() uint64 { return curEpoch }

// searcher: the entry points under test.
type searcher interface {
	Search(cnr cid.ID, fs []objectcore.SearchFilter, attrs []string, cursor *objectcore.SearchCursor, count uint16) ([]client.SearchResultItem, []byte, error)
	Select(cnr cid.ID, filters object.SearchFilters) ([]oid.Address, error)
}

type world struct {
	c  *corpus
	db *meta.DB
	sh *shard.Shard
}

var tmpDir string

func fatalIf(err error, what string) {
	if err != nil {
		cleanup()
		r.Fatal("%s: %v", what, err)
	}
}

func cleanup() {
	if tmpDir != "" {
		os.RemoveAll(tmpDir)
	}
}

func boltOpts() *bbolt.Options {
	return &bbolt.Options{NoSync: true, NoFreelistSync: true, Timeout: time.Second}
}

func buildWorld(c *corpus, replica int) *world {
	w := &world{c: c}
	dir := filepath.Join(tmpDir, fmt.Sprintf("%s-%d", c.name, replica))
	fatalIf(os.MkdirAll(dir, 0o755), "mkdir")
	w.db = meta.New(meta.WithPath(filepath.Join(dir, "meta.db")), meta.WithEpochState(epochState{}), meta.WithLogger(zap.NewNop()),
		meta.WithBoltDBOptions(boltOpts()), meta.WithMaxBatchSize(1), meta.WithMaxBatchDelay(time.Microsecond), meta.WithSearchIterationLimit(0))
	fatalIf(w.db.Open(false), "open metabase")
	sid, _ := common.NewIDFromBytes(bytes.Repeat([]byte{7}, common.IDSize))
	fatalIf(w.db.Init(sid), "init metabase")
	fst := fstree.New(fstree.WithPath(filepath.Join(dir, "fstree")))
	w.sh = shard.New(shard.WithLogger(zap.NewNop()), shard.WithBlobstor(fst), shard.WithWriteCache(false),
		shard.WithGCRemoverSleepInterval(24*time.Hour),
		shard.WithMetaBaseOptions(meta.WithPath(filepath.Join(dir, "shard-meta.db")), meta.WithEpochState(epochState{}), meta.WithLogger(zap.NewNop()),
			meta.WithBoltDBOptions(boltOpts()), meta.WithMaxBatchSize(1), meta.WithMaxBatchDelay(time.Microsecond), meta.WithSearchIterationLimit(0)))
	fatalIf(w.sh.Open(), "open shard")
	fatalIf(w.sh.Init(), "init shard")
	for _, o := range c.objs {
		fatalIf(w.db.Put(o), "metabase put "+o.GetID().String())
		fatalIf(w.sh.Put(o, nil), "shard put "+o.GetID().String())
	}
	if len(c.marks) > 0 {
		_, err := w.db.MarkGarbage(c.cnr, c.marks, meta.GarbageMarkDefault)
		fatalIf(err, "mark garbage")
		fatalIf(w.sh.MarkGarbage(c.cnr, c.marks, meta.GarbageMarkDefault), "shard mark garbage")
	}
	// harness sanity: the model's availability flags are what the store itself reports for direct lookups
	for _, m := range c.model {
		for name, ex := range map[string]func(oid.Address, bool) (bool, error){"metabase": w.db.Exists, "shard": w.sh.Exists} {
			ok, err := ex(oid.NewAddress(c.cnr, m.id), false)
			got := ok && err == nil
			if err != nil && m.attrs[kPhy] == "" && m.avail { // virtual parent: reported through a split-info error
				got = true
			}
			if got != m.avail {
				fatalIf(fmt.Errorf("%s Exists(%s/%s) = %v,%v; model availability %v", name, c.name, m.label, ok, err, m.avail), "corpus sanity")
			}
		}
	}
	return w
}

// ---------- filters ----------

type qfilter struct {
	filter
	quick bool // member of the reduced set used for pairs in the quick tier (and for third filters)
	third bool
}

func keyKind(k string) string {
	switch k {
	case kOwner:
		return "owner"
	case kParent, kFirst, kAssoc:
		return "oid"
	case kHash:
		return "checksum"
	case kSplitID:
		return "splitid"
	case kType, kVersion:
		return "sysstr"
	case kEpoch, kSize:
		return "sysint"
	case kRoot, kPhy:
		return "flag"
	}
	return "user"
}

func allFilters(c *corpus) []qfilter {
	var out []qfilter
	seen := map[filter]int{}
	add := func(k string, m int, v string, flags ...bool) {
		f := filter{k, m, v}
		q := qfilter{filter: f}
		if len(flags) > 0 {
			q.quick = flags[0]
		}
		if len(flags) > 1 {
			q.third = flags[1]
		}
		if i, ok := seen[f]; ok {
			out[i].quick = out[i].quick || q.quick
			out[i].third = out[i].third || q.third
			return
		}
		seen[f] = len(out)
		out = append(out, q)
	}
	strVals := []string{"", "a", "ab", "abc", "b", "x", "0", "1", "01", "+1", "-1", "-0", "9", "10", "1e3", sMax, sMaxP1, sMin, sMinM1, "++1", "5"}
	intVals := []string{"0", "1", "01", "+1", "-1", "-0", "9", "10", "5", sMax, sMin, sPlusMx}
	badInts := []string{"", "a", "1e3", sMaxP1, sMinM1, "++1", " 1"}
	for _, k := range []string{"A", "B"} {
		for _, m := range []int{mEQ, mNE, mPrefix} {
			for _, v := range strVals {
				add(k, m, v)
			}
		}
		add(k, mNotPresent, "")
		for _, m := range []int{mGT, mGE, mLT, mLE} {
			for _, v := range intVals {
				add(k, m, v)
			}
		}
		for _, m := range []int{mGT, mLE} {
			for _, v := range badInts {
				add(k, m, v)
			}
		}
	}
	// reduced set (pairs in the quick tier)
	for _, f := range []filter{
		{"A", mEQ, "a"}, {"A", mEQ, "ab"}, {"A", mEQ, "1"}, {"A", mEQ, "+1"}, {"A", mNE, "a"}, {"A", mNE, ""}, {"A", mNE, "1"},
		{"A", mPrefix, ""}, {"A", mPrefix, "a"}, {"A", mPrefix, "ab"}, {"A", mPrefix, "1"}, {"A", mPrefix, "-"}, {"A", mNotPresent, ""},
		{"A", mGT, "0"}, {"A", mGT, "-1"}, {"A", mGT, "1"}, {"A", mGE, "1"}, {"A", mGE, sMin}, {"A", mGE, "10"}, {"A", mLT, "10"}, {"A", mLT, "0"}, {"A", mLT, sMax},
		{"A", mLE, "1"}, {"A", mLE, sMax}, {"A", mLE, "-1"}, {"A", mGT, sMax}, {"A", mGT, "a"},
		{"B", mEQ, "b"}, {"B", mNE, "b"}, {"B", mPrefix, "a"}, {"B", mPrefix, ""}, {"B", mNotPresent, ""}, {"B", mGT, "0"}, {"B", mLE, "5"}, {"B", mGE, "5"},
	} {
		add(f.K, f.M, f.V, true)
	}
	for _, f := range []filter{{"A", mNE, "a"}, {"A", mPrefix, "a"}, {"A", mGE, "1"}, {"A", mLT, "10"}, {"B", mEQ, "b"}, {"B", mNotPresent, ""}, {"B", mLE, "5"}} {
		add(f.K, f.M, f.V, true, true)
	}
	add("AB", mEQ, "a")
	add("AB", mPrefix, "", true)
	add("AB", mNotPresent, "")

	o1, o2, o3 := ownerOf(1).EncodeToString(), ownerOf(2).EncodeToString(), ownerOf(3).EncodeToString()
	for _, m := range []int{mEQ, mNE, mPrefix} {
		for _, v := range []string{o1, o2, o3, "N", o1[:2], o1[:len(o1)-1], o2[:len(o2)/2], ""} {
			add(kOwner, m, v, v == o1 || (m == mPrefix && (v == "N" || v == o1[:len(o1)-1])))
		}
		for _, v := range []string{"REGULAR", "TOMBSTONE", "LOCK", "LINK", "R", "T", "L", ""} {
			add(kType, m, v, v == "REGULAR" || (m == mPrefix && v == "L"))
		}
		for _, v := range []string{verString, "v2", "v3"} {
			add(kVersion, m, v)
		}
		for _, v := range []string{"10", "1", "5"} {
			add(kSize, m, v)
		}
		add(kEpoch, m, "1")
		add(kExp, m, "3")
	}
	add(kOwner, mGT, "1")
	add(kType, mGT, "1")
	for _, m := range []int{mGT, mGE, mLT, mLE} {
		for _, v := range []string{"0", "5", "10", "11", sMax, "-1"} {
			add(kSize, m, v, v == "5" || v == "10")
		}
		for _, v := range []string{"0", "1", "2"} {
			add(kEpoch, m, v, v == "1" && (m == mGE || m == mLT))
		}
		add(kExp, m, "3", m == mGE)
	}
	add(kExp, mNotPresent, "", true)
	add(kSize, mGT, "x")
	add(kRoot, mNone, "", true, true)
	add(kPhy, mNone, "", true)

	// system values taken from the corpus "sys" layout (present in every corpus as far as they exist)
	lbl := func(l string) (oid.ID, bool) {
		for i := range c.specs {
			if c.specs[i].label == l {
				return idOf(c.name, l), true
			}
		}
		return oid.ID{}, false
	}
	other := oid.ID(hashOf("other-id")).EncodeToString()
	first := c.model[0]
	h := first.attrs[kHash]
	otherH := fmt.Sprintf("%x", hashOf("other-hash"))
	for _, m := range []int{mEQ, mNE, mPrefix} {
		for _, v := range []string{h, otherH, h[:2], h[:3], h[:63], ""} {
			add(kHash, m, v, v == h || (m == mPrefix && (v == h[:2] || v == h[:3])))
		}
	}
	if id, ok := lbl("P"); ok {
		p := id.EncodeToString()
		c1, _ := lbl("c1")
		s1 := c.byLbl["c1"].attrs[kSplitID]
		s2 := c.byLbl["q1"].attrs[kSplitID]
		for _, m := range []int{mEQ, mNE, mPrefix} {
			for _, v := range []string{p, other, p[:5], p[:len(p)-1], ""} {
				add(kParent, m, v, v == p || (m == mPrefix && v == p[:len(p)-1]))
			}
			for _, v := range []string{c1.EncodeToString(), other, c1.EncodeToString()[:7]} {
				add(kFirst, m, v, v == c1.EncodeToString() && m != mPrefix)
			}
			for _, v := range []string{s1, s2, "00000000-0000-0000-0000-000000000001", s1[:8], s1[:9], ""} {
				add(kSplitID, m, v, v == s1 || (m == mPrefix && v == s1[:8]))
			}
		}
	}
	for _, l := range []string{"o11", "r1", "r4"} {
		if id, ok := lbl(l); ok {
			s := id.EncodeToString()
			for _, m := range []int{mEQ, mNE, mPrefix} {
				add(kAssoc, m, s, m != mPrefix)
				add(kAssoc, m, s[:6])
				add(kAssoc, m, other)
			}
		}
	}
	add(kAssoc, mNotPresent, "", true)
	add(kAssoc, mPrefix, "", true)
	// EQ with a value that is not a complete owner / object ID / checksum / split ID: whether that is a valid query
	// (empty answer) or an invalid one (error) is not stated anywhere; not enumerated. PREFIX with such values is
	// (the repository's own search test-suite uses partial Base58 / hex prefixes).
	var kept []qfilter
	for _, f := range out {
		if f.M == mEQ {
			switch keyKind(f.K) {
			case "owner":
				if _, err := user.DecodeString(f.V); err != nil {
					continue
				}
			case "oid":
				var id oid.ID
				if id.DecodeString(f.V) != nil {
					continue
				}
			case "checksum":
				if len(f.V) != 64 {
					continue
				}
			case "splitid":
				if len(f.V) != 36 {
					continue
				}
			}
		}
		kept = append(kept, f)
	}
	return kept
}

// ---------- running a query ----------

type query struct {
	Corpus string   `json:"corpus"`
	Fs     []filter `json:"filters"`
	Attrs  []string `json:"attrs"`
	Page   int      `json:"page"`
	Entry  string   `json:"entry"` // "db" | "shard"
}

func sdkFilters(fs []filter) object.SearchFilters {
	var out object.SearchFilters
	for _, f := range fs {
		out.AddFilter(f.K, f.V, object.SearchMatchType(f.M))
	}
	return out
}

// queryClass: structural class of a (minimised) query. Single-filter queries keep the matcher (numeric matchers
// collapsed to NUM); in multi-filter queries a matcher is reduced to its kind (str / num / absent / flag) and the
// role of the filter (primary, same key as the primary, other key).
func queryClass(q *query) string {
	mk := func(m int, single bool) string {
		switch {
		case isNum(m):
			return map[bool]string{true: "NUM", false: "num"}[single]
		case m == mNotPresent:
			return map[bool]string{true: "NOT_PRESENT", false: "absent"}[single]
		case m == mNone:
			return "flag"
		}
		if single {
			return mNames[m]
		}
		return "str"
	}
	a := "no-attrs"
	if len(q.Attrs) > 0 {
		a = "attrs-requested"
	}
	if len(q.Fs) == 0 {
		return "unfiltered"
	}
	// a single COMMON_PREFIX filter whose value is not a complete value of a binary-stored attribute
	// (owner, object ID, checksum, split ID): one structural class whatever the attribute
	if len(q.Fs) == 1 && q.Fs[0].M == mPrefix && partialBinaryValue(q.Fs[0]) {
		return "prim:binary-stored-attribute:PREFIX-with-partial-value;" + a
	}
	allSameKey := len(q.Fs) > 1
	for _, f := range q.Fs[1:] {
		if f.K != q.Fs[0].K {
			allSameKey = false
		}
	}
	var parts []string
	for i, f := range q.Fs {
		role := "prim"
		if i > 0 {
			if f.K == q.Fs[0].K {
				role = "same-key"
			} else {
				role = "other-key"
			}
		}
		if allSameKey { // several filters on one attribute: the kind of the attribute does not matter
			parts = append(parts, role+":"+mk(f.M, false))
		} else {
			parts = append(parts, role+":"+keyKind(f.K)+":"+mk(f.M, len(q.Fs) == 1))
		}
	}
	return strings.Join(parts, "+") + ";" + a
}

var (
	violMu      sync.Mutex
	violClasses = map[string]int{}
	violFirst   = map[string]string{}
	outcomes    sync.Map
	pagedRuns   atomic.Int64
	pagesRead   atomic.Int64
)

// failure of one query run: rule = which part of the oracle failed (fingerprint = rule + class of the minimised query)
type failure struct {
	rule string
	what string
	q    *query
}

func record(f *failure) {
	fp := f.rule
	if !strings.HasSuffix(fp, "!") { // rules ending in "!" have a single root cause and carry no query class
		fp += ":" + queryClass(f.q)
	}
	violMu.Lock()
	violClasses[fp]++
	if violFirst[fp] == "" {
		violFirst[fp] = f.what
	}
	violMu.Unlock()
	r.Violation(fp, f.what, f.q)
}

func fmtItems(it []item) string {
	var b strings.Builder
	for i, x := range it {
		if i > 0 {
			b.WriteString(" ")
		}
		fmt.Fprintf(&b, "%s%v", x.label, x.Attrs)
	}
	return "[" + b.String() + "]"
}

func short(s string) string {
	if len(s) > 24 {
		return s[:10] + ".." + s[len(s)-6:]
	}
	return s
}

func fmtQuery(q *query) string {
	var parts []string
	for _, f := range q.Fs {
		parts = append(parts, fmt.Sprintf("%s %s %q", f.K, mNames[f.M], short(f.V)))
	}
	return fmt.Sprintf("corpus %s, filters [%s], attrs %v, page size %d, via %s", q.Corpus, strings.Join(parts, " AND "), q.Attrs, q.Page, q.Entry)
}

func isIntSpelling(s string) bool { return parseInt(s) != nil && parseInt(s).String() != s }

func safeSearch(s searcher, cnr cid.ID, fs []objectcore.SearchFilter, attrs []string, cur *objectcore.SearchCursor, count uint16) (res []client.SearchResultItem, next []byte, err error, pan string) {
	defer func() {
		if p := recover(); p != nil {
			pan = fmt.Sprint(p)
		}
	}()
	res, next, err = s.Search(cnr, fs, attrs, cur, count)
	return
}

func safeSelect(s searcher, cnr cid.ID, fs object.SearchFilters) (res []oid.Address, err error, pan string) {
	defer func() {
		if p := recover(); p != nil {
			pan = fmt.Sprint(p)
		}
	}()
	res, err = s.Select(cnr, fs)
	return
}

func partialBinaryValue(f filter) bool {
	switch keyKind(f.K) {
	case "owner":
		_, err := user.DecodeString(f.V)
		return err != nil
	case "oid":
		var id oid.ID
		return id.DecodeString(f.V) != nil
	case "checksum":
		return len(f.V) != 64
	case "splitid":
		return len(f.V) != 36
	}
	return false
}

// value class of a filter value that the implementation refuses to take as a primary filter
func valueClass(f filter) string {
	switch {
	case f.V == "":
		return "empty-value"
	}
	switch keyKind(f.K) {
	case "owner", "oid":
		return "partial-base58"
	case "checksum":
		return "partial-hex"
	case "splitid":
		return "partial-uuid"
	}
	return "other"
}

// runPaged pages the query to exhaustion and compares with the reference.
func runPaged(w *world, s searcher, q *query, ref []item, valid bool) *failure {
	pagedRuns.Add(1)
	r.Eval(1)
	sfs := sdkFilters(q.Fs)
	var got []item
	cursor := ""
	labelOf := func(id oid.ID) string {
		for _, m := range w.c.model {
			if m.id == id {
				return m.label
			}
		}
		return "?" + id.EncodeToString()[:6]
	}
	for page := 0; ; page++ {
		ofs, cur, err := objectcore.PreprocessSearchQuery(sfs, q.Attrs, cursor)
		if err != nil {
			if errors.Is(err, objectcore.ErrUnreachableQuery) {
				break // "no object ever matches": the same as an empty page without cursor
			}
			if page > 0 {
				return &failure{"cursor-rejected", fmt.Sprintf("%s: cursor returned by page %d is rejected: %v", fmtQuery(q), page, err), q}
			}
			if valid {
				return &failure{"valid-query-rejected", fmt.Sprintf("%s: PreprocessSearchQuery: %v (reference result %s)", fmtQuery(q), err, fmtItems(ref)), q}
			}
			outcomes.Store("rejected-invalid", true)
			return nil
		}
		if !valid {
			return &failure{"invalid-query-accepted", fmt.Sprintf("%s: a numeric filter with a non-integer value is accepted", fmtQuery(q)), q}
		}
		res, next, err, pan := safeSearch(s, w.c.cnr, ofs, q.Attrs, cur, uint16(q.Page))
		pagesRead.Add(1)
		if pan != "" {
			return &failure{"panic", fmt.Sprintf("%s: page %d: Search panics: %s", fmtQuery(q), page, pan), q}
		}
		if err != nil {
			return &failure{"search-error", fmt.Sprintf("%s: page %d: %v", fmtQuery(q), page, err), q}
		}
		if len(res) > q.Page {
			return &failure{"page-too-long", fmt.Sprintf("%s: page %d has %d items", fmtQuery(q), page, len(res)), q}
		}
		for _, x := range res {
			got = append(got, item{ID: x.ID, Attrs: x.Attributes, label: labelOf(x.ID)})
		}
		if len(next) == 0 {
			break
		}
		if len(res) == 0 {
			return &failure{"empty-page-with-cursor", fmt.Sprintf("%s: page %d is empty but has a cursor", fmtQuery(q), page), q}
		}
		if page > len(ref)+len(w.c.model)+2 {
			return &failure{"no-termination", fmt.Sprintf("%s: still a cursor after %d pages", fmtQuery(q), page), q}
		}
		cursor = base64.StdEncoding.EncodeToString(next)
	}
	return compare(q, got, ref, "")
}

func compare(q *query, got, ref []item, how string) *failure {
	where := "unpaged"
	if q.Page < len(ref) {
		where = "paged"
	}
	gotIDs, refIDs := map[oid.ID]int{}, map[oid.ID]int{}
	for _, x := range got {
		gotIDs[x.ID]++
	}
	for _, x := range ref {
		refIDs[x.ID]++
	}
	detail := fmt.Sprintf("%s%s:\n      got  %s\n      want %s", fmtQuery(q), how, fmtItems(got), fmtItems(ref))
	// Root cause known from C05 (signed256.ParseDecimal takes "++1"/"-+1" as integers): such a stored value is indexed
	// as a number. It is reported under its own single class, and the comparison goes on without these objects so that
	// the defect does not mask anything else in the numeric corpus.
	if cw := worldByName[q.Corpus]; cw != nil {
		var kept []item
		hit := false
		for _, x := range got {
			if refIDs[x.ID] == 0 && doubleSignMatch(cw.c, q, x.ID) {
				hit = true
				continue
			}
			kept = append(kept, x)
		}
		if hit {
			record(&failure{"extra-object:stored-value-with-double-sign-matched-by-numeric-filter!", detail, q})
			got = kept
			gotIDs = map[oid.ID]int{}
			for _, x := range got {
				gotIDs[x.ID]++
			}
		}
	}
	for id, n := range gotIDs {
		if n > 1 {
			return &failure{"duplicate:" + where, detail, q}
		}
		if refIDs[id] == 0 {
			return &failure{"extra-object:" + where, detail, q}
		}
	}
	for id := range refIDs {
		if gotIDs[id] == 0 {
			return &failure{"missing-object:" + where, detail, q}
		}
	}
	for i := range ref {
		if got[i].ID != ref[i].ID {
			return &failure{"order:" + where, detail, q}
		}
	}
	if how != "" {
		return nil // address-only entry point
	}
	normalFormSeen := false
	for i := range ref {
		if len(got[i].Attrs) != len(ref[i].Attrs) {
			return &failure{"attribute-count", detail, q}
		}
		for j := range ref[i].Attrs {
			g, w := got[i].Attrs[j], ref[i].Attrs[j]
			if g == w {
				continue
			}
			if j == 0 && len(q.Fs) > 0 && isNum(q.Fs[0].M) && isIntSpelling(w) && parseInt(g) != nil && parseInt(g).Cmp(parseInt(w)) == 0 {
				if !normalFormSeen {
					normalFormSeen = true
					record(&failure{"attribute-value:numeric-primary-returns-normal-form-instead-of-stored-spelling!", detail, q})
				}
				continue
			}
			return &failure{fmt.Sprintf("attribute-value:attr#%d:%s", j, keyKind(q.Attrs[j])), detail, q}
		}
	}
	return nil
}

var worldByName = map[string]*world{}

// doubleSignMatch: object id is not in the reference answer only because a numeric filter of q met a stored value
// of the form [+-]+digits (not an integer by the property's definition).
func doubleSignMatch(c *corpus, q *query, id oid.ID) bool {
	var o *mobj
	for _, m := range c.model {
		if m.id == id {
			o = m
		}
	}
	if o == nil || !o.avail {
		return false
	}
	relaxed := func(s string) string {
		if len(s) > 2 && (s[0] == '+' || s[0] == '-') && s[1] == '+' {
			return s[:1] + s[2:]
		}
		return s
	}
	changed := false
	for i, f := range q.Fs {
		if matches(o, f) {
			continue
		}
		if !isNum(f.M) {
			return false
		}
		if i > 0 && len(q.Attrs) > 0 && f.K == q.Fs[0].K && !isNum(q.Fs[0].M) {
			return false // a numeric filter evaluated on the string index key: another root cause
		}
		v := o.attrs[f.K]
		o2 := &mobj{attrs: map[string]string{f.K: relaxed(v)}}
		if relaxed(v) == v || !matches(o2, f) {
			return false
		}
		changed = true
	}
	return changed
}

// runSelect: the address-only entry points (DB.Select / Shard.Select) page internally.
func runSelect(w *world, s searcher, q *query, ref []item, valid bool) *failure {
	r.Eval(1)
	addrs, err, pan := safeSelect(s, w.c.cnr, sdkFilters(q.Fs))
	if pan != "" {
		return &failure{"panic", fmt.Sprintf("%s: Select panics: %s", fmtQuery(q), pan), q}
	}
	if err != nil {
		if errors.Is(err, objectcore.ErrUnreachableQuery) && valid && len(ref) == 0 {
			return nil
		}
		if valid {
			return &failure{"valid-query-rejected", fmt.Sprintf("%s: Select: %v (reference %s)", fmtQuery(q), err, fmtItems(ref)), q}
		}
		return nil
	}
	if !valid {
		return &failure{"invalid-query-accepted", fmtQuery(q), q}
	}
	var got []item
	for _, a := range addrs {
		lbl := "?"
		for _, m := range w.c.model {
			if m.id == a.Object() {
				lbl = m.label
			}
		}
		got = append(got, item{ID: a.Object(), label: lbl})
	}
	return compare(q, got, ref, " (Select)")
}

// evalQuery runs one fully specified query (used for replay and for minimisation).
func evalQuery(w *world, q *query) (*failure, []item) {
	valid := queryValid(q.Fs)
	var ref []item
	if valid {
		ref = reference(w.c, q.Fs, q.Attrs)
	}
	switch q.Entry {
	case "db":
		return runPaged(w, dbSearcher{w.db}, q, ref, valid), ref
	case "shard":
		return runPaged(w, shSearcher{w.sh}, q, ref, valid), ref
	case "db.Select":
		return runSelect(w, dbSearcher{w.db}, q, ref, valid), ref
	}
	return runSelect(w, shSearcher{w.sh}, q, ref, valid), ref
}

// minimise: attribute a failure to the simplest query (fewer filters, fewer attributes, single page, plain metabase)
// that fails by the same rule, so that one root cause gives one class.
func minimise(w *world, f *failure) *failure {
	sameRule := func(a, b string) bool {
		// the paged/unpaged qualifier may improve during minimisation
		return strings.TrimSuffix(strings.TrimSuffix(a, ":paged"), ":unpaged") == strings.TrimSuffix(strings.TrimSuffix(b, ":paged"), ":unpaged")
	}
	for round := 0; round < 12; round++ {
		q := f.q
		var cands []*query
		mk := func(fs []filter, attrs []string, entry string) {
			c := &query{Corpus: q.Corpus, Fs: fs, Attrs: attrs, Entry: entry}
			n := 0
			if queryValid(fs) {
				n = len(reference(w.c, fs, attrs))
			}
			if entry == "db" || entry == "shard" {
				// unpaged first, then the same page size
				c1 := *c
				c1.Page = n + 1
				cands = append(cands, &c1)
				if q.Page <= n && q.Page != n+1 {
					c2 := *c
					c2.Page = q.Page
					cands = append(cands, &c2)
				}
			} else {
				c.Page = q.Page
				cands = append(cands, c)
			}
		}
		entry := q.Entry
		if entry == "shard" {
			mk(q.Fs, q.Attrs, "db")
		}
		if entry == "shard.Select" {
			mk(q.Fs, q.Attrs, "db.Select")
		}
		for i := len(q.Fs) - 1; i >= 1; i-- {
			fs := append(append([]filter{}, q.Fs[:i]...), q.Fs[i+1:]...)
			mk(fs, q.Attrs, entry)
		}
		if len(q.Attrs) == 2 {
			mk(q.Fs, q.Attrs[:1], entry)
		}
		if (entry == "db" || entry == "shard") && q.Page <= len(reference(w.c, q.Fs, q.Attrs)) && queryValid(q.Fs) {
			mk(q.Fs, q.Attrs, entry) // the same query unpaged
		}
		improved := false
		for _, c := range cands {
			if len(c.Fs) == len(q.Fs) && len(c.Attrs) == len(q.Attrs) && c.Page == q.Page && c.Entry == q.Entry {
				continue
			}
			g, _ := evalQuery(w, c)
			if g != nil && sameRule(g.rule, f.rule) {
				f = g
				improved = true
				break
			}
		}
		if !improved {
			break
		}
	}
	return f
}

type dbSearcher struct{ *meta.DB }
type shSearcher struct{ *shard.Shard }

// one query shape: filters + attrs, all page sizes, all entry points.
func checkShape(w *world, fs []filter, attrs []string, entries int, compact bool) {
	valid := queryValid(fs)
	var ref []item
	if valid {
		ref = reference(w.c, fs, attrs)
	}
	n := len(ref)
	pages := []int{1, 2, 3, n, n + 1}
	if compact { // the primary-attribute tuples: paged one by one and unpaged
		pages = []int{1, n + 1}
	} else if r.Thorough() { // every page size
		pages = pages[:0]
		for p := 1; p <= n+1; p++ {
			pages = append(pages, p)
		}
	}
	sort.Ints(pages)
	if valid {
		avail := 0
		for _, m := range w.c.model {
			if m.avail {
				avail++
			}
		}
		key := fmt.Sprint(w.c.name, fs, attrs)
		switch {
		case n == 0:
			outcomes.Store("empty", true)
		case n == avail:
			outcomes.Store("everything", true)
			r.Nontrivial(key)
		default:
			outcomes.Store("proper-subset", true)
			r.Nontrivial(key)
		}
		if n > 1 {
			outcomes.Store("multi-page", true)
		}
	}
	fail := func(f *failure) {
		record(minimise(w, f))
	}
	// largest page first: a wrong result that does not depend on paging is then classified as "unpaged"
	done := map[int]bool{}
	for i := len(pages) - 1; i >= 0; i-- {
		p := pages[i]
		if p < 1 || done[p] {
			continue
		}
		done[p] = true
		if !valid && p != 1 {
			continue
		}
		q := &query{Corpus: w.c.name, Fs: fs, Attrs: attrs, Page: p, Entry: "db"}
		if f := runPaged(w, dbSearcher{w.db}, q, ref, valid); f != nil {
			fail(f)
			return
		}
		if entries > 1 && (p == 1 || p == 2 || p == n+1) {
			q2 := *q
			q2.Entry = "shard"
			if f := runPaged(w, shSearcher{w.sh}, &q2, ref, valid); f != nil {
				fail(f)
				return
			}
		}
	}
	if len(attrs) == 1 && len(fs) > 0 && entries > 1 {
		// Select = the same query with attrs = [primary key], addresses only
		q := &query{Corpus: w.c.name, Fs: fs, Attrs: attrs, Page: math.MaxUint16, Entry: "db.Select"}
		if f := runSelect(w, dbSearcher{w.db}, q, ref, valid); f != nil {
			f.rule = "select:" + f.rule
			fail(f)
			return
		}
		q2 := *q
		q2.Entry = "shard.Select"
		if f := runSelect(w, shSearcher{w.sh}, &q2, ref, valid); f != nil {
			f.rule = "select:" + f.rule
			fail(f)
			return
		}
	}
	if r.WantSample() && valid && n > 2 && len(fs) == 2 && len(attrs) == 2 {
		r.Sample(map[string]any{"corpus": w.c.name, "filters": fs, "attrs": attrs, "reference": fmtItems(ref)})
	}
}

// attribute lists tried for a filter list: none, [primary], [primary, another key].
func attrModes(fs []filter) [][]string {
	if len(fs) == 0 {
		return [][]string{nil}
	}
	p := fs[0].K
	second := "B"
	for _, f := range fs[1:] {
		if f.K != p && f.K != kRoot && f.K != kPhy {
			second = f.K
			break
		}
	}
	if second == p {
		second = "A"
	}
	if p == kRoot || p == kPhy { // flags have no value to request
		return [][]string{nil}
	}
	return [][]string{nil, {p}, {p, second}}
}

func main() {
	r = ev.Start("C03", ev.Exploration)
	var err error
	tmpDir, err = os.MkdirTemp("/dev/shm", "verif-c03-")
	if err != nil {
		r.Fatal("tmp: %v", err)
	}
	cs := corpora()
	// bbolt read transactions of one DB serialise on its meta lock: every worker gets its own replica of the worlds
	// (same corpus, same IDs, separately built stores).
	nrep := runtime.GOMAXPROCS(0)
	if r.Replay != "" {
		nrep = 1
	}
	pool := make(chan map[string]*world, nrep)
	var allWorlds []*world
	{
		var mu sync.Mutex
		enumx.Parallel(nrep, func(i int) {
			ws := map[string]*world{}
			for _, c := range cs {
				ws[c.name] = buildWorld(c, i)
			}
			mu.Lock()
			for _, w := range ws {
				allWorlds = append(allWorlds, w)
			}
			if i == 0 {
				for k, w := range ws {
					worldByName[k] = w
				}
			}
			mu.Unlock()
			pool <- ws
		})
	}
	worlds := worldByName
	finish := func() {
		for _, w := range allWorlds {
			w.db.Close()
			w.sh.Close()
		}
		cleanup()
		if len(violClasses) > 0 {
			var ks []string
			for k := range violClasses {
				ks = append(ks, k)
			}
			sort.Strings(ks)
			fmt.Printf("violation classes (%d):\n", len(ks))
			for _, k := range ks {
				fmt.Printf("  %7d  %s\n", violClasses[k], k)
			}
			r.Set("violation_classes", violClasses)
			if p := os.Getenv("VERIF_C03_DUMP"); p != "" {
				var b strings.Builder
				for _, k := range ks {
					fmt.Fprintf(&b, "== %s (%d)\n   %s\n", k, violClasses[k], violFirst[k])
				}
				os.WriteFile(p, []byte(b.String()), 0o644)
			}
		}
		r.Finish()
	}
	if r.Replay != "" {
		var q query
		r.LoadReplay(&q)
		w := worlds[q.Corpus]
		f, ref := evalQuery(w, &q)
		if f != nil {
			record(f)
		}
		fmt.Printf("replayed %s\n  reference: %s\n", fmtQuery(&q), fmtItems(ref))
		finish()
	}

	type shape struct {
		w       string
		fs      []filter
		compact bool // filters all on the primary attribute: attrs = [primary], page sizes {1, N+1}, metabase only
	}
	var shapes []shape
	counts := map[string]int{}
	for _, c := range cs {
		w := c.name
		F := allFilters(c)
		var Q, T []qfilter
		for _, f := range F {
			if f.quick {
				Q = append(Q, f)
			}
			if f.third {
				T = append(T, f)
			}
		}
		shapes = append(shapes, shape{w: w})
		for _, f := range F {
			shapes = append(shapes, shape{w: w, fs: []filter{f.filter}})
		}
		counts["filters/"+c.name] = len(F)
		counts["reduced/"+c.name] = len(Q)
		P := Q
		if r.Thorough() {
			P = F
		}
		for _, a := range P {
			for _, b := range P {
				if a.filter == b.filter {
					continue
				}
				shapes = append(shapes, shape{w: w, fs: []filter{a.filter, b.filter}})
			}
		}
		if r.Thorough() {
			for _, a := range Q {
				for _, b := range Q {
					for _, t := range T {
						if a.filter == b.filter || t.filter == a.filter || t.filter == b.filter {
							continue
						}
						shapes = append(shapes, shape{w: w, fs: []filter{a.filter, b.filter, t.filter}})
					}
				}
			}
		}
	}
	// Several filters on the PRIMARY attribute (both tiers): every ordered triple and quadruple of distinct filters over
	// an alphabet with one or two filters of every matcher kind (string EQ / NE / PREFIX, numeric GT / GE / LT / LE,
	// NOT_PRESENT), on the string and on the numeric corpus. This is where the interplay of "evaluated on the primary
	// index key" and "evaluated on the stored value" filters lives.
	primAlphabet := []filter{
		{"A", mEQ, "1"}, {"A", mEQ, "a"}, {"A", mNE, "a"}, {"A", mPrefix, ""}, {"A", mPrefix, "1"},
		{"A", mGT, "0"}, {"A", mGE, "1"}, {"A", mLT, "10"}, {"A", mLE, "1"}, {"A", mNotPresent, ""},
	}
	nTuples := 0
	for _, cn := range []string{"str", "num"} {
		for _, k := range []int{3, 4} {
			enumx.Seqs(len(primAlphabet), k, func(ix []int) bool {
				for a := range ix {
					for b := a + 1; b < len(ix); b++ {
						if ix[a] == ix[b] {
							return true
						}
					}
				}
				fs := make([]filter, k)
				for i, x := range ix {
					fs[i] = primAlphabet[x]
				}
				shapes = append(shapes, shape{w: cn, fs: fs, compact: true})
				nTuples++
				return true
			})
		}
	}
	counts["primary-attribute-tuples"] = nTuples
	var expired atomic.Bool
	enumx.Parallel(len(shapes), func(i int) {
		if expired.Load() {
			return
		}
		s := shapes[i]
		ws := <-pool
		if s.compact {
			checkShape(ws[s.w], s.fs, []string{s.fs[0].K}, 1, true)
		} else {
			for _, attrs := range attrModes(s.fs) {
				checkShape(ws[s.w], s.fs, attrs, 2, false)
			}
		}
		pool <- ws
		if i&0xff == 0 && r.Expired() {
			expired.Store(true)
		}
	})
	nOut := 0
	var outs []string
	outcomes.Range(func(k, _ any) bool { nOut++; outs = append(outs, k.(string)); return true })
	sort.Strings(outs)
	r.Set("outcome_classes", nOut)
	r.Set("outcomes", outs)
	r.Set("query_shapes", len(shapes))
	r.Set("paged_runs", pagedRuns.Load())
	r.Set("pages_read", pagesRead.Load())
	r.Set("filter_counts", counts)
	var cd []string
	for _, c := range cs {
		cd = append(cd, c.describe())
	}
	r.Set("corpora", cd)
	r.Rule("every filter list = {} + every single filter of the per-corpus filter alphabet + every ordered pair (quick: of the reduced set; thorough: of the full alphabet) " +
		"+ (thorough) triples reduced x reduced x 8 third filters; + (both tiers) every ordered triple and quadruple of distinct filters on the primary attribute A over a 10-filter alphabet (string EQ/NE/PREFIX, numeric GT/GE/LT/LE, NOT_PRESENT) on the corpora str and num with attrs=[A], page sizes {1,N+1}; x attrs {none, [primary], [primary, second]} x page sizes {1,2,3,N,N+1} (thorough: every size 1..N+1) through DB.Search, and {1,2,N+1} through Shard.Search, plus DB.Select/Shard.Select; " +
		"one evaluation = one query paged to exhaustion; non-trivial = distinct valid (corpus, filters, attrs) whose reference result is non-empty")
	r.Exhaustive(!expired.Load())
	r.Assume("availability in the corpora is limited to unambiguous cases (tombstoned, default garbage mark, own expiration; one locked object): the full visibility rules are C01's subject",
		"non-numeric primary attributes with a binary stored form (owner, object IDs, checksum, split ID) are expected in the order of their stored bytes, as MergeSearchResults assumes; for hex/UUID this equals string order",
		"NOT_PRESENT on $Object:* keys is undefined by the API and not enumerated; epoch is fixed at 3")
	_ = bytes.Compare
	finish()
}
