package main

import (
	"bytes"
	"math/big"
	"sort"
	"strings"

	oid "github.com/nspcc-dev/neofs-sdk-go/object/id"
)

// Matchers of the NeoFS search API (numbering of the protocol).
const (
	mNone = iota // only legal with the $Object:ROOT / $Object:PHY flags
	mEQ
	mNE
	mNotPresent
	mPrefix
	mGT
	mGE
	mLT
	mLE
)

var mNames = [...]string{"FLAG", "EQ", "NE", "NOT_PRESENT", "PREFIX", "NUM_GT", "NUM_GE", "NUM_LT", "NUM_LE"}

type filter struct {
	K string `json:"k"`
	M int    `json:"m"`
	V string `json:"v"`
}

func isNum(m int) bool { return m >= mGT && m <= mLE }

// parseInt: "a value counts as an integer only if it is an optionally signed decimal number" (in the supported range).
func parseInt(s string) *big.Int {
	b := s
	if b != "" && (b[0] == '+' || b[0] == '-') {
		b = b[1:]
	}
	if b == "" {
		return nil
	}
	for i := 0; i < len(b); i++ {
		if b[i] < '0' || b[i] > '9' {
			return nil
		}
	}
	v, ok := new(big.Int).SetString(b, 10)
	if !ok {
		return nil
	}
	if s[0] == '-' {
		v.Neg(v)
	}
	if v.CmpAbs(maxAbs) > 0 {
		return nil
	}
	return v
}

// queryValid: a numeric filter needs an integer value (anything else is an invalid query that must be rejected).
func queryValid(fs []filter) bool {
	for _, f := range fs {
		if isNum(f.M) && f.K != kRoot && f.K != kPhy && parseInt(f.V) == nil {
			return false
		}
	}
	return true
}

func matches(o *mobj, f filter) bool {
	v, ok := o.attrs[f.K]
	if f.K == kRoot || f.K == kPhy { // flags: presence only, matcher and value are ignored
		return ok
	}
	if f.M == mNotPresent {
		return !ok
	}
	if !ok {
		return false
	}
	switch f.M {
	case mEQ:
		return v == f.V
	case mNE:
		return v != f.V
	case mPrefix:
		return strings.HasPrefix(v, f.V)
	case mGT, mGE, mLT, mLE:
		ov, fv := parseInt(v), parseInt(f.V)
		if ov == nil || fv == nil {
			return false
		}
		c := ov.Cmp(fv)
		switch f.M {
		case mGT:
			return c > 0
		case mGE:
			return c >= 0
		case mLT:
			return c < 0
		default:
			return c <= 0
		}
	}
	return false
}

type item struct {
	ID    oid.ID
	Attrs []string
	label string
}

// reference: filter -> sort -> (paging is done by the caller).
func reference(c *corpus, fs []filter, attrs []string) []item {
	var sel []*mobj
	for _, o := range c.model {
		if !o.avail {
			continue
		}
		ok := true
		for _, f := range fs {
			if !matches(o, f) {
				ok = false
				break
			}
		}
		if ok {
			sel = append(sel, o)
		}
	}
	byID := len(attrs) == 0 || len(fs) == 0 || fs[0].M == mNotPresent
	numeric := !byID && isNum(fs[0].M) && fs[0].K != kRoot && fs[0].K != kPhy
	sort.SliceStable(sel, func(i, j int) bool {
		a, b := sel[i], sel[j]
		if !byID {
			k := attrs[0]
			var c int
			if numeric {
				c = parseInt(a.attrs[k]).Cmp(parseInt(b.attrs[k]))
			} else {
				c = bytes.Compare(a.raw[k], b.raw[k])
			}
			if c != 0 {
				return c < 0
			}
		}
		return bytes.Compare(a.id[:], b.id[:]) < 0
	})
	res := make([]item, len(sel))
	for i, o := range sel {
		res[i] = item{ID: o.id, label: o.label}
		for _, k := range attrs {
			res[i].Attrs = append(res[i].Attrs, o.attrs[k]) // "" when the object has no such attribute
		}
	}
	return res
}
