package main

import (
	"crypto/sha256"
	"encoding/hex"
	"fmt"
	"math/big"
	"strconv"

	"github.com/google/uuid"
	"github.com/nspcc-dev/neo-go/pkg/util"
	"github.com/nspcc-dev/neofs-sdk-go/checksum"
	cid "github.com/nspcc-dev/neofs-sdk-go/container/id"
	"github.com/nspcc-dev/neofs-sdk-go/object"
	oid "github.com/nspcc-dev/neofs-sdk-go/object/id"
	"github.com/nspcc-dev/neofs-sdk-go/user"
	"github.com/nspcc-dev/neofs-sdk-go/version"
)

// Attribute keys of the search API (written out here on purpose: the model does not take them from the code under test).
const (
	kVersion  = "$Object:version"
	kOwner    = "$Object:ownerID"
	kEpoch    = "$Object:creationEpoch"
	kSize     = "$Object:payloadLength"
	kHash     = "$Object:payloadHash"
	kType     = "$Object:objectType"
	kParent   = "$Object:split.parent"
	kSplitID  = "$Object:split.splitID"
	kFirst    = "$Object:split.first"
	kRoot     = "$Object:ROOT"
	kPhy      = "$Object:PHY"
	kAssoc    = "__NEOFS__ASSOCIATE"
	kExp      = "__NEOFS__EXPIRATION_EPOCH"
	curEpoch  = 3
	verString = "v2.18"
)

var (
	maxAbs  = new(big.Int).Sub(new(big.Int).Lsh(big.NewInt(1), 256), big.NewInt(1))
	sMax    = maxAbs.String()
	sMaxP1  = new(big.Int).Add(maxAbs, big.NewInt(1)).String()
	sMin    = "-" + sMax
	sMinM1  = "-" + sMaxP1
	sMaxLZ  = "00" + sMax
	sPlusMx = "+" + sMax
)

func hashOf(label string) [32]byte { return sha256.Sum256([]byte("verif/c03/" + label)) }

func idOf(corpus, label string) oid.ID { return oid.ID(hashOf(corpus + "/id/" + label)) }

func ownerOf(i int) user.ID {
	h := hashOf("owner/" + strconv.Itoa(i))
	var sh util.Uint160
	copy(sh[:], h[:20])
	return user.NewFromScriptHash(sh)
}

func splitIDOf(i int) []byte {
	h := hashOf("split/" + strconv.Itoa(i))
	return h[:16]
}

// spec of one object of a corpus.
type spec struct {
	label   string
	typ     object.Type
	owner   int
	epoch   uint64
	size    uint64
	attrs   [][2]string // user attributes, in header order
	splitID int         // 0 = none
	first   string      // label of the first split part ("" = none)
	parent  string      // label of the (virtual) parent whose header is embedded
	assoc   string      // label of the associated object (TOMBSTONE / LOCK)
	virtual bool        // exists only as a parent header embedded into children
	dead    string      // "", "garbage" (default GC mark), "expired" (own expiration attribute < current epoch); "tomb" is derived from a TOMBSTONE spec
}

// mobj is the model's view of an indexed object: attribute key -> value in the API's string form, plus the
// raw form used as the sort key of non-numeric primary attributes.
type mobj struct {
	label string
	id    oid.ID
	attrs map[string]string
	raw   map[string][]byte
	avail bool
}

type corpus struct {
	name  string
	cnr   cid.ID
	specs []spec
	objs  []*object.Object // physical objects to put, in put order
	model []*mobj          // every indexed object (physical + virtual parents)
	marks []oid.ID         // objects to mark as garbage after the puts
	byLbl map[string]*mobj
}

func (c *corpus) spec(label string) *spec {
	for i := range c.specs {
		if c.specs[i].label == label {
			return &c.specs[i]
		}
	}
	panic("no spec " + label)
}

func (c *corpus) header(s *spec) *object.Object {
	o := object.New(c.cnr, ownerOf(s.owner))
	o.SetID(idOf(c.name, s.label))
	v := version.New(2, 18)
	o.SetVersion(&v)
	o.SetType(s.typ)
	o.SetCreationEpoch(s.epoch)
	o.SetPayloadSize(s.size)
	o.SetPayloadChecksum(checksum.NewSHA256(hashOf(c.name + "/payload/" + s.label)))
	var as []object.Attribute
	for _, kv := range s.attrs {
		as = append(as, object.NewAttribute(kv[0], kv[1]))
	}
	if s.assoc != "" {
		as = append(as, object.NewAttribute(kAssoc, idOf(c.name, s.assoc).EncodeToString()))
	}
	o.SetAttributes(as...)
	if s.splitID != 0 {
		o.SetSplitID(object.NewSplitIDFromV2(splitIDOf(s.splitID)))
	}
	if s.first != "" {
		o.SetFirstID(idOf(c.name, s.first))
	}
	if s.parent != "" {
		o.SetParent(c.header(c.spec(s.parent)))
	}
	return o
}

func (c *corpus) modelOf(s *spec) *mobj {
	m := &mobj{label: s.label, id: idOf(c.name, s.label), attrs: map[string]string{}, raw: map[string][]byte{}, avail: true}
	set := func(k, v string, raw []byte) {
		m.attrs[k] = v
		if raw == nil {
			raw = []byte(v)
		}
		m.raw[k] = raw
	}
	ow := ownerOf(s.owner)
	set(kVersion, verString, nil)
	set(kOwner, ow.EncodeToString(), ow[:])
	set(kType, s.typ.String(), nil)
	set(kEpoch, strconv.FormatUint(s.epoch, 10), nil)
	set(kSize, strconv.FormatUint(s.size, 10), nil)
	h := hashOf(c.name + "/payload/" + s.label)
	set(kHash, hex.EncodeToString(h[:]), h[:])
	if s.splitID != 0 {
		u, _ := uuid.FromBytes(splitIDOf(s.splitID))
		set(kSplitID, u.String(), splitIDOf(s.splitID))
	}
	if s.first != "" {
		id := idOf(c.name, s.first)
		set(kFirst, id.EncodeToString(), id[:])
	}
	if s.parent != "" {
		id := idOf(c.name, s.parent)
		set(kParent, id.EncodeToString(), id[:])
	}
	// ROOT: regular objects that are not part of a split hierarchy, or its top-level (virtual) root
	if s.parent == "" && s.first == "" && s.splitID == 0 && s.typ == object.TypeRegular {
		set(kRoot, "1", nil)
	}
	if !s.virtual {
		set(kPhy, "1", nil)
	}
	for _, kv := range s.attrs {
		set(kv[0], kv[1], nil)
	}
	if s.assoc != "" {
		id := idOf(c.name, s.assoc)
		set(kAssoc, id.EncodeToString(), id[:])
	}
	return m
}

func buildCorpus(name string, specs []spec) *corpus {
	c := &corpus{name: name, cnr: cid.ID(hashOf("cnr/" + name)), specs: specs, byLbl: map[string]*mobj{}}
	for i := range c.specs {
		s := &c.specs[i]
		m := c.modelOf(s)
		c.model = append(c.model, m)
		c.byLbl[s.label] = m
		if !s.virtual {
			c.objs = append(c.objs, c.header(s))
		}
	}
	// availability, from the property's wording: removed (tombstone), marked for removal, expired objects are not available
	for i := range c.specs {
		s := &c.specs[i]
		switch s.dead {
		case "garbage":
			c.byLbl[s.label].avail = false
			c.marks = append(c.marks, idOf(name, s.label))
		case "expired":
			exp := c.byLbl[s.label].attrs[kExp]
			e, err := strconv.ParseUint(exp, 10, 64)
			if err != nil || e >= curEpoch {
				panic("spec " + s.label + " is not expired")
			}
			c.byLbl[s.label].avail = false
		case "":
		default:
			panic("bad dead kind")
		}
		if s.typ == object.TypeTombstone {
			c.byLbl[s.assoc].avail = false
		}
	}
	// sanity: unique IDs
	seen := map[oid.ID]bool{}
	for _, m := range c.model {
		if seen[m.id] {
			panic("dup id")
		}
		seen[m.id] = true
	}
	return c
}

func reg(label string, attrs ...string) spec {
	s := spec{label: label, typ: object.TypeRegular, owner: 1, epoch: 1, size: 10}
	if len(attrs)%2 != 0 {
		panic("attrs")
	}
	for i := 0; i < len(attrs); i += 2 {
		s.attrs = append(s.attrs, [2]string{attrs[i], attrs[i+1]})
	}
	return s
}

func (s spec) with(f func(*spec)) spec { f(&s); return s }

func dead(kind string) func(*spec) { return func(s *spec) { s.dead = kind } }

func corpora() []*corpus {
	// corpus "str": colliding values, values that are prefixes of each other, a key that is a prefix of another key,
	// repeated primary values (page breaks inside a run of equal keys), removed / marked / expired objects.
	str := []spec{
		reg("o1", "A", "a", "B", "b"),
		reg("o2", "A", "ab", "B", "b"),
		reg("o3", "A", "abc", "B", "a"),
		reg("o4", "A", "b", "B", "ab"),
		reg("o5", "A", "a", "B", "1"),
		reg("o6", "A", "ab"),
		reg("o7", "B", "b", "AB", "a"),
		reg("o8", "A", "0", "B", "0"),
		reg("o9", "A", "1", "B", "a"),
		reg("o10", "A", "a", "B", "b").with(dead("garbage")),
		reg("o11", "A", "ab", "B", "b"),
		{label: "t11", typ: object.TypeTombstone, owner: 1, epoch: 2, attrs: [][2]string{{"A", "abc"}, {kExp, "100"}}, assoc: "o11"},
		reg("o12", "A", "b", "B", "b", kExp, "2").with(dead("expired")),
		reg("o13", "A", "abc", "B", "ab", kExp, "3"), // expires after the current epoch only
		reg("o14", "A", "a", "B", "b"),
	}
	// corpus "num": decimal integers near 0 and +-(2^256-1), different spellings of the same number, near-integers.
	num := []spec{
		reg("n0", "A", "0", "B", "5"),
		reg("n1", "A", "1", "B", "10"),
		reg("n01", "A", "01", "B", "-5"),
		reg("np1", "A", "+1", "B", "x"),
		reg("nm1", "A", "-1", "B", "5"),
		reg("nm0", "A", "-0"),
		reg("n9", "A", "9", "B", "05"),
		reg("n10", "A", "10", "B", "5"),
		reg("n1e3", "A", "1e3", "B", "5"),
		reg("nmax", "A", sMax, "B", "0"),
		reg("nmaxp1", "A", sMaxP1, "B", "1"),
		reg("nmin", "A", sMin, "B", sMin),
		reg("nminm1", "A", sMinM1, "B", "1"),
		reg("npp1", "A", "++1", "B", "1"),
		reg("n1b", "A", "1", "B", sMax),
		reg("nmaxlz", "A", sMaxLZ, "B", "x"),
		reg("nnoA", "B", "7"),
		reg("ng", "A", "1", "B", "5").with(dead("garbage")),
		reg("nx", "A", "10", "B", "5", kExp, "1").with(dead("expired")),
	}
	// corpus "sys": system attributes: two owners, types, sizes, epochs, checksums, a split chain with a virtual
	// parent (first part, split ID, parent), tombstone / lock with associate.
	sys := []spec{
		reg("r1", "A", "a").with(func(s *spec) { s.size = 5; s.epoch = 0 }),
		reg("r2", "A", "ab").with(func(s *spec) { s.owner = 2; s.size = 10; s.epoch = 1 }),
		reg("r3", "A", "1").with(func(s *spec) { s.owner = 2; s.size = 11; s.epoch = 2 }),
		reg("r4", "A", "a", "B", "b").with(func(s *spec) { s.size = 0 }),
		reg("P", "A", "b", "B", "a").with(func(s *spec) { s.virtual = true; s.size = 30; s.owner = 2 }),
		reg("c1", "A", "10").with(func(s *spec) { s.splitID = 1; s.size = 10 }),
		reg("c2", "A", "9").with(func(s *spec) { s.splitID = 1; s.first = "c1"; s.size = 10 }),
		reg("c3").with(func(s *spec) { s.splitID = 1; s.first = "c1"; s.parent = "P"; s.size = 10; s.owner = 2 }),
		{label: "k", typ: object.TypeLink, owner: 2, epoch: 1, size: 3, first: "c1", parent: "P", splitID: 1},
		reg("q1", "A", "a").with(func(s *spec) { s.splitID = 2; s.size = 7 }),
		{label: "t4", typ: object.TypeTombstone, owner: 1, epoch: 2, attrs: [][2]string{{kExp, "50"}}, assoc: "r4"},
		{label: "l1", typ: object.TypeLock, owner: 2, epoch: 2, attrs: [][2]string{{kExp, "60"}}, assoc: "r1"},
		reg("rg", "A", "ab").with(func(s *spec) { s.owner = 2; s.dead = "garbage" }),
	}
	return []*corpus{buildCorpus("str", str), buildCorpus("num", num), buildCorpus("sys", sys)}
}

func (c *corpus) describe() string {
	return fmt.Sprintf("%s: %d indexed objects (%d physical)", c.name, len(c.model), len(c.objs))
}
