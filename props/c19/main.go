// C19: after a successful evacuation of read-only shards every object that was available stays
// available with identical bytes on the engine's remaining shards (or was handed to the caller's
// fault handler); the source shards are left byte-identical; removal and lock status of every address
// are unchanged.
//
// Exhaustive enumeration (enumx) of small engines: contents (which shards hold which of: regular
// objects, an EC part, a tombstone and its target, a lock and its target) × evacuated shard list ×
// state of every remaining shard (read-write / read-only / every put fails) × fault handler
// (absent / accepting). Each case runs on a fresh real 2- or 3-shard (thorough: 4-shard) engine.
package main

import (
	"context"
	"crypto/sha256"
	"encoding/hex"
	"errors"
	"fmt"
	"io/fs"
	"os"
	"path/filepath"
	"sort"
	"strings"
	"sync"

	"github.com/nspcc-dev/neofs-node/pkg/local_object_storage/blobstor/common"
	"github.com/nspcc-dev/neofs-node/pkg/local_object_storage/shard/mode"
	"github.com/nspcc-dev/neofs-node/verif/lib/enumx"
	"github.com/nspcc-dev/neofs-node/verif/lib/ev"
	"github.com/nspcc-dev/neofs-node/verif/shim/vmaps"
	ew "github.com/nspcc-dev/neofs-node/verif/worlds/engineworld"
	apistatus "github.com/nspcc-dev/neofs-sdk-go/client/status"
	"github.com/nspcc-dev/neofs-sdk-go/object"
	oid "github.com/nspcc-dev/neofs-sdk-go/object/id"
)

var cnr = ew.CID("c19")

// item of the universe: one or two objects that are placed together.
type uobj struct {
	Name string
	Kind string // regular | ec-part | tombstone | tombstone-target | lock | lock-target | split-child
	obj  *object.Object
}

type tcase struct {
	Shards  int      `json:"shards"`
	Src     []int    `json:"evacuate"`  // shard indexes, in the order given to Evacuate
	Place   []int    `json:"placement"` // per object of the universe: bit mask of shards holding a copy (0 = absent)
	Target  []string `json:"remaining"` // per shard: "src" | "rw" | "ro" | "failput"
	Handler bool     `json:"fault_handler"`
	Uni     string   `json:"universe"`
	// Unreadable lists universe indexes whose blob is removed from the source FSTrees while the metadata
	// stays (listed by the source, Get fails); IgnoreErrors is Evacuate's flag.
	Unreadable   []int `json:"unreadable,omitempty"`
	IgnoreErrors bool  `json:"ignore_errors,omitempty"`
}

// universe "std": r1 r2 e v t k l  (+ c in "ext")
func universe(name string) []uobj {
	scratch, err := ew.New(ew.Config{NumShards: 4})
	if err != nil {
		panic(err)
	}
	defer scratch.Close()
	own := ew.Owner("c19")
	reg := func(n string, id oid.ID) *object.Object {
		return ew.Build(ew.ObjSpec{Cnr: cnr, ID: id, Owner: own, Payload: []byte("payload " + n), Type: object.TypeRegular})
	}
	// HRW orders over the 4 fixed shards; restricted to fewer shards the relative order is kept
	r1 := reg("r1", scratch.OIDForHRW("c19-r1", []int{0, 1, 2, 3}))
	r2 := reg("r2", scratch.OIDForHRW("c19-r2", []int{3, 2, 1, 0}))
	par := reg("ep", scratch.OIDForHRW("c19-ep", []int{0, 2, 1, 3}))
	e := ew.ECPart(scratch.OIDForHRW("c19-e", []int{0, 1, 2, 3}), par, 0, []byte("ec part"))
	v := reg("v", scratch.OIDForHRW("c19-v", []int{0, 1, 2, 3}))
	t := ew.Build(ew.ObjSpec{Cnr: cnr, ID: scratch.OIDForHRW("c19-t", []int{0, 2, 1, 3}), Owner: own, Payload: []byte("ts"), Type: object.TypeTombstone, Associate: v.GetID()})
	k := reg("k", scratch.OIDForHRW("c19-k", []int{0, 2, 1, 3}))
	l := ew.Build(ew.ObjSpec{Cnr: cnr, ID: scratch.OIDForHRW("c19-l", []int{0, 1, 2, 3}), Owner: own, Payload: []byte("lk"), Type: object.TypeLock, Associate: k.GetID()})
	u := []uobj{
		{"r1", "regular", r1}, {"r2", "regular", r2}, {"e", "ec-part", e},
		{"v", "tombstone-target", v}, {"t", "tombstone", t},
		{"k", "lock-target", k}, {"l", "lock", l},
	}
	if name == "ext" {
		sp := reg("sp", ew.OID("c19-split-parent"))
		c := ew.Build(ew.ObjSpec{Cnr: cnr, ID: scratch.OIDForHRW("c19-c", []int{0, 3, 2, 1}), Owner: own, Payload: []byte("child"), Type: object.TypeRegular, Parent: sp, SplitID: ew.SplitIDFrom("c19"), First: ew.OID("c19-first")})
		u = append(u, uobj{"c", "split-child", c})
	}
	return u
}

// fillers: n regular objects sorted by ID, so that the universe index is the position in the source's
// listing (the metabase lists a container in object ID order).
func fillers(n int) []uobj {
	own := ew.Owner("c19")
	var u []uobj
	for i := 0; i < n; i++ {
		o := ew.Build(ew.ObjSpec{Cnr: cnr, ID: ew.OID(fmt.Sprintf("c19-filler-%d", i)), Owner: own, Payload: []byte(fmt.Sprintf("filler %d", i)), Type: object.TypeRegular})
		u = append(u, uobj{"", "regular", o})
	}
	sort.Slice(u, func(a, b int) bool {
		x, y := u[a].obj.GetID(), u[b].obj.GetID()
		return string(x[:]) < string(y[:])
	})
	for i := range u {
		u[i].Name = fmt.Sprintf("f%03d", i)
	}
	return u
}

func universeByName(name string) []uobj {
	var n int
	if _, err := fmt.Sscanf(name, "fill%d", &n); err == nil {
		return fillers(n)
	}
	return universe(name)
}

func addrOf(o *object.Object) oid.Address { return oid.NewAddress(cnr, o.GetID()) }

func errClass(err error) string {
	switch {
	case err == nil:
		return "ok"
	case errors.Is(err, apistatus.ErrObjectAlreadyRemoved):
		return "removed"
	case errors.Is(err, apistatus.ErrObjectNotFound):
		return "404"
	}
	return "err"
}

type view struct {
	get    string // ok | 404 | removed | err
	bytes  string
	locked string // true | false | err
	shard  []string
}

func snapshotDir(dir string) (string, error) {
	var lines []string
	err := filepath.WalkDir(dir, func(p string, d fs.DirEntry, err error) error {
		if err != nil {
			return err
		}
		rel, _ := filepath.Rel(dir, p)
		if d.IsDir() {
			lines = append(lines, "d "+rel)
			return nil
		}
		b, err := os.ReadFile(p)
		if err != nil {
			return err
		}
		h := sha256.Sum256(b)
		lines = append(lines, "f "+rel+" "+hex.EncodeToString(h[:8]))
		return nil
	})
	sort.Strings(lines)
	return strings.Join(lines, "\n"), err
}

type verdict struct{ fp, what string }

// outcome classes for vacuity accounting
var outcomes sync.Map

func look(w *ew.World, u []uobj, shards []int) []view {
	ctx := context.Background()
	vs := make([]view, len(u))
	for i, uo := range u {
		a := addrOf(uo.obj)
		o, err := w.Eng.Get(ctx, a)
		vs[i].get = errClass(err)
		if err == nil {
			vs[i].bytes = string(o.Marshal())
		}
		lk, err := w.Eng.IsLocked(ctx, a)
		vs[i].locked = fmt.Sprint(lk)
		if err != nil {
			vs[i].locked = "err"
		}
		for _, s := range shards {
			_, err := w.Shards[s].Sh.Get(a, false)
			vs[i].shard = append(vs[i].shard, errClass(err))
		}
	}
	return vs
}

// run executes one case; returns the verdicts (empty = fine) and whether evacuation succeeded.
func run(tc tcase, u []uobj) (vs []verdict, succeeded bool, nontrivial bool, err error) {
	w, err := ew.New(ew.Config{NumShards: tc.Shards})
	if err != nil {
		return nil, false, false, err
	}
	defer w.Close()
	defer func() {
		if p := recover(); p != nil {
			vs = append(vs, verdict{"panic", fmt.Sprint(p)})
		}
	}()
	// populate: targets before their tombstone/lock (as they would arrive), shard by shard
	for s := 0; s < tc.Shards; s++ {
		for i, uo := range u {
			if tc.Place[i]&(1<<s) == 0 {
				continue
			}
			if err := w.Shards[s].Sh.Put(uo.obj, nil); err != nil {
				return nil, false, false, fmt.Errorf("populate %s on shard %d: %w", uo.Name, s, err)
			}
		}
	}
	for _, i := range tc.Unreadable {
		for _, s := range tc.Src {
			if tc.Place[i]&(1<<s) != 0 {
				if err := w.Shards[s].Stor.Inner().Delete(addrOf(u[i].obj)); err != nil {
					return nil, false, false, fmt.Errorf("make %s unreadable on shard %d: %w", u[i].Name, s, err)
				}
			}
		}
	}
	var remaining []int
	var ids []common.ID
	for s := 0; s < tc.Shards; s++ {
		switch tc.Target[s] {
		case "src":
			if err := w.SetMode(s, mode.ReadOnly); err != nil {
				return nil, false, false, err
			}
		case "ro":
			if err := w.SetMode(s, mode.ReadOnly); err != nil {
				return nil, false, false, err
			}
			remaining = append(remaining, s)
		case "failput":
			w.Shards[s].Stor.FailPuts(-1)
			remaining = append(remaining, s)
		default:
			remaining = append(remaining, s)
		}
	}
	for _, s := range tc.Src {
		ids = append(ids, w.Shards[s].ID)
	}
	all := make([]int, tc.Shards)
	for i := range all {
		all[i] = i
	}
	before := look(w, u, all)
	srcSnap := map[int]string{}
	for _, s := range tc.Src {
		if srcSnap[s], err = snapshotDir(w.Shards[s].Dir); err != nil {
			return nil, false, false, err
		}
	}
	handed := map[oid.ID]bool{}
	var handler func(oid.Address, *object.Object) error
	if tc.Handler {
		handler = func(a oid.Address, o *object.Object) error {
			handed[a.Object()] = true
			return nil
		}
	}
	moved, eerr := w.Eng.Evacuate(context.Background(), ids, tc.IgnoreErrors, handler)
	// the sources must be untouched whatever the result
	for _, s := range tc.Src {
		after, err := snapshotDir(w.Shards[s].Dir)
		if err != nil {
			return nil, false, false, err
		}
		if after != srcSnap[s] {
			vs = append(vs, verdict{"source-shard-changed", fmt.Sprintf("directory of evacuated shard %d differs after Evacuate (err=%v)", s, eerr)})
		}
	}
	if len(tc.Unreadable) > 0 {
		// position of the unreadable objects in the listing is an input dimension; the verdict on the
		// result of the call itself:
		switch {
		case eerr == nil && !tc.IgnoreErrors:
			vs = append(vs, verdict{"unreadable-source-object:evacuate-succeeded-with-ignoreErrors=false",
				fmt.Sprintf("source lists %v with lost blobs, Evacuate(ignoreErrors=false) returned nil (moved=%d)", tc.Unreadable, moved)})
		case eerr != nil && tc.IgnoreErrors:
			vs = append(vs, verdict{"unreadable-source-object:evacuate-failed-with-ignoreErrors=true",
				fmt.Sprintf("source lists %v with lost blobs, healthy read-write target, Evacuate(ignoreErrors=true) returned %v", tc.Unreadable, eerr)})
		}
	}
	if eerr != nil {
		outcomes.Store("evacuate-error", true)
		return vs, false, false, nil
	}
	outcomes.Store(fmt.Sprintf("evacuate-ok/moved=%d/handed=%d", moved, len(handed)), true)
	// the engine without the evacuated shards
	w.Detach(tc.Src...)
	after := look(w, u, remaining)
	for i, uo := range u {
		b, a := before[i], after[i]
		// an address about which the shards disagreed before (one serves it, another says removed)
		// has no defined status (that is C08/C20 matter)
		served, removed := false, false
		for _, c := range b.shard {
			served = served || c == "ok"
			removed = removed || c == "removed"
		}
		if served && removed {
			outcomes.Store("undefined-status-skipped", true)
			continue
		}
		onSrc := false
		for _, s := range tc.Src {
			onSrc = onSrc || tc.Place[i]&(1<<s) != 0
		}
		ctxs := fmt.Sprintf("%s (%s): before get=%s locked=%s per-shard=%v; after (remaining shards %v) get=%s locked=%s per-shard=%v; handed to fault handler=%v; moved=%d",
			uo.Name, uo.Kind, b.get, b.locked, b.shard, remaining, a.get, a.locked, a.shard, handed[uo.obj.GetID()], moved)
		if b.get == "ok" {
			if onSrc {
				nontrivial = true
			}
			switch {
			case a.get == "ok" && a.bytes != b.bytes:
				vs = append(vs, verdict{"bytes-differ:" + uo.Kind, ctxs})
			case a.get != "ok" && !handed[uo.obj.GetID()]:
				fp := "available-object-lost:" + uo.Kind + ":after=" + a.get
				if len(tc.Unreadable) > 0 {
					fp += fmt.Sprintf(":source-lists-unreadable-objects:ignoreErrors=%v", tc.IgnoreErrors)
					ctxs += fmt.Sprintf("; unreadable listed positions %v of %d", tc.Unreadable, len(u))
				}
				vs = append(vs, verdict{fp, ctxs})
			}
		}
		if handed[uo.obj.GetID()] {
			continue // the caller took the object over: its local status is the caller's business
		}
		assocHanded := false
		for _, other := range u {
			if other.obj.AssociatedObject() == uo.obj.GetID() && handed[other.obj.GetID()] {
				assocHanded = true
			}
		}
		if assocHanded {
			outcomes.Store("status-of-target-whose-tombstone/lock-was-handed-over-skipped", true)
			continue // its tombstone / lock went to the caller; the local status follows it
		}
		if (b.get == "removed") != (a.get == "removed") && b.get != "err" && a.get != "err" {
			vs = append(vs, verdict{fmt.Sprintf("removal-status-changed:%s:%s->%s", uo.Kind, b.get, a.get), ctxs})
		}
		if b.get != "ok" && a.get == "ok" {
			vs = append(vs, verdict{fmt.Sprintf("unavailable-object-appeared:%s:%s->ok", uo.Kind, b.get), ctxs})
		}
		if b.locked != a.locked && b.locked != "err" && a.locked != "err" {
			vs = append(vs, verdict{fmt.Sprintf("lock-status-changed:%s:%s->%s", uo.Kind, b.locked, a.locked), ctxs})
		}
	}
	return vs, true, nontrivial, nil
}

type gen struct {
	uni   string
	cases []tcase
}

// placements enumerates contents: opts[i] lists the allowed shard masks of object i.
func placements(opts [][]int, f func(p []int)) {
	sizes := make([]int, len(opts))
	for i := range opts {
		sizes[i] = len(opts[i])
	}
	enumx.Product(sizes, func(idx []int) bool {
		p := make([]int, len(idx))
		for i, j := range idx {
			p[i] = opts[i][j]
		}
		f(p)
		return true
	})
}

func states(n int, alphabet []string, f func([]string)) {
	enumx.Seqs(len(alphabet), n, func(s []int) bool {
		r := make([]string, n)
		for i, x := range s {
			r[i] = alphabet[x]
		}
		f(r)
		return true
	})
}

func buildCases(thorough bool) []gen {
	var gs []gen
	tstates := []string{"rw", "ro", "failput"}
	// Part A: 2 shards, shard 0 evacuated into shard 1. Universe order: r1 r2 e v t k l.
	{
		g := gen{uni: "std"}
		src, dst, both := 1, 2, 3
		rOpt := []int{src}
		pairT := []int{src, dst, both}
		tOpt, lOpt := pairT, pairT
		// without a fault handler a read-only or failing target can only refuse: one such combination
		// is kept in quick (the sources must stay untouched in refused evacuations too)
		type th struct {
			t string
			h bool
		}
		combos := []th{{"rw", false}, {"rw", true}, {"ro", true}, {"failput", true}, {"failput", false}}
		if thorough {
			rOpt = []int{src, both}
			tOpt, lOpt = []int{0, src, dst, both}, []int{0, src, dst, both}
			combos = append(combos, th{"ro", false})
		}
		placements([][]int{rOpt, {0}, rOpt, pairT, tOpt, pairT, lOpt}, func(p []int) {
			for _, c := range combos {
				g.cases = append(g.cases, tcase{Shards: 2, Src: []int{0}, Place: p, Target: []string{"src", c.t}, Handler: c.h, Uni: "std"})
			}
		})
		gs = append(gs, g)
	}
	// Part B: 3 shards. Items placed together: (v,t) and (k,l). Each item on the source only, or on
	// the source and one remaining shard.
	{
		g := gen{uni: "std"}
		item := []int{1, 1 | 2, 1 | 4}
		r2 := []int{0}
		if thorough {
			r2 = item
		}
		type pl struct{ r1, r2, e, tv, lk int }
		var ps []pl
		for _, a := range item {
			for _, b := range r2 {
				for _, c := range item {
					for _, d := range item {
						for _, e := range item {
							ps = append(ps, pl{a, b, c, d, e})
						}
					}
				}
			}
		}
		two := [][]string{{"rw", "rw"}, {"ro", "rw"}, {"rw", "ro"}, {"failput", "rw"}}
		if thorough {
			two = nil
			states(2, tstates, func(s []string) { two = append(two, s) })
		}
		for _, p := range ps {
			place := []int{p.r1, p.r2, p.e, p.tv, p.tv, p.lk, p.lk}
			for _, ts := range two {
				for _, h := range []bool{false, true} {
					if h && !thorough && ts[0] == "rw" && ts[1] == "rw" {
						continue
					}
					g.cases = append(g.cases, tcase{Shards: 3, Src: []int{0}, Place: place, Target: []string{"src", ts[0], ts[1]}, Handler: h, Uni: "std"})
				}
			}
		}
		// two sources (both orders in thorough) into one remaining shard; items on 0, on 1 or on both
		item2 := []int{1, 2, 3}
		orders := [][]int{{0, 1}}
		if thorough {
			orders = append(orders, []int{1, 0})
		}
		eOpt, ts2 := []int{1}, []string{"rw", "failput"}
		if thorough {
			eOpt, ts2 = item2, tstates
		}
		placements([][]int{item2, {0}, eOpt, item2, item2}, func(p []int) {
			place := []int{p[0], 0, p[2], p[3], p[3], p[4], p[4]}
			for _, ts := range ts2 {
				for _, h := range []bool{false, true} {
					for _, o := range orders {
						g.cases = append(g.cases, tcase{Shards: 3, Src: o, Place: place, Target: []string{"src", "src", ts}, Handler: h, Uni: "std"})
					}
				}
			}
		})
		if thorough {
			// tombstone/lock and their targets on different sources
			placements([][]int{{1}, {2}, {1, 2}, {1, 2}, {1, 2}, {1, 2}, {1, 2}}, func(p []int) {
				for _, ts := range tstates {
					for _, o := range orders {
						g.cases = append(g.cases, tcase{Shards: 3, Src: o, Place: p, Target: []string{"src", "src", ts}, Handler: false, Uni: "std"})
					}
				}
			})
		}
		gs = append(gs, g)
	}
	if thorough {
		// Part C: 4 shards, one or two sources, extended universe (split child), items on one source.
		g := gen{uni: "ext"}
		for _, srcs := range [][]int{{0}, {0, 1}} {
			item := []int{1}
			if len(srcs) == 2 {
				item = []int{1, 2}
			}
			var tss [][]string
			states(4-len(srcs), tstates, func(s []string) { tss = append(tss, s) })
			placements([][]int{item, item, item, item, item, item}, func(p []int) {
				place := []int{p[0], p[1], p[2], p[3], p[3], p[4], p[4], p[5]}
				for _, ts := range tss {
					tg := []string{"src"}
					if len(srcs) == 2 {
						tg = append(tg, "src")
					}
					tg = append(tg, ts...)
					for _, h := range []bool{false, true} {
						g.cases = append(g.cases, tcase{Shards: 4, Src: srcs, Place: place, Target: tg, Handler: h, Uni: "ext"})
					}
				}
			})
		}
		gs = append(gs, g)
	}
	// Part D: the source lists objects whose blob is lost (metadata present, Get fails). Every subset of
	// listing positions x ignoreErrors; healthy read-write target. Evacuate pages the listing by 100
	// (constant): thorough adds a two-page source with unreadable objects at the page edges.
	{
		n := 4
		if thorough {
			n = 6
		}
		g := gen{uni: fmt.Sprintf("fill%d", n)}
		place := make([]int, n)
		for i := range place {
			place[i] = 1
		}
		enumx.Subsets(n, func(m uint64) bool {
			for _, ie := range []bool{false, true} {
				g.cases = append(g.cases, tcase{Shards: 2, Src: []int{0}, Place: place, Target: []string{"src", "rw"}, Uni: g.uni, Unreadable: enumx.Bits(m), IgnoreErrors: ie})
			}
			return true
		})
		gs = append(gs, g)
		// two sources: the unreadable objects sit on the first one, the second must be evacuated as well
		g2 := gen{uni: "fill4"}
		enumx.Subsets(2, func(m uint64) bool {
			for _, ie := range []bool{false, true} {
				g2.cases = append(g2.cases, tcase{Shards: 3, Src: []int{0, 1}, Place: []int{1, 1, 2, 2}, Target: []string{"src", "src", "rw"}, Uni: "fill4", Unreadable: enumx.Bits(m), IgnoreErrors: ie})
			}
			return true
		})
		gs = append(gs, g2)
		if thorough {
			g3 := gen{uni: "fill103"}
			place := make([]int, 103)
			for i := range place {
				place[i] = 1
			}
			for _, un := range [][]int{{0}, {50}, {99}, {100}, {102}, {0, 99}, {99, 100}, {98, 99, 100, 101}, {0, 102}} {
				for _, ie := range []bool{false, true} {
					g3.cases = append(g3.cases, tcase{Shards: 2, Src: []int{0}, Place: place, Target: []string{"src", "rw"}, Uni: "fill103", Unreadable: un, IgnoreErrors: ie})
				}
			}
			gs = append(gs, g3)
		}
	}
	return gs
}

func caseKey(tc tcase) string {
	copies := 0
	for _, m := range tc.Place {
		for ; m != 0; m &= m - 1 {
			copies++
		}
	}
	return fmt.Sprintf("%d|%d|%03d|%02d|%v|%v|%v|%v|%v|%s", tc.Shards, len(tc.Src), copies, len(tc.Unreadable), tc.Handler, tc.Target, tc.Place, tc.Unreadable, tc.IgnoreErrors, tc.Uni)
}

func main() {
	r := ev.Start("C19", ev.Exploration)
	if !ew.Instrumented {
		r.Fatal("built without the verif overlay")
	}
	unis := map[string][]uobj{"std": universe("std"), "ext": universe("ext")}
	uniOf := func(name string) []uobj {
		if _, ok := unis[name]; !ok {
			unis[name] = universeByName(name)
		}
		return unis[name]
	}
	if r.Replay != "" {
		var tc tcase
		r.LoadReplay(&tc)
		vs, _, _, err := run(tc, uniOf(tc.Uni))
		if err != nil {
			r.Fatal("%v", err)
		}
		for _, v := range vs {
			r.Violation(v.fp, v.what, tc)
		}
		r.Finish()
	}
	type found struct {
		v   verdict
		tc  tcase
		key string
		n   int
	}
	var mu sync.Mutex
	best := map[string]*found{}
	var okRuns, failRuns, popErr int64
	exhaustive := true
	for _, g := range buildCases(r.Thorough()) {
		u := uniOf(g.uni)
		enumx.Parallel(len(g.cases), func(i int) {
			if r.Expired() {
				mu.Lock()
				exhaustive = false
				mu.Unlock()
				return
			}
			tc := g.cases[i]
			vs, ok, nontriv, err := run(tc, u)
			if err != nil {
				mu.Lock()
				popErr++
				if popErr <= 3 {
					fmt.Println("  note: case skipped:", err)
				}
				mu.Unlock()
				return
			}
			r.Eval(1)
			if nontriv {
				r.Nontrivial(caseKey(tc))
			}
			if i%211 == 7 {
				r.Sample(tc)
			}
			mu.Lock()
			if ok {
				okRuns++
			} else {
				failRuns++
			}
			for _, v := range vs {
				k := caseKey(tc)
				if b, in := best[v.fp]; !in {
					best[v.fp] = &found{v, tc, k, 1}
				} else {
					b.n++
					if k < b.key {
						b.v, b.tc, b.key = v, tc, k
					}
				}
			}
			mu.Unlock()
		})
	}
	if vmaps.Calls() == 0 {
		r.Fatal("vmaps shim was never called")
	}
	var fps []string
	for fp := range best {
		fps = append(fps, fp)
	}
	sort.Strings(fps)
	for _, fp := range fps {
		b := best[fp]
		r.Violation(fp, fmt.Sprintf("%s [%d cases in this class; minimal: %d shards, evacuate %v, remaining %v, placement %v, fault handler %v]", b.v.what, b.n, b.tc.Shards, b.tc.Src, b.tc.Target, b.tc.Place, b.tc.Handler), b.tc)
	}
	nOut := 0
	outcomes.Range(func(_, _ any) bool { nOut++; return true })
	r.Set("outcome_classes", nOut)
	r.Set("evacuations_succeeded", okRuns)
	r.Set("evacuations_refused_or_failed", failRuns)
	r.Set("cases_skipped_population_conflict", popErr)
	r.Rule("unreadable-object dimension: sources holding 4 (thorough 6; and 103 = two listing pages) regular objects, every subset of listing positions made unreadable (blob removed from the source FSTree, metadata kept) x ignoreErrors false/true, also with a second healthy source; Evacuate(ignoreErrors=false) must fail, Evacuate(ignoreErrors=true) must succeed and every object readable before must be served by the remaining shards. Other parts: case = (number of shards, contents: shard masks of r1 r2 e v t k l [c], evacuated shard list, state of every remaining shard rw|ro|failput, fault handler yes/no); every case runs Evacuate on a fresh real engine; the source directories are compared byte-wise in every case, the availability / bytes / removal / lock oracle is evaluated when Evacuate returned nil, on the engine with the evacuated shards detached. Non-trivial = successful evacuation in which an object available before lived on an evacuated shard; distinct = distinct case")
	r.Assume(
		"addresses whose status the shards disagreed about before the evacuation (one shard serves the object, another holds its tombstone) are not judged (C08/C20 matter)",
		"an object handed to an accepting fault handler counts as taken over by the caller",
		"apart from the unreadable-object dimension (lost blobs on the sources, ignoreErrors false/true) the sources are healthy read-only shards; no write-cache; no concurrent operations",
		"Evacuate's listing page size is the constant 100: page-boundary positions are exercised in the thorough tier only (103 objects), quick covers every subset of positions within one page",
	)
	r.Exhaustive(exhaustive)
	r.Finish()
}
