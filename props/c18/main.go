// C18: rebuilding the metabase from the blob storage gives every object the same status whatever
// order the blobs are enumerated in, equal to incremental construction, and leaves every removed
// object's payload reclaimable by GC.
//
// enumx: scenarios (object sets with arrival scripts) x ID-order variants x arrival orders (the
// implementation decides which puts are accepted = which blobs exist, exactly as shard.Put does)
// x evaluation epochs x ALL permutations of the blob enumeration order, through the real
// meta.DB.ResyncFromBlobstor driven by a harness common.Storage whose Iterate follows the permutation.
package main

import (
	"crypto/sha256"
	"errors"
	"fmt"
	"os"
	"path/filepath"
	"sort"
	"strings"
	"sync"
	"sync/atomic"

	"github.com/nspcc-dev/bbolt"
	ierrors "github.com/nspcc-dev/neofs-node/internal/errors"
	"github.com/nspcc-dev/neofs-node/pkg/local_object_storage/blobstor/common"
	meta "github.com/nspcc-dev/neofs-node/pkg/local_object_storage/metabase"
	"github.com/nspcc-dev/neofs-node/verif/lib/enumx"
	"github.com/nspcc-dev/neofs-node/verif/lib/ev"
	"github.com/nspcc-dev/neofs-sdk-go/checksum"
	apistatus "github.com/nspcc-dev/neofs-sdk-go/client/status"
	cid "github.com/nspcc-dev/neofs-sdk-go/container/id"
	"github.com/nspcc-dev/neofs-sdk-go/object"
	oid "github.com/nspcc-dev/neofs-sdk-go/object/id"
	"github.com/nspcc-dev/neofs-sdk-go/user"
	"go.uber.org/zap"
)

// ---------------------------------------------------------------------------------------------
// universe

type kind int

const (
	kReg    kind = iota
	kFirst       // first split child (v2): parent header without ID
	kLast        // last split child (v2): first ID + full parent header with ID
	kLink        // LINK object (v2): parent header with ID + first ID
	kV1          // v1 split child: split ID only
	kV1Last      // v1 last child: split ID + parent header with ID
	kTomb
	kLock
)

type spec struct {
	name   string
	k      kind
	cnr    int    // 0 = cA, 1 = cB
	exp    uint64 // 0 = no expiration attribute
	target string // tombstone/lock target (may name an object that is never stored)
	parent string // split parent (virtual)
	first  string
}

// the universe; scenarios pick subsets by name
var universe = []spec{
	{name: "R1", k: kReg, exp: 2},
	{name: "R2", k: kReg},
	{name: "R3", k: kReg, cnr: 1},
	{name: "R4", k: kReg, exp: 5},
	{name: "R5", k: kReg},
	{name: "C1", k: kFirst, parent: "P"},
	{name: "C2", k: kLast, parent: "P", first: "C1"},
	{name: "K", k: kLink, parent: "P", first: "C1"},
	{name: "V1", k: kV1, parent: "Q"},
	{name: "V2", k: kV1Last, parent: "Q"},
	{name: "T1", k: kTomb, target: "R1"},
	{name: "T2", k: kTomb, target: "P"},
	{name: "T3", k: kTomb, target: "R2", exp: 4},
	{name: "T4", k: kTomb, target: "R3", cnr: 1},
	{name: "T5", k: kTomb, target: "R5"},
	{name: "TQ", k: kTomb, target: "Q"},
	{name: "TX", k: kTomb, target: "X"},
	{name: "L1", k: kLock, target: "R1", exp: 6},
	{name: "L1s", k: kLock, target: "R1", exp: 3},
	// a split object whose PARENT header carries an expiration (PE, exp 2)
	{name: "CE1", k: kFirst, parent: "PE"},
	{name: "CE2", k: kLast, parent: "PE", first: "CE1"},
	{name: "KE", k: kLink, parent: "PE", first: "CE1"},
	{name: "LPE", k: kLock, target: "PE", exp: 6},
	{name: "L2", k: kLock, target: "C1"},
	{name: "LC2", k: kLock, target: "C2"},
	{name: "LP", k: kLock, target: "P"},
	{name: "LPs", k: kLock, target: "P", exp: 3},
	{name: "L3", k: kLock, target: "R2"},
	{name: "L4", k: kLock, target: "R4", exp: 3},
	{name: "L5", k: kLock, target: "R5", exp: 3},
}

// virtual / never stored addresses that are observed too
var virtuals = []string{"P", "Q", "X", "PE"}

// expiration attribute in the header of a virtual parent
var parentExp = map[string]uint64{"PE": 2}

type scenario struct {
	name    string
	objs    []string         // natural arrival order (objects, then locks, then tombstones)
	bump    map[int]uint64   // before the put with this arrival position the epoch becomes this value
	epochs  []uint64         // evaluation (= resync) epochs, all >= the last arrival epoch
	tier    int              // 0 = quick and thorough, 1 = thorough only
	arrival map[string][]int // named alternative arrival orders (indices into objs), quick tier
}

var scenarios = []scenario{
	{name: "locks-vs-expiration", objs: []string{"R1", "R2", "R4", "L1", "L3", "L4"}, epochs: []uint64{0, 3, 4, 7}},
	{name: "tombstones", objs: []string{"R1", "R2", "T1", "T3", "TX"}, epochs: []uint64{0, 3, 5}},
	{name: "tombstones-two-containers", objs: []string{"R1", "R2", "R3", "T1", "T3", "T4", "TX"}, epochs: []uint64{0, 5}, tier: 1},
	{name: "split-v2-tombstoned-parent", objs: []string{"C1", "C2", "K", "R2", "L3", "T2"}, epochs: []uint64{0}},
	{name: "split-v2-locked-child", objs: []string{"C1", "C2", "K", "R1", "L2", "T1"}, epochs: []uint64{0, 3}},
	{name: "split-v1-tombstoned-parent", objs: []string{"V1", "V2", "R2", "L3", "TQ"}, epochs: []uint64{0}},
	{name: "dead-lock-then-tombstone", objs: []string{"R5", "R1", "L5", "T5", "T1"}, bump: map[int]uint64{3: 4}, epochs: []uint64{4, 6}},
	{name: "two-locks-one-target", objs: []string{"R1", "R2", "L1s", "L1", "T3"}, epochs: []uint64{0, 3, 5, 7}},
	{name: "mixed-7", objs: []string{"R1", "R2", "C1", "C2", "L1", "T3", "T2"}, epochs: []uint64{0, 3, 5}, tier: 1},
	// {lock on a child, lock on the parent} x {tombstone on the parent}: which of lock / tombstone is stored is
	// decided by the metabase per arrival order (e.g. tombstone first, lock on the garbage-marked first child after it)
	{name: "split-v2-locked-first-child-tombstoned-parent", objs: []string{"C1", "C2", "K", "L2", "T2"}, epochs: []uint64{0}},
	{name: "split-v2-locked-last-child-tombstoned-parent", objs: []string{"C1", "C2", "K", "LC2", "T2"}, epochs: []uint64{0}},
	{name: "split-v2-locked-parent-tombstoned-parent", objs: []string{"C1", "C2", "K", "LP", "T2"}, epochs: []uint64{0}},
	// split object expiring through its parent header, +- a live lock on the parent, resync after the expiration
	{name: "split-v2-expiring-parent", objs: []string{"CE1", "CE2", "KE", "R2", "L3"}, epochs: []uint64{0, 3}},
	{name: "split-v2-expiring-parent-locked", objs: []string{"CE1", "CE2", "KE", "LPE", "R2"}, epochs: []uint64{0, 3, 7}},
	{name: "split-v2-dead-lock-on-parent-then-tombstone", objs: []string{"C1", "C2", "K", "LPs", "T2"}, bump: map[int]uint64{4: 4}, epochs: []uint64{4, 6}},
}

type uobj struct {
	spec
	id   oid.ID
	cnr  cid.ID
	addr oid.Address
	obj  *object.Object
	bin  []byte
}

type world struct {
	byName map[string]*uobj
	names  []string // observation order: universe then virtuals
}

func h32(label string) [32]byte { return sha256.Sum256([]byte("verif-c18-" + label)) }

var (
	cnrs  [2]cid.ID
	owner user.ID
)

// variant: 0 = association objects (tombstones, locks) sort BEFORE every other ID,
// 1 = AFTER, 2 = locks before / tombstones after, 3 = tombstones before / locks after.
func firstByte(k kind, variant int) byte {
	lo, hi := byte(0x10), byte(0xF0)
	switch k {
	case kTomb:
		if variant == 0 || variant == 3 {
			return lo
		}
		return hi
	case kLock:
		if variant == 0 || variant == 2 {
			return lo
		}
		return hi
	}
	return 0x80
}

func mkID(name string, k kind, variant int) oid.ID {
	h := h32("oid-" + name)
	h[0] = firstByte(k, variant)
	return oid.ID(h)
}

func baseObject(c cid.ID, id oid.ID, name string, typ object.Type, exp uint64) *object.Object {
	o := object.New(c, owner)
	o.SetID(id)
	o.SetType(typ)
	pl := []byte("payload-of-" + name)
	if typ == object.TypeTombstone || typ == object.TypeLock {
		pl = nil
	}
	o.SetPayload(pl)
	o.SetPayloadSize(uint64(len(pl)))
	o.SetPayloadChecksum(checksum.NewSHA256(sha256.Sum256(pl)))
	o.SetCreationEpoch(0)
	if exp != 0 {
		o.SetAttributes(object.NewAttribute(object.AttributeExpirationEpoch, fmt.Sprint(exp)))
	}
	return o
}

func buildWorld(variant int) *world {
	w := &world{byName: map[string]*uobj{}}
	idOf := func(name string) oid.ID {
		for _, s := range universe {
			if s.name == name {
				return mkID(name, s.k, variant)
			}
		}
		return mkID(name, kReg, variant) // virtual parents and the absent target
	}
	splitID := object.NewSplitIDFromV2(func() []byte {
		h := h32("split-id")
		h[6] = h[6]&0x0f | 0x40 // UUID v4
		h[8] = h[8]&0x3f | 0x80
		return h[:16]
	}())
	parentHdr := func(name string, c cid.ID) *object.Object {
		p := baseObject(c, idOf(name), name, object.TypeRegular, parentExp[name])
		p.SetPayload(nil)
		p.SetPayloadSize(64)
		return p
	}
	for _, s := range universe {
		u := &uobj{spec: s, id: idOf(s.name), cnr: cnrs[s.cnr]}
		var o *object.Object
		switch s.k {
		case kReg:
			o = baseObject(u.cnr, u.id, s.name, object.TypeRegular, s.exp)
		case kFirst:
			o = baseObject(u.cnr, u.id, s.name, object.TypeRegular, s.exp)
			o.SetParent(parentHdr(s.parent, u.cnr))
			o.SetParentID(oid.ID{})
		case kLast:
			o = baseObject(u.cnr, u.id, s.name, object.TypeRegular, s.exp)
			o.SetFirstID(idOf(s.first))
			o.SetPreviousID(idOf(s.first))
			par := parentHdr(s.parent, u.cnr)
			o.SetParent(par)
			o.SetParentID(par.GetID())
		case kLink:
			o = baseObject(u.cnr, u.id, s.name, object.TypeLink, s.exp)
			par := parentHdr(s.parent, u.cnr)
			o.SetParent(par)
			o.SetParentID(par.GetID())
			o.SetFirstID(idOf(s.first))
		case kV1:
			o = baseObject(u.cnr, u.id, s.name, object.TypeRegular, s.exp)
			o.SetSplitID(splitID)
		case kV1Last:
			o = baseObject(u.cnr, u.id, s.name, object.TypeRegular, s.exp)
			o.SetSplitID(splitID)
			par := parentHdr(s.parent, u.cnr)
			o.SetParent(par)
			o.SetParentID(par.GetID())
		case kTomb:
			o = baseObject(u.cnr, u.id, s.name, object.TypeTombstone, s.exp)
			o.AssociateDeleted(idOf(s.target))
		case kLock:
			o = baseObject(u.cnr, u.id, s.name, object.TypeLock, s.exp)
			o.AssociateLocked(idOf(s.target))
		}
		u.obj = o
		u.addr = oid.NewAddress(u.cnr, u.id)
		u.bin = o.Marshal()
		w.byName[s.name] = u
		w.names = append(w.names, s.name)
	}
	for _, v := range virtuals {
		u := &uobj{spec: spec{name: v, k: kReg}, id: idOf(v), cnr: cnrs[0]}
		u.addr = oid.NewAddress(u.cnr, u.id)
		w.byName[v] = u
		w.names = append(w.names, v)
	}
	return w
}

// ---------------------------------------------------------------------------------------------
// harness blob storage: Iterate follows the given order

type permStorage struct {
	common.Storage // every other method is unused by ResyncFromBlobstor (nil => panic if that changes)
	objs           []*uobj
	order          []int
}

func (s *permStorage) ShardID() common.ID { return common.ID{} }
func (s *permStorage) Iterate(h func(oid.Address, []byte) error, _ func(oid.Address, error) error) error {
	for _, i := range s.order {
		if err := h(s.objs[i].addr, s.objs[i].bin); err != nil {
			return err
		}
	}
	return nil
}

// ---------------------------------------------------------------------------------------------
// real metabase instance (one per worker, reset between cases)

type epochSrc struct{ v atomic.Uint64 }

func (e *epochSrc) CurrentEpoch() uint64 { return e.v.Load() }

type inst struct {
	db *meta.DB
	ep *epochSrc
}

var (
	scratch string
	instSeq atomic.Int64
)

func newInst(r *ev.Run) *inst {
	ep := &epochSrc{}
	opts := *bbolt.DefaultOptions
	opts.NoSync = true
	opts.NoFreelistSync = true
	db := meta.New(
		meta.WithPath(filepath.Join(scratch, fmt.Sprintf("meta-%d", instSeq.Add(1)))),
		meta.WithEpochState(ep),
		meta.WithMaxBatchSize(1),
		meta.WithBoltDBOptions(&opts),
		meta.WithLogger(zap.NewNop()),
	)
	if err := db.Open(false); err != nil {
		r.Fatal("open metabase: %v", err)
	}
	if err := db.Init(common.ID{}); err != nil {
		r.Fatal("init metabase: %v", err)
	}
	return &inst{db: db, ep: ep}
}

// status classes: A available, P available virtual parent (split info), R removed by tombstone,
// E expired, M missing/not found; "+L" = IsLocked
func (in *inst) status(a oid.Address) string {
	var s string
	ok, err := in.db.Exists(a, false)
	switch {
	case err == nil && ok:
		s = "A"
	case err == nil:
		s = "M"
	case errors.Is(err, ierrors.ErrParentObject):
		s = "P"
	case errors.Is(err, apistatus.ErrObjectAlreadyRemoved):
		s = "R"
	case errors.Is(err, meta.ErrObjectIsExpired):
		s = "E"
	case errors.Is(err, apistatus.ErrObjectNotFound):
		s = "M"
	default:
		s = "ERR(" + err.Error() + ")"
	}
	l, err := in.db.IsLocked(a)
	if err != nil {
		s += "+LERR"
	} else if l {
		s += "+L"
	}
	// Get must agree with Exists on the class
	_, gerr := in.db.Get(a, true)
	var g string
	switch {
	case gerr == nil:
		g = "A"
	case errors.Is(gerr, ierrors.ErrParentObject) || errors.As(gerr, new(*object.SplitInfoError)):
		g = "P"
	case errors.Is(gerr, apistatus.ErrObjectAlreadyRemoved):
		g = "R"
	case errors.Is(gerr, meta.ErrObjectIsExpired):
		g = "E"
	case errors.Is(gerr, apistatus.ErrObjectNotFound):
		g = "M"
	default:
		g = "ERR"
	}
	if g != s[:1] {
		s += "/get=" + g
	}
	return s
}

func (in *inst) vector(w *world) []string {
	v := make([]string, len(w.names))
	for i, n := range w.names {
		v[i] = in.status(w.byName[n].addr)
	}
	return v
}

// garbage listing + reclaim loop (what shard.removeGarbage does with the metabase): returns the
// addresses listed as garbage at least once and the set of blobs deleted.
func (in *inst) reclaim() (listed map[oid.Address]bool, deleted map[oid.Address]bool, drained bool, err error) {
	listed, deleted = map[oid.Address]bool{}, map[oid.Address]bool{}
	for round := 0; round < 8; round++ {
		bins, err := in.db.GetGarbage(3)
		if err != nil {
			return nil, nil, false, err
		}
		if len(bins) == 0 {
			return listed, deleted, true, nil
		}
		for _, b := range bins {
			if len(b.Objects) == 0 {
				if err := in.db.DeleteContainer(b.Container); err != nil {
					return nil, nil, false, err
				}
				continue
			}
			for _, id := range b.Objects {
				listed[oid.NewAddress(b.Container, id)] = true
			}
			rm, _, err := in.db.Delete(b.Container, b.Objects)
			if err != nil {
				return nil, nil, false, err
			}
			for _, id := range rm {
				deleted[oid.NewAddress(b.Container, id)] = true
			}
		}
	}
	return listed, deleted, false, nil
}

// ---------------------------------------------------------------------------------------------
// cases

type tcase struct {
	Scenario string
	Variant  int
	Arrival  []int // arrival order (indices into the scenario's object list)
	Epoch    uint64
	Perm     []int // blob enumeration order (indices into the stored blob list, which is in scenario order)
	After    []int // batch-boundary family only: the blobs of Perm that are read AFTER the resyncBatchSize filler blobs
}

func scenarioByName(n string) *scenario {
	for i := range scenarios {
		if scenarios[i].name == n {
			return &scenarios[i]
		}
	}
	return nil
}

// incremental construction: puts in arrival order, epoch bumps at the scripted positions; a blob is
// stored iff the metabase accepted the put (shard.Put deletes the blob again when the metabase refuses).
func incremental(in *inst, w *world, sc *scenario, arrival []int) (stored []int, rejects []string, err error) {
	if err = in.db.Reset(); err != nil {
		return
	}
	in.ep.v.Store(0)
	for pos, oi := range arrival {
		if e, ok := sc.bump[pos]; ok {
			in.ep.v.Store(e)
		}
		u := w.byName[sc.objs[oi]]
		if perr := in.db.Put(u.obj); perr != nil {
			rejects = append(rejects, u.name)
			continue
		}
		stored = append(stored, oi)
	}
	sort.Ints(stored)
	return
}

// structural description of an object's situation (for fingerprints): from the stored set only
func describe(w *world, sc *scenario, stored []int, name string, epoch uint64) string {
	u := w.byName[name]
	inS := map[string]*uobj{}
	for _, oi := range stored {
		inS[sc.objs[oi]] = w.byName[sc.objs[oi]]
	}
	var fl []string
	role := map[kind]string{kReg: "regular", kFirst: "split-child", kLast: "split-child", kLink: "split-child",
		kV1: "split-child", kV1Last: "split-child", kTomb: "tombstone", kLock: "lock"}[u.k]
	isVirtual := false
	for _, v := range virtuals {
		if v == name {
			isVirtual = true
		}
	}
	if isVirtual {
		role = "virtual-parent"
		if name == "X" {
			role = "absent-object"
		}
	} else if inS[name] == nil {
		fl = append(fl, "blob-not-stored")
	}
	if u.exp != 0 && epoch > u.exp {
		fl = append(fl, "expired")
	}
	assoc := func(target string, k kind) (live, dead bool) {
		for _, a := range inS {
			if a.k == k && a.target == target {
				if a.exp != 0 && epoch > a.exp {
					dead = true
				} else {
					live = true
				}
			}
		}
		return
	}
	if l, d := assoc(name, kLock); l {
		fl = append(fl, "live-lock")
	} else if d {
		fl = append(fl, "expired-lock")
	}
	if l, d := assoc(name, kTomb); l {
		fl = append(fl, "tombstone")
	} else if d {
		fl = append(fl, "expired-tombstone")
	}
	if pe := parentExp[name]; pe != 0 && epoch > pe {
		fl = append(fl, "expired")
	}
	if u.parent != "" {
		if l, d := assoc(u.parent, kTomb); l || d {
			fl = append(fl, "parent-tombstoned")
		}
		if pe := parentExp[u.parent]; pe != 0 && epoch > pe {
			fl = append(fl, "parent-expired")
		}
		if l, d := assoc(u.parent, kLock); l {
			fl = append(fl, "parent-live-lock")
		} else if d {
			fl = append(fl, "parent-expired-lock")
		}
	}
	if isVirtual {
		for _, a := range inS {
			if a.parent == name {
				if l, d := assoc(a.name, kLock); l || d {
					fl = append(fl, "child-locked")
					break
				}
			}
		}
	}
	return role + "[" + strings.Join(fl, ",") + "]"
}

type checker struct {
	r       *ev.Run
	worlds  [4]*world
	pool    chan *inst
	classes sync.Map // distinct resync outcome vectors
}

func (c *checker) get() *inst   { return <-c.pool }
func (c *checker) put(in *inst) { c.pool <- in }

// resyncOne runs one rebuild in enumeration order perm and returns the status vector and the
// reclaim result.
func (c *checker) resyncOne(in *inst, w *world, sc *scenario, stored []int, epoch uint64, perm []int, variant int, arrival []int) (vec []string, listed, deleted map[oid.Address]bool, drained bool) {
	st := &permStorage{order: perm}
	for _, oi := range stored {
		st.objs = append(st.objs, w.byName[sc.objs[oi]])
	}
	in.ep.v.Store(epoch)
	if err := in.db.ResyncFromBlobstor(st, func(a oid.Address, err error) error {
		return fmt.Errorf("iteration error for %s: %w", a, err)
	}); err != nil {
		var ord []string
		for _, p := range perm {
			ord = append(ord, st.objs[p].name)
		}
		c.violation("rebuild-fails", fmt.Sprintf("scenario %s epoch %d: ResyncFromBlobstor over blobs in order %v (all of them accepted by the metabase when they arrived) fails: %v", sc.name, epoch, ord, err),
			tcase{Scenario: sc.name, Variant: variant, Arrival: arrival, Epoch: epoch, Perm: perm})
		// make the DB usable for the next case
		if rerr := in.db.Reset(); rerr != nil {
			c.r.Fatal("reset after failed resync: %v", rerr)
		}
	}
	vec = in.vector(w)
	var err error
	listed, deleted, drained, err = in.reclaim()
	if err != nil {
		c.r.Fatal("reclaim %s %v: %v", sc.name, perm, err)
	}
	return
}

var allFP sync.Map

func (c *checker) violation(fp, what string, tc tcase) {
	if _, seen := allFP.LoadOrStore(fp, what); !seen && os.Getenv("VERIF_DEBUG") != "" {
		fmt.Printf("DEBUG-FP %s\n    %s\n", fp, what)
	}
	c.r.Violation(fp, what, tc)
}

// dontCare: the comparison between two status vectors is strict except for
//   - objects that are BOTH expired by their own header at this epoch AND the target of a stored
//     tombstone: "expired" and "removed by tombstone" both follow from the stored objects (E ~ R);
//   - objects expired by their own header: "expired" and "not in the metabase" are the same
//     client-visible status (the engine maps both to ObjectNotFound) (E ~ M); the cases where the
//     rebuild leaves such an object out of the metabase (its blob is then never reclaimed) are
//     counted in the evidence, the property text does not demand their reclamation.
func dontCare(w *world, sc *scenario, stored []int, epoch uint64) map[string]string {
	m := map[string]string{}
	liveLock := func(target string) bool {
		for _, oj := range stored {
			l := w.byName[sc.objs[oj]]
			if l.k == kLock && l.target == target && (l.exp == 0 || epoch <= l.exp) {
				return true
			}
		}
		return false
	}
	for _, oi := range stored {
		u := w.byName[sc.objs[oi]]
		if pe := parentExp[u.parent]; u.parent != "" && pe != 0 && epoch > pe && !liveLock(u.parent) && !liveLock(u.name) {
			// part of an unlocked object that expired through its parent header: "expired" and "not in
			// the metabase" are the same client-visible status
			m[u.name] = "EM"
		}
		if u.exp == 0 || epoch <= u.exp {
			continue
		}
		m[u.name] = "EM"
		for _, oj := range stored {
			t := w.byName[sc.objs[oj]]
			if t.k == kTomb && (t.target == u.name || (u.parent != "" && t.target == u.parent)) {
				m[u.name] = "EMR"
			}
		}
	}
	return m
}

func diffNames(w *world, a, b []string, dc map[string]string) []int {
	var d []int
	for i := range a {
		if a[i] != b[i] {
			if cls := dc[w.names[i]]; cls != "" && len(a[i]) == 1 && len(b[i]) == 1 && strings.Contains(cls, a[i]) && strings.Contains(cls, b[i]) {
				continue
			}
			d = append(d, i)
		}
	}
	return d
}

// parentKnown: does the stored set itself tie u to its split parent? Children that carry the parent ID
// do; a v2 first child (parent header without ID) and a v1 child (split ID only) do only through a
// stored sibling that carries the parent ID.
func parentKnown(w *world, sc *scenario, stored []int, u *uobj) bool {
	switch u.k {
	case kLast, kLink, kV1Last:
		return true
	case kFirst:
		for _, oi := range stored {
			if s := w.byName[sc.objs[oi]]; s.first == u.name && (s.k == kLast || s.k == kLink) {
				return true
			}
		}
	case kV1:
		for _, oi := range stored {
			if s := w.byName[sc.objs[oi]]; s.k == kV1Last && s.parent == u.parent {
				return true
			}
		}
	}
	return false
}

// evaluate one (stored set, epoch, perm) against the reference vectors. refPerm = vector of the identity
// order (nil when this IS the identity order), inc = incremental vector.
func (c *checker) judge(w *world, sc *scenario, tc tcase, stored []int, vec, refPerm, inc []string, listed, deleted map[oid.Address]bool, drained bool) {
	_ = c.r
	names := func(idx []int) string {
		var s []string
		for _, i := range idx {
			s = append(s, sc.objs[i])
		}
		return strings.Join(s, ",")
	}
	order := names(func() []int {
		o := make([]int, len(tc.Perm))
		for i, p := range tc.Perm {
			o[i] = stored[p]
		}
		return o
	}())
	if strings.HasPrefix(tc.Scenario, boundaryPrefix) {
		nb := len(tc.Perm) - len(tc.After)
		order = fmt.Sprintf("%s | %d filler blobs (= resync batch size) | %s", names(tc.Perm[:nb]), len(fillers()), names(tc.After))
	}
	if refPerm != nil {
		for _, i := range diffNames(w, vec, refPerm, dontCare(w, sc, stored, tc.Epoch)) {
			n := w.names[i]
			c.violation("status-depends-on-blob-order:"+describe(w, sc, stored, n, tc.Epoch),
				fmt.Sprintf("scenario %s variant %d epoch %d, stored blobs {%s}: after ResyncFromBlobstor reading blobs in order [%s] object %s has status %s, but %s when blobs are read in order [%s]",
					sc.name, tc.Variant, tc.Epoch, names(stored), order, n, vec[i], refPerm[i], names(stored)), tc)
		}
	}
	if inc != nil {
		for _, i := range diffNames(w, vec, inc, dontCare(w, sc, stored, tc.Epoch)) {
			n := w.names[i]
			c.violation("rebuilt-status-differs-from-incremental:"+describe(w, sc, stored, n, tc.Epoch),
				fmt.Sprintf("scenario %s variant %d epoch %d, arrival order [%s] stored blobs {%s}: incremental metabase says %s is %s, after ResyncFromBlobstor (blob order [%s]) it is %s",
					sc.name, tc.Variant, tc.Epoch, names(tc.Arrival), names(stored), n, inc[i], order, vec[i]), tc)
		}
	}
	// GC-ability: every stored blob whose object (or split parent) is removed by a tombstone after the
	// rebuild must be listed as garbage and physically reclaimed by the GC loop.
	if !drained {
		c.violation("garbage-never-drains", fmt.Sprintf("scenario %s order [%s]: GetGarbage keeps returning objects after 8 delete rounds", sc.name, order), tc)
	}
	if listed == nil {
		return
	}
	idx := map[string]int{}
	for i, n := range w.names {
		idx[n] = i
	}
	for _, oi := range stored {
		u := w.byName[sc.objs[oi]]
		if vec[idx[u.name]] == "M" && ((u.exp != 0 && tc.Epoch > u.exp) || (parentExp[u.parent] != 0 && tc.Epoch > parentExp[u.parent])) {
			stat.expiredLeftOut.Add(1)
		}
		removed := strings.HasPrefix(vec[idx[u.name]], "R")
		why := "is removed by a tombstone"
		if !removed && parentKnown(w, sc, stored, u) && strings.HasPrefix(vec[idx[u.parent]], "R") {
			removed, why = true, "belongs to split parent "+u.parent+" which is removed by a tombstone"
		}
		if !removed || strings.Contains(vec[idx[u.name]], "+L") {
			continue // a locked object is not reclaimable by definition
		}
		if !listed[u.addr] || !deleted[u.addr] {
			c.violation("removed-object-not-reclaimable:"+describe(w, sc, stored, u.name, tc.Epoch),
				fmt.Sprintf("scenario %s variant %d epoch %d, stored blobs {%s}, blob order [%s]: %s %s after the rebuild (status %s) but GC never gets it (listed as garbage: %v, deleted: %v) - its payload stays in the blob storage forever",
					sc.name, tc.Variant, tc.Epoch, names(stored), order, u.name, why, vec[idx[u.name]], listed[u.addr], deleted[u.addr]), tc)
		}
	}
}

type group struct {
	stored  []int
	arrival map[string][]int // distinct incremental vector-set key -> example arrival order
	incVecs map[string][][]string
}

func vecKey(vs [][]string) string {
	var b strings.Builder
	for _, v := range vs {
		b.WriteString(strings.Join(v, " "))
		b.WriteByte('\n')
	}
	return b.String()
}

func (c *checker) runScenario(sc *scenario, variant int, arrivals [][]int) (complete bool) {
	r := c.r
	w := c.worlds[variant]
	// 1. incremental construction for every arrival order; group by stored blob set
	groups := map[string]*group{}
	var gorder []string
	in := c.get()
	for _, arr := range arrivals {
		stored, _, err := incremental(in, w, sc, arr)
		if err != nil {
			r.Fatal("incremental: %v", err)
		}
		var vs [][]string
		for _, e := range sc.epochs {
			in.ep.v.Store(e)
			vs = append(vs, in.vector(w))
		}
		gk := fmt.Sprint(stored)
		g := groups[gk]
		if g == nil {
			g = &group{stored: stored, arrival: map[string][]int{}, incVecs: map[string][][]string{}}
			groups[gk] = g
			gorder = append(gorder, gk)
		}
		vk := vecKey(vs)
		if _, ok := g.arrival[vk]; !ok {
			g.arrival[vk] = append([]int(nil), arr...)
			g.incVecs[vk] = vs
		}
	}
	c.put(in)
	complete = true
	for _, gk := range gorder {
		g := groups[gk]
		if len(g.stored) == 0 {
			continue
		}
		var vks []string
		for vk := range g.arrival {
			vks = append(vks, vk)
		}
		sort.Strings(vks)
		if len(vks) > 1 {
			stat.incArrivalDependent.Add(1)
		}
		n := len(g.stored)
		var perms [][]int
		enumx.Perms(n, func(p []int) bool { perms = append(perms, append([]int(nil), p...)); return true })
		for ei, e := range sc.epochs {
			if r.Expired() {
				return false
			}
			// identity order first: reference for order independence
			in := c.get()
			ref, _, _, _ := c.resyncOne(in, w, sc, g.stored, e, perms[0], variant, g.arrival[vks[0]])
			c.put(in)
			var aborted atomic.Bool
			enumx.Parallel(len(perms), func(pi int) {
				if r.Expired() {
					aborted.Store(true)
					return
				}
				in := c.get()
				defer c.put(in)
				vec, listed, deleted, drained := c.resyncOne(in, w, sc, g.stored, e, perms[pi], variant, g.arrival[vks[0]])
				r.Eval(1)
				tc := tcase{Scenario: sc.name, Variant: variant, Epoch: e, Perm: perms[pi], Arrival: g.arrival[vks[0]]}
				var rp []string
				if pi != 0 {
					rp = ref
				}
				c.judge(w, sc, tc, g.stored, vec, rp, nil, listed, deleted, drained)
				for _, vk := range vks {
					tc.Arrival = g.arrival[vk]
					c.judge(w, sc, tc, g.stored, vec, nil, g.incVecs[vk][ei], nil, nil, true)
				}
				k := strings.Join(vec, " ")
				c.classes.Store(k, true)
				nonAvail := false
				for i, s := range vec {
					if s != "A" && s != "M" && s != "P" {
						nonAvail = true
					}
					_ = i
				}
				if nonAvail {
					r.Nontrivial(fmt.Sprintf("%s/%d/%v/%d/%s", sc.name, variant, g.stored, e, k))
				}
				if pi == len(perms)/2 && r.WantSample() {
					st := map[string]string{}
					for i, n := range w.names {
						if vec[i] != "M" {
							st[n] = vec[i]
						}
					}
					var gl []string
					for a := range listed {
						for _, n := range w.names {
							if w.byName[n].addr == a {
								gl = append(gl, n)
							}
						}
					}
					sort.Strings(gl)
					r.Sample(map[string]any{"case": tc, "statuses_not_missing": st, "garbage_listed": gl})
				}
			})
			if aborted.Load() {
				return false
			}
		}
	}
	return complete
}

// ---------------------------------------------------------------------------------------------
// batch-boundary family: the resync driver puts objects in batches of resyncBatchSize (read from the
// implementation through an injected constant). B cheap filler blobs (built once) + n interesting blobs;
// for EVERY assignment of the interesting blobs to the two sides of the filler block (2^n masks; inside a
// side: natural order, thorough also reversed and - for the 4-blob set - every permutation) the first
// batch boundary of the driver falls between the two sides. Oracles as for the permutation family:
// equal to the all-before order, equal to incremental construction, removed objects reclaimable.

const boundaryPrefix = "batch-boundary/"

type bset struct {
	scenario
	allPerms bool // thorough: every order of the interesting blobs x every split point as well
}

var boundarySets = []bset{
	// quick: every side assignment (2^n) of small sets
	{scenario: scenario{name: boundaryPrefix + "split-parts-link-tombstone", objs: []string{"C1", "C2", "K", "T2"}, epochs: []uint64{0}}},
	{scenario: scenario{name: boundaryPrefix + "regular-tombstone", objs: []string{"R5", "T5"}, epochs: []uint64{0}}},
	{scenario: scenario{name: boundaryPrefix + "expired-object-live-lock", objs: []string{"R1", "L1"}, epochs: []uint64{3}}},
	{scenario: scenario{name: boundaryPrefix + "expiring-split-parent-locked", objs: []string{"CE1", "CE2", "KE", "LPE"}, epochs: []uint64{3}}},
	// arrival: tombstone of the parent first, lock on the (garbage-marked) first child after it
	{scenario: scenario{name: boundaryPrefix + "locked-child-tombstoned-parent", objs: []string{"C1", "C2", "T2", "L2"}, epochs: []uint64{0}}},
	// thorough: larger sets, reversed inner orders, all orders of a 4-blob set
	{scenario: scenario{name: boundaryPrefix + "split-parts-link-tombstones-6", objs: []string{"C1", "C2", "K", "R5", "T5", "T2"}, epochs: []uint64{0}, tier: 1}},
	{scenario: scenario{name: boundaryPrefix + "expired-objects-and-locks", objs: []string{"R1", "R4", "L1", "L4"}, epochs: []uint64{3, 4}, tier: 1}},
	{scenario: scenario{name: boundaryPrefix + "expiring-split-parent", objs: []string{"CE1", "CE2", "KE"}, epochs: []uint64{3}, tier: 1}},
	{scenario: scenario{name: boundaryPrefix + "locked-child-link-tombstoned-parent", objs: []string{"C1", "C2", "K", "T2", "L2"}, epochs: []uint64{0}, tier: 1}},
	{scenario: scenario{name: boundaryPrefix + "four-blobs-all-orders", objs: []string{"C2", "R5", "T5", "T2"}, epochs: []uint64{0}, tier: 1}, allPerms: true},
}

var (
	fillerOnce sync.Once
	fillerObjs []*uobj
)

func fillers() []*uobj {
	fillerOnce.Do(func() {
		for i := 0; i < meta.VerifC18ResyncBatchSize; i++ {
			n := fmt.Sprintf("F%d", i)
			u := &uobj{spec: spec{name: n, k: kReg}, id: mkID(n, kReg, 0), cnr: cnrs[0]}
			u.id[0] = 0x85 + byte(i%8)
			o := object.New(u.cnr, owner)
			o.SetID(u.id)
			o.SetType(object.TypeRegular)
			o.SetPayloadChecksum(checksum.NewSHA256(sha256.Sum256(nil)))
			u.obj = o
			u.addr = oid.NewAddress(u.cnr, u.id)
			u.bin = o.Marshal()
			fillerObjs = append(fillerObjs, u)
		}
	})
	return fillerObjs
}

// order: indices into bs.objs read before the filler block, then the fillers, then the rest
func (c *checker) boundaryOne(in *inst, w *world, bs *bset, epoch uint64, before, after []int) (vec []string, listed, deleted map[oid.Address]bool, drained bool) {
	fs := fillers()
	st := &permStorage{}
	for _, n := range bs.objs {
		st.objs = append(st.objs, w.byName[n])
	}
	st.objs = append(st.objs, fs...)
	st.order = append(st.order, before...)
	for i := range fs {
		st.order = append(st.order, len(bs.objs)+i)
	}
	st.order = append(st.order, after...)
	in.ep.v.Store(epoch)
	if err := in.db.ResyncFromBlobstor(st, func(a oid.Address, err error) error { return err }); err != nil {
		c.violation("rebuild-fails", fmt.Sprintf("%s before=%v after=%v: %v", bs.name, before, after, err), tcase{Scenario: bs.name, Epoch: epoch, Perm: before, After: after})
		if rerr := in.db.Reset(); rerr != nil {
			c.r.Fatal("reset: %v", rerr)
		}
	}
	vec = in.vector(w)
	var err error
	listed, deleted, drained, err = in.reclaim()
	if err != nil {
		c.r.Fatal("reclaim: %v", err)
	}
	return
}

// incremental construction: fillers, then the interesting objects in the set's order (every put must be accepted)
func (c *checker) boundaryIncremental(in *inst, w *world, bs *bset) map[uint64][]string {
	if err := in.db.Reset(); err != nil {
		c.r.Fatal("%v", err)
	}
	in.ep.v.Store(0)
	var batch []*object.Object
	for _, f := range fillers() {
		batch = append(batch, f.obj)
	}
	if err := in.db.PutBatch(batch); err != nil {
		c.r.Fatal("fillers: %v", err)
	}
	for _, n := range bs.objs {
		if err := in.db.Put(w.byName[n].obj); err != nil {
			c.r.Fatal("%s: incremental put %s: %v", bs.name, n, err)
		}
	}
	res := map[uint64][]string{}
	for _, e := range bs.epochs {
		in.ep.v.Store(e)
		res[e] = in.vector(w)
	}
	return res
}

func boundaryByName(n string) *bset {
	for i := range boundarySets {
		if boundarySets[i].name == n {
			return &boundarySets[i]
		}
	}
	return nil
}

func (c *checker) runBoundary(bs *bset, only *tcase) bool {
	w := c.worlds[0]
	n := len(bs.objs)
	in := c.get()
	inc := c.boundaryIncremental(in, w, bs)
	stored := make([]int, n)
	all := make([]int, n)
	for i := range stored {
		stored[i], all[i] = i, i
	}
	refs := map[uint64][]string{}
	for _, e := range bs.epochs {
		refs[e], _, _, _ = c.boundaryOne(in, w, bs, e, all, nil)
	}
	c.put(in)
	type job struct {
		epoch         uint64
		before, after []int
	}
	var jobs []job
	seen := map[string]bool{}
	add := func(e uint64, before, after []int) {
		k := fmt.Sprint(e, before, after)
		if !seen[k] {
			seen[k] = true
			jobs = append(jobs, job{e, append([]int(nil), before...), append([]int(nil), after...)})
		}
	}
	rev := func(x []int) []int {
		r := make([]int, len(x))
		for i := range x {
			r[i] = x[len(x)-1-i]
		}
		return r
	}
	if only != nil {
		add(only.Epoch, only.Perm, only.After)
	} else {
		for _, e := range bs.epochs {
			for m := 0; m < 1<<uint(n); m++ {
				var before, after []int
				for i := 0; i < n; i++ {
					if m&(1<<uint(i)) != 0 {
						after = append(after, i)
					} else {
						before = append(before, i)
					}
				}
				add(e, before, after)
				if c.r.Thorough() {
					add(e, rev(before), rev(after))
					add(e, rev(before), after)
					add(e, before, rev(after))
				}
			}
			if bs.allPerms {
				enumx.Perms(n, func(p []int) bool {
					for k := 0; k <= n; k++ {
						add(e, p[:k], p[k:])
					}
					return true
				})
			}
		}
	}
	var aborted atomic.Bool
	enumx.Parallel(len(jobs), func(i int) {
		if c.r.Expired() {
			aborted.Store(true)
			return
		}
		in := c.get()
		defer c.put(in)
		j := jobs[i]
		vec, listed, deleted, drained := c.boundaryOne(in, w, bs, j.epoch, j.before, j.after)
		c.r.Eval(1)
		// Perm = complete order of the interesting blobs (judge prints it), After = the part read after the fillers
		tc := tcase{Scenario: bs.name, Arrival: all, Epoch: j.epoch, Perm: append(append([]int(nil), j.before...), j.after...), After: j.after}
		c.judge(w, &bs.scenario, tc, stored, vec, refs[j.epoch], inc[j.epoch], listed, deleted, drained)
		k := strings.Join(vec, " ")
		c.classes.Store(k, true)
		c.r.Nontrivial(fmt.Sprintf("%s/%d/%s", bs.name, j.epoch, k))
		if len(j.before) > 0 && len(j.after) > 1 && i%37 == 5 && c.r.WantSample() {
			c.r.Sample(map[string]any{"case": tc, "filler_blobs_between": len(fillers())})
		}
	})
	return !aborted.Load()
}

var stat struct {
	incArrivalDependent atomic.Int64
	expiredLeftOut      atomic.Int64
	groups              atomic.Int64
}

func replay(c *checker, tc tcase) {
	sc := scenarioByName(tc.Scenario)
	if sc == nil {
		c.r.Fatal("unknown scenario %q", tc.Scenario)
	}
	w := c.worlds[tc.Variant]
	in := c.get()
	stored, rejects, err := incremental(in, w, sc, tc.Arrival)
	if err != nil {
		c.r.Fatal("%v", err)
	}
	in.ep.v.Store(tc.Epoch)
	inc := in.vector(w)
	id := make([]int, len(stored))
	for i := range id {
		id[i] = i
	}
	ref, _, _, _ := c.resyncOne(in, w, sc, stored, tc.Epoch, id, tc.Variant, tc.Arrival)
	vec, listed, deleted, drained := c.resyncOne(in, w, sc, stored, tc.Epoch, tc.Perm, tc.Variant, tc.Arrival)
	fmt.Printf("stored=%v rejected=%v\nnames       %v\nincremental %v\nidentity    %v\nperm        %v\n", stored, rejects, w.names, inc, ref, vec)
	c.judge(w, sc, tc, stored, vec, ref, inc, listed, deleted, drained)
	c.put(in)
}

func main() {
	r := ev.Start("C18", ev.Exploration)
	var err error
	scratch, err = os.MkdirTemp("/dev/shm", "verif-c18-")
	if err != nil {
		r.Fatal("scratch: %v", err)
	}
	cleanup := func() { os.RemoveAll(scratch) }
	defer cleanup()
	cnrs[0] = cid.ID(h32("cnr-A"))
	cnrs[0][0] = 0x20
	cnrs[1] = cid.ID(h32("cnr-B"))
	cnrs[1][0] = 0x40
	{
		h := h32("owner")
		owner = user.NewFromScriptHash([20]byte(h[:20]))
	}
	c := &checker{r: r}
	for v := range c.worlds {
		c.worlds[v] = buildWorld(v)
	}
	nw := 16
	c.pool = make(chan *inst, nw)
	for i := 0; i < nw; i++ {
		c.pool <- newInst(r)
	}
	finish := func() {
		close(c.pool)
		for in := range c.pool {
			in.db.Close()
		}
		cleanup()
		r.Finish()
	}
	if r.Replay != "" {
		var tc tcase
		r.LoadReplay(&tc)
		if strings.HasPrefix(tc.Scenario, boundaryPrefix) {
			bs := boundaryByName(tc.Scenario)
			if bs == nil {
				r.Fatal("unknown boundary set %q", tc.Scenario)
			}
			tc.Perm = tc.Perm[:len(tc.Perm)-len(tc.After)]
			c.runBoundary(bs, &tc)
		} else {
			replay(c, tc)
		}
		finish()
	}
	variants := []int{0, 1}
	if r.Thorough() {
		variants = []int{0, 1, 2, 3}
	}
	exhaustive := true
	nsc := 0
	for si := range scenarios {
		sc := &scenarios[si]
		if sc.tier == 1 && r.Quick() {
			continue
		}
		nsc++
		n := len(sc.objs)
		var arrivals [][]int
		if r.Thorough() {
			// every arrival order (the implementation decides what is accepted)
			enumx.Perms(n, func(p []int) bool { arrivals = append(arrivals, append([]int(nil), p...)); return true })
		} else {
			nat := make([]int, n)
			rev := make([]int, n)
			for i := range nat {
				nat[i], rev[i] = i, n-1-i
			}
			// tombstones before locks, both after the rest
			var tl, rest []int
			for i, name := range sc.objs {
				k := c.worlds[0].byName[name].k
				if k == kTomb {
					tl = append(tl, i)
				}
			}
			for i, name := range sc.objs {
				k := c.worlds[0].byName[name].k
				if k == kLock {
					tl = append(tl, i)
				} else if k != kTomb {
					rest = append(rest, i)
				}
			}
			arrivals = [][]int{nat, append(append([]int(nil), rest...), tl...), rev}
		}
		for _, v := range variants {
			if !c.runScenario(sc, v, arrivals) {
				exhaustive = false
			}
		}
	}
	nb := 0
	for i := range boundarySets {
		bs := &boundarySets[i]
		if (bs.tier == 1 && r.Quick()) || !exhaustive {
			continue
		}
		nb++
		if !c.runBoundary(bs, nil) {
			exhaustive = false
		}
	}
	r.Set("batch_boundary_sets", nb)
	r.Set("resync_batch_size", meta.VerifC18ResyncBatchSize)
	ncls := 0
	c.classes.Range(func(_, _ any) bool { ncls++; return true })
	r.Set("outcome_classes", ncls)
	r.Set("scenarios", nsc)
	r.Set("id_order_variants", len(variants))
	r.Set("info_rebuilds_leaving_an_expired_object_out_of_the_metabase", stat.expiredLeftOut.Load())
	r.Set("stored_sets_whose_incremental_status_depends_on_arrival_order", stat.incArrivalDependent.Load())
	r.Rule("(1) permutation family: scenario (5-7 objects: regular +- expiration, v2/v1 split children with parent header, LINK, split object expiring through its parent header +- lock on the parent, tombstones, locks +- expiration; incl. one set per {lock on first child, lock on last child, lock on parent, expired lock on parent} x {tombstone on the parent}) x ID-order variant (association object IDs before/after their targets) x arrival order (quick: natural, tombstones-before-locks, reversed; thorough: all permutations; a blob exists iff the real metabase accepted the put) x resync epoch x EVERY permutation of the blob enumeration order; (2) batch-boundary family: resyncBatchSize (read from the implementation) filler blobs + 2-6 interesting blobs, EVERY assignment of the interesting blobs to the two sides of the filler block, i.e. of the driver's first batch boundary (quick: 5 sets, 56 assignments; thorough: 10 sets, also reversed inner orders and every order x split point of a 4-blob set); evaluation = one ResyncFromBlobstor + status vector (Exists/Get/IsLocked for every universe address incl. virtual parents and an absent target) + GetGarbage/Delete loop, compared with the reference order, with incremental construction, and for reclaimability; non-trivial = distinct (scenario, stored set, epoch, vector) with at least one removed/expired/locked status")
	r.Exhaustive(exhaustive)
	r.Assume("batch-boundary orders put exactly one driver batch boundary between the two groups of interesting blobs (stores of more than 2 batches are not built); container removal is not recorded in blobs and therefore not part of the rebuilt state",
		"status = class of Exists/Get error + IsLocked; counters and search results after resync are not compared (property speaks of statuses)")
	finish()
}
