// C13: a failing file-system call makes blob writes fail cleanly and never crashes.
// Controlled-scheduler exploration of the real FSTree linux writer (sync/time/channels/unix calls
// replaced by shims through the overlay): 1-3 concurrent Puts (+ the batch timer) with every
// single (thorough: every pair of) injected syscall failure, every interleaving within the
// preemption bound. Oracle: no panic, no deadlock, own-syscall fault => error, success => readable,
// fault-free execution => all succeed, and a later fault-free Put still succeeds.
package main

import (
	"bytes"
	"fmt"
	"os"
	"sort"
	"strings"

	"github.com/nspcc-dev/neofs-node/pkg/local_object_storage/blobstor/common"
	"github.com/nspcc-dev/neofs-node/pkg/local_object_storage/blobstor/fstree"
	"github.com/nspcc-dev/neofs-node/verif/lib/ev"
	"github.com/nspcc-dev/neofs-node/verif/lib/sched"
	"github.com/nspcc-dev/neofs-node/verif/shim/vunix"
	cid "github.com/nspcc-dev/neofs-sdk-go/container/id"
	oid "github.com/nspcc-dev/neofs-sdk-go/object/id"
	"golang.org/x/sys/unix"
)

func addr(i byte) oid.Address {
	var c cid.ID
	c[0] = 1
	var o oid.ID
	o[0] = 0x10 + i
	o[31] = i
	return oid.NewAddress(c, o)
}

func data(i byte, n int) []byte {
	b := bytes.Repeat([]byte{'a' + i}, n)
	b[0] = 0x0a
	return b
}

type write struct {
	batch []int // indices of objects written by one PutBatch; single element = Put
}

type cfg struct {
	name                   string
	sizes                  []int // object sizes
	writers                []write
	countLim, sizeLim, thr int
}

type putRes struct {
	Err      string
	OwnFault bool
	Faults   []string
	Readable []bool
}

type result struct {
	Puts       []putRes
	TimerFault bool
	AnyFault   bool
	Later      string // error of the later fault-free Put ("" ok)
	LaterRead  bool
	CloseErr   string
}

func scenario(c cfg, pre, flt int) sched.Scenario {
	body := func(s *sched.S) any {
		dir, err := os.MkdirTemp("/dev/shm", "verif-c13-")
		if err != nil {
			panic(err)
		}
		defer os.RemoveAll(dir)
		res := &result{Puts: make([]putRes, len(c.writers))}
		s.Result = res
		faultsOn := false
		owner := map[int]int{} // thread id -> writer index
		for k := range vunix.Calls {
			delete(vunix.Calls, k)
		}
		vunix.Fault = func(name string, nth int) unix.Errno {
			if !faultsOn {
				return 0
			}
			if s.Choose(2, sched.Fault, "fault:"+name) == 0 {
				return 0
			}
			res.AnyFault = true
			if w, ok := owner[s.Cur().ID]; ok {
				res.Puts[w].OwnFault = true
				res.Puts[w].Faults = append(res.Puts[w].Faults, name)
			} else {
				res.TimerFault = true
			}
			if name == "Close" {
				return unix.EIO
			}
			return unix.ENOSPC
		}
		defer func() { vunix.Fault = nil }()
		fs := fstree.New(fstree.WithPath(dir), fstree.WithDepth(1), fstree.WithPerm(0o700),
			fstree.WithCombinedCountLimit(c.countLim), fstree.WithCombinedSizeLimit(c.sizeLim),
			fstree.WithCombinedSizeThreshold(c.thr))
		if err := fs.Open(false); err != nil {
			panic(err)
		}
		if err := fs.Init(common.ID{}); err != nil {
			panic(err)
		}
		faultsOn = true
		done := 0
		for wi, w := range c.writers {
			wi, w := wi, w
			t := s.Go(fmt.Sprintf("writer%d", wi), false, func() {
				var err error
				if len(w.batch) == 1 {
					i := w.batch[0]
					err = fs.Put(addr(byte(i)), data(byte(i), c.sizes[i]))
				} else {
					m := map[oid.Address][]byte{}
					for _, i := range w.batch {
						m[addr(byte(i))] = data(byte(i), c.sizes[i])
					}
					err = fs.PutBatch(m)
				}
				if err != nil {
					res.Puts[wi].Err = err.Error()
				}
				done++
			})
			owner[t.ID] = wi
		}
		s.Block("join writers", func() bool { return done == len(c.writers) })
		faultsOn = false
		for wi, w := range c.writers {
			for _, i := range w.batch {
				b, err := fs.GetBytes(addr(byte(i)))
				res.Puts[wi].Readable = append(res.Puts[wi].Readable, err == nil && bytes.Equal(b, data(byte(i), c.sizes[i])))
			}
		}
		// the node keeps running: a later, unaffected write must succeed and be readable
		la := addr(0x40)
		if err := fs.Put(la, data(7, 5)); err != nil {
			res.Later = err.Error()
		} else if b, err := fs.GetBytes(la); err == nil && bytes.Equal(b, data(7, 5)) {
			res.LaterRead = true
		}
		if err := fs.Close(); err != nil {
			res.CloseErr = err.Error()
		}
		return res
	}
	check := func(x *sched.Exec) (string, string) {
		if len(x.Panics) > 0 {
			first := strings.SplitN(x.Panics[0], "\n", 2)[0]
			cls := first
			if i := strings.Index(first, "): "); i >= 0 {
				cls = first[i+3:]
			}
			return "panic:" + cls, x.Panics[0]
		}
		res, _ := x.Result.(*result)
		if x.Deadlock {
			where := "writer"
			for _, b := range x.Blocked {
				if strings.Contains(b, "(main)") {
					where = "later-write-or-join"
				}
			}
			af := "no-fault"
			if res != nil && res.AnyFault {
				af = "after-fault"
			}
			return "deadlock:" + where + ":" + af, strings.Join(x.Blocked, "; ")
		}
		if x.Horizon || res == nil {
			return "", ""
		}
		for i, p := range res.Puts {
			for _, rd := range p.Readable {
				if p.Err == "" && !rd {
					return "success-but-not-readable", fmt.Sprintf("writer %d returned nil but the object does not read back (%+v)", i, res)
				}
			}
			if p.OwnFault && p.Err == "" {
				return "own-syscall-fault-but-success:" + strings.Join(p.Faults, ","), fmt.Sprintf("writer %d had %v fail but returned nil", i, p.Faults)
			}
			if !res.AnyFault && p.Err != "" {
				return "error-without-any-fault", fmt.Sprintf("writer %d: %s", i, p.Err)
			}
		}
		if res.Later != "" || !res.LaterRead {
			return "later-unaffected-write-fails", fmt.Sprintf("later Put: %q readable=%v", res.Later, res.LaterRead)
		}
		return "", ""
	}
	outcome := func(x *sched.Exec) string {
		res, _ := x.Result.(*result)
		if res == nil {
			return "aborted"
		}
		var o []string
		for _, p := range res.Puts {
			switch {
			case p.Err == "":
				o = append(o, "ok")
			case p.OwnFault:
				o = append(o, "err(own fault)")
			default:
				o = append(o, "err(shared)")
			}
		}
		sort.Strings(o)
		return strings.Join(o, ",") + fmt.Sprintf(" timerFault=%v", res.TimerFault)
	}
	return sched.Scenario{Name: c.name, Opt: sched.Options{PreemptBound: pre, FaultBound: flt, MaxSteps: 4000}, Body: body, Check: check, Outcome: outcome}
}

func main() {
	r := ev.Start("C13", ev.ModelChecking)
	pre, flt := 1, 1
	one := func(i int) write { return write{[]int{i}} }
	cfgs := []cfg{
		{"single small put, timer sync", []int{8}, []write{one(0)}, 3, 4096, 64},
		{"2 puts, count limit crossed by 2nd", []int{8, 9}, []write{one(0), one(1)}, 2, 4096, 64},
		{"2 puts, size limit crossed by 2nd", []int{30, 31}, []write{one(0), one(1)}, 3, 100, 64},
		{"2 puts, size limit crossed by 1st", []int{60, 10}, []write{one(0), one(1)}, 3, 90, 64},
		{"small put + big single-file put", []int{8, 100}, []write{one(0), one(1)}, 3, 4096, 64},
		{"PutBatch(2) + put", []int{8, 9, 10}, []write{{[]int{0, 1}}, one(2)}, 3, 4096, 64},
		{"3 puts, count limit 3", []int{8, 9, 10}, []write{one(0), one(1), one(2)}, 3, 4096, 64},
	}
	var scs []sched.Scenario
	for i, c := range cfgs {
		if i == len(cfgs)-1 {
			// the 3-writer scenario is the expensive one: quick explores its two axes separately
			c1, c2 := c, c
			c1.name += " [schedules only]"
			c2.name += " [faults only]"
			scs = append(scs, scenario(c1, 1, 0), scenario(c2, 0, 1))
			continue
		}
		scs = append(scs, scenario(c, pre, flt))
	}
	if r.Thorough() {
		// deeper bounds after the quick ones (the budget is shared per scenario, leftovers roll on)
		pre, flt = 2, 2
		for _, c := range cfgs {
			c.name += " [deep]"
			scs = append(scs, scenario(c, pre, flt))
		}
	}
	r.Rule(fmt.Sprintf("every schedule with <=%d preemptions x every set of <=%d injected syscall failures (Open/Writev/Write/Linkat/Fdatasync=ENOSPC, Close=EIO, at every call occurrence) of %d closed scenarios on the real linux writer; non-trivial = distinct (scenario, per-writer outcome vector, timer fault) classes", pre, flt, len(cfgs)))
	r.Assume("atomics are not scheduling points", "1-3 concurrent writers with limits shrunk so that count/size limits are crossed (the quantifier's 300 writers are not reachable by exhaustive interleaving exploration)",
		"timers may fire at any scheduling point after arming")
	sched.Main(r, scs, 0)
}
