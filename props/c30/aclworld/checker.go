package aclworld

import (
	"context"
	"errors"
	"fmt"
	"os"
	"path/filepath"
	"time"

	"github.com/nspcc-dev/bbolt"
	"github.com/nspcc-dev/neofs-node/pkg/local_object_storage/blobstor/fstree"
	"github.com/nspcc-dev/neofs-node/pkg/local_object_storage/engine"
	meta "github.com/nspcc-dev/neofs-node/pkg/local_object_storage/metabase"
	"github.com/nspcc-dev/neofs-node/pkg/local_object_storage/shard"
	aclchk "github.com/nspcc-dev/neofs-node/pkg/services/object/acl"
	cid "github.com/nspcc-dev/neofs-sdk-go/container/id"
	"github.com/nspcc-dev/neofs-sdk-go/eacl"
	"github.com/nspcc-dev/neofs-sdk-go/object"
	oid "github.com/nspcc-dev/neofs-sdk-go/object/id"
	"go.uber.org/zap"
)

type epochState uint64

func (e epochState) CurrentEpoch() uint64 { return uint64(e) }

// EACLSourceFunc adapts a function to containercore.EACLSource.
type EACLSourceFunc func(cid.ID) (eacl.Table, error)

func (f EACLSourceFunc) GetEACL(c cid.ID) (eacl.Table, error) { return f(c) }

// HeaderSourceFunc adapts a function to the eACL header source (first-object lookups of split PUTs).
type HeaderSourceFunc func(context.Context, oid.Address) (*object.Object, error)

func (f HeaderSourceFunc) Head(ctx context.Context, a oid.Address) (*object.Object, error) {
	return f(ctx, a)
}

// LocalEngine is a real one-shard storage engine (FSTree + metabase on /dev/shm) holding the given objects: the
// "local object storage" the ACL checker reads object headers from.
type LocalEngine struct {
	Eng *engine.StorageEngine
	dir string
}

func NewLocalEngine(epoch uint64, objs ...*object.Object) (*LocalEngine, error) {
	dir, err := os.MkdirTemp("/dev/shm", "verif-c28-")
	if err != nil {
		return nil, err
	}
	e := engine.New(engine.WithLogger(zap.NewNop()))
	_, err = e.AddShard(
		shard.WithLogger(zap.NewNop()),
		shard.WithBlobstor(fstree.New(
			fstree.WithPath(filepath.Join(dir, "fstree")),
			fstree.WithDepth(1),
			fstree.WithNoSync(true),
			fstree.WithLogger(zap.NewNop()),
		)),
		shard.WithMetaBaseOptions(
			meta.WithPath(filepath.Join(dir, "meta")),
			meta.WithPermissions(0o700),
			meta.WithEpochState(epochState(epoch)),
			meta.WithMaxBatchSize(1),
			meta.WithBoltDBOptions(&bbolt.Options{NoSync: true, NoGrowSync: true, NoFreelistSync: true}),
			meta.WithLogger(zap.NewNop()),
		),
		shard.WithGCRemoverSleepInterval(24*time.Hour),
	)
	if err == nil {
		err = e.Init()
	}
	if err != nil {
		os.RemoveAll(dir)
		return nil, fmt.Errorf("engine: %w", err)
	}
	le := &LocalEngine{Eng: e, dir: dir}
	for _, o := range objs {
		if err := e.Put(context.Background(), o, nil); err != nil {
			le.Close()
			return nil, fmt.Errorf("seed object: %w", err)
		}
	}
	return le, nil
}

func (l *LocalEngine) Close() {
	_ = l.Eng.Close()
	_ = os.RemoveAll(l.dir)
}

// NewChecker builds the real ACL checker.
func NewChecker(eng *engine.StorageEngine, src EACLSourceFunc) *aclchk.Checker {
	return aclchk.NewChecker(new(aclchk.CheckerPrm).
		SetEACLSource(src).
		SetValidator(eacl.NewValidator()).
		SetLocalStorage(eng).
		SetHeaderSource(HeaderSourceFunc(func(context.Context, oid.Address) (*object.Object, error) {
			return nil, errors.New("verif: no remote header source")
		})))
}
