// Package aclworld: the real acl/v2.Service wired to recording fakes through its exported interfaces
// (svcworld of DESIGN.md §3, ACL part). A World is immutable after New, so checks can share it across workers.
package aclworld

import (
	"errors"
	"time"

	"github.com/nspcc-dev/neo-go/pkg/util"
	isessions "github.com/nspcc-dev/neofs-node/internal/sessions"
	aclsvc "github.com/nspcc-dev/neofs-node/pkg/services/object/acl/v2"
	"github.com/nspcc-dev/neofs-node/verif/props/c33/vkit"
	apistatus "github.com/nspcc-dev/neofs-sdk-go/client/status"
	"github.com/nspcc-dev/neofs-sdk-go/container"
	cid "github.com/nspcc-dev/neofs-sdk-go/container/id"
	"github.com/nspcc-dev/neofs-sdk-go/netmap"
)

// Config describes the environment of the service.
type Config struct {
	Epoch          uint64
	Now            time.Time
	Containers     map[cid.ID]container.Container
	InnerRing      [][]byte            // public keys (compressed)
	ContainerNodes map[cid.ID][][]byte // keys of nodes of the container in the last two epochs
	NNS            map[string][]util.Uint160
	InContainer    bool // whether the local node is in the requested containers
}

type World struct {
	vkit.Chain
	cfg   Config
	Cache *isessions.ObjectSessionsCache
	Svc   aclsvc.Service
}

func New(cfg Config) *World {
	w := &World{cfg: cfg, Cache: isessions.NewObjectSessionsCache(1024)}
	w.Svc = aclsvc.New(w, w.Cache,
		aclsvc.WithNetmapper(w), aclsvc.WithIRFetcher(w), aclsvc.WithContainerSource(w), aclsvc.WithTimeProvider(w))
	return w
}

// ---- aclsvc.FSChain (InvokeContainedScript comes from vkit.Chain) ----

func (w *World) InContainerInLastTwoEpochs(id cid.ID, pub []byte) (bool, error) {
	for _, k := range w.cfg.ContainerNodes[id] {
		if string(k) == string(pub) {
			return true, nil
		}
	}
	return false, nil
}

func (w *World) HasUserInNNS(name string, addr util.Uint160) (bool, error) {
	for _, a := range w.cfg.NNS[name] {
		if a == addr {
			return true, nil
		}
	}
	return false, nil
}

// ---- aclsvc.Netmapper ----

func (w *World) GetNetMapByEpoch(uint64) (*netmap.NetMap, error) {
	return nil, errors.New("not used by the ACL service")
}
func (w *World) NetMap() (*netmap.NetMap, error) {
	return nil, errors.New("not used by the ACL service")
}
func (w *World) Epoch() (uint64, error)                 { return w.cfg.Epoch, nil }
func (w *World) ServerInContainer(cid.ID) (bool, error) { return w.cfg.InContainer, nil }

// GetEpochBlock / GetEpochBlockByTime come from vkit.Chain.

// ---- others ----

func (w *World) InnerRingKeys() [][]byte { return w.cfg.InnerRing }

func (w *World) Get(id cid.ID) (container.Container, error) {
	c, ok := w.cfg.Containers[id]
	if !ok {
		return container.Container{}, apistatus.ErrContainerNotFound
	}
	return c, nil
}

func (w *World) Now() time.Time { return w.cfg.Now }

// SetContainer replaces a container of a world that is owned by a single worker (not safe for shared worlds).
func (w *World) SetContainer(id cid.ID, c container.Container) { w.cfg.Containers[id] = c }

// SetEpoch / SetNow move the clock of a world owned by a single worker (sequences of presentations).
func (w *World) SetEpoch(e uint64)  { w.cfg.Epoch = e }
func (w *World) SetNow(t time.Time) { w.cfg.Now = t }

// NewEpochHooks does what cmd/neofs-node registers for every new-epoch notification:
// sessionsCache.ResetCache() and aclSvc.ResetTokenCheckCache().
func (w *World) NewEpochHooks() {
	w.Cache.ResetCache()
	w.Svc.ResetTokenCheckCache()
}

// SetInContainer tells whether the local node belongs to the requested containers (single-worker worlds only).
func (w *World) SetInContainer(v bool) { w.cfg.InContainer = v }
