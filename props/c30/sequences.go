// Part F of C30: two presentations of the SAME byte-identical token to ONE service instance (shared token check
// caches, no restart). No verdict that depends on time, epoch or the request may survive from the first presentation:
// each presentation is judged independently by the same reference predicates as parts A, C and E.
//
//	F-time     v2 token x (time1, time2) over {nbf-1, nbf, inside, exp, exp+1}^2 (chain time moves inside one epoch: the node
//	           purges nothing), and the same with a new epoch in between (purge hooks run)
//	F-epoch    v1 session and bearer token x (epoch1, epoch2) over the same grid; the epoch changes, so the node's new-epoch
//	           handlers purge the caches (cmd/neofs-node: sessionsCache.ResetCache + aclSvc.ResetTokenCheckCache) - judged;
//	           the variant WITHOUT the purge is outside the wiring contract for e1 != e2 (counted, not judged) and judged
//	           for e1 == e2
//	F-request  token x (request1, request2) over requests differing in verb / container / object / sender, both orders
package main

import (
	"context"
	"fmt"
	"time"

	"github.com/nspcc-dev/neofs-node/pkg/services/object/common"
	"github.com/nspcc-dev/neofs-node/verif/lib/enumx"
	"github.com/nspcc-dev/neofs-node/verif/props/c30/aclworld"
	"github.com/nspcc-dev/neofs-node/verif/props/c33/vkit"
	cid "github.com/nspcc-dev/neofs-sdk-go/container/id"
	oid "github.com/nspcc-dev/neofs-sdk-go/object/id"
	"github.com/nspcc-dev/neofs-sdk-go/session"
	sessionv2 "github.com/nspcc-dev/neofs-sdk-go/session/v2"
)

type seqReq struct {
	Verb   int32  `json:"verb,omitempty"`
	Cnr    string `json:"cnr"`
	Obj    string `json:"obj,omitempty"`
	Sender string `json:"sender,omitempty"`
}

type seqCase struct {
	Kind   string    `json:"kind"`   // v1 | v2 | bearer
	Scheme int32     `json:"scheme"` // signature scheme of the token
	Clock  [2]int    `json:"clock"`  // offset of epoch (v1, bearer) or seconds (v2) from the token's nbf, per presentation
	Purge  bool      `json:"purge"`  // the new-epoch purge hooks run between the presentations
	Reqs   [2]seqReq `json:"reqs"`
}

// token lifetime of the sequence parts: nbf = iat = base-2, exp = base+2 (epochs or seconds)
var seqLife = [3]int{-2, -2, 2}

func seqClockGrid() []int { return []int{-3, -2, 0, 2, 3} } // nbf-1, nbf, inside, exp, exp+1 (relative to base)

func objByName(n string) oid.ID {
	return map[string]oid.ID{"o1": o1, "o2": o2, "o3": o3, "": {}, "-": {}}[n]
}

// present runs one presentation; returns whether the token was honoured.
func (x *runner) seqPresent(s seqCase, i int, w *aclworld.World, run func() error) (bool, any) {
	if s.Kind == "v2" {
		w.SetNow(time.Unix(int64(baseUnix+s.Clock[i]), 0))
	} else {
		w.SetEpoch(uint64(curEpoch + s.Clock[i]))
	}
	err, pan := guard(run)
	return err == nil, pan
}

func (x *runner) sequence(s seqCase) {
	w := newWorld(0) // one fresh service instance per sequence, shared by both presentations
	var specOK [2]bool
	var why [2]string
	var run [2]func() error
	for i := 0; i < 2; i++ {
		rq := s.Reqs[i]
		shift := [3]int{seqLife[0] - s.Clock[i], seqLife[1] - s.Clock[i], seqLife[2] - s.Clock[i]} // lifetime relative to "now"
		switch s.Kind {
		case "v1":
			p := v1Params{Scheme: s.Scheme, Life: seqLife, Verb: 2, Objs: []string{"o1"}}
			tok := buildV1(p, "alice", "alice")
			lifeOK, lw := specEpochLifetime(shift)
			specOK[i] = lifeOK && cnrByName(rq.Cnr) == cA && specV1Verb(p.Verb, rq.Verb) && specV1Object(objsByName(p.Objs), objByName(rq.Obj))
			why[i] = lw
			run[i] = func() error {
				_, err := w.Svc.VerifySessionV1TokenMessage(tok, session.ObjectVerb(rq.Verb), cnrByName(rq.Cnr), objByName(rq.Obj))
				return err
			}
		case "v2":
			p := v2Params{Scheme: s.Scheme, Life: seqLife, Ctxs: []v2Ctx{{"cA", []int32{2}}}, Issuer: "alice", Subjects: []string{"bob"}}
			tok := buildV2(p, "alice", nil)
			n := s.Clock[i]
			lifeOK := seqLife[0] <= n && seqLife[1] <= n && n <= seqLife[2]
			specOK[i] = lifeOK && specV2Applies(p.Ctxs, rq.Verb, cnrByName(rq.Cnr))
			run[i] = func() error {
				_, err := w.Svc.VerifySessionTokenMessage(tok, sessionv2.Verb(rq.Verb), cnrByName(rq.Cnr))
				return err
			}
		case "bearer":
			p := bearerParams{Scheme: s.Scheme, Life: seqLife, TableCnr: "cA", Target: "carol", Issuer: "alice"}
			tok := buildBearer(p, "alice")
			lifeOK, lw := specEpochLifetime(shift)
			why[i] = lw
			cnrOwner := map[cid.ID]string{cA: "alice", cB: "bob"}[cnrByName(rq.Cnr)]
			specOK[i] = lifeOK && p.Issuer == cnrOwner && cnrByName(p.TableCnr) == cnrByName(rq.Cnr) && rq.Sender == p.Target
			req := senderRequest(rq.Sender)
			run[i] = func() error {
				bt, err := w.Svc.VerifyBearerTokenMessage(tok)
				if err != nil {
					return err
				}
				_, err = w.Svc.GetRequestToInfo(context.Background(), req, cnrByName(rq.Cnr), common.RequestTokens{Bearer: &bt})
				return err
			}
		}
	}
	tc := tcase{Part: "F", Seq: &s}
	clockChanged := s.Clock[0] != s.Clock[1]
	reqChanged := s.Reqs[0] != s.Reqs[1]
	// wiring contract: an epoch change is always followed by the purge; chain time moves without any purge
	epochBased := s.Kind != "v2"
	judged := !(epochBased && clockChanged && !s.Purge)
	var got [2]bool
	for i := 0; i < 2; i++ {
		x.r.Eval(1)
		if i == 1 && s.Purge {
			w.NewEpochHooks()
		}
		h, pan := x.seqPresent(s, i, w, run[i])
		if pan != nil {
			x.viol("panic:sequence:"+s.Kind, fmt.Sprintf("%+v: %v", s, pan), tc)
			return
		}
		got[i] = h
		if !judged && i == 1 {
			x.class(fmt.Sprintf("F %s second presentation after an epoch change WITHOUT the purge (outside the wiring contract, not judged): spec-valid=%v honoured=%v", s.Kind, specOK[i], h))
			continue
		}
		x.class(fmt.Sprintf("F %s presentation#%d spec-valid=%v honoured=%v", s.Kind, i+1, specOK[i], h))
		if h == specOK[i] {
			continue
		}
		dim := "same-conditions"
		switch {
		case i == 1 && clockChanged && reqChanged:
			dim = "clock-and-request-changed"
		case i == 1 && clockChanged:
			dim = "clock-changed"
		case i == 1 && reqChanged:
			dim = "request-changed"
		}
		stale := ""
		if i == 1 && got[0] == h && specOK[0] != specOK[1] {
			stale = ":verdict-of-first-presentation-kept"
		}
		dir := "honoured-though-not-valid"
		if !h {
			dir = "rejected-though-valid"
		}
		purge := "no-purge"
		if s.Purge {
			purge = "after-new-epoch-purge"
		}
		x.viol(fmt.Sprintf("%s-presentation#%d:%s:%s:%s%s", s.Kind, i+1, dir, dim, purge, stale),
			fmt.Sprintf("%s token (scheme %s, nbf=iat=base-2, exp=base+2) presented twice to one service instance: clock base%+d then base%+d, requests %+v then %+v, purge between=%v; presentation #%d: honoured=%v, spec valid=%v %s",
				s.Kind, vkit.SchemeNames[s.Scheme], s.Clock[0], s.Clock[1], s.Reqs[0], s.Reqs[1], s.Purge, i+1, h, specOK[i], why[i]), tc)
	}
	if specOK[0] != specOK[1] {
		x.r.Nontrivial(fmt.Sprintf("F|%s|%v|%v|%+v|%+v", s.Kind, s.Clock, s.Purge, s.Reqs[0], s.Reqs[1]))
	}
}

func (x *runner) partF(schemes []int32) {
	var cases []seqCase
	okReq := map[string]seqReq{"v1": {Verb: 2, Cnr: "cA", Obj: "o1"}, "v2": {Verb: 2, Cnr: "cA"}, "bearer": {Cnr: "cA", Sender: "carol"}}
	reqs := map[string][]seqReq{
		"v1":     {{2, "cA", "o1", ""}, {3, "cA", "o1", ""}, {1, "cA", "o1", ""}, {2, "cB", "o1", ""}, {2, "cA", "o3", ""}, {2, "cA", "", ""}},
		"v2":     {{2, "cA", "", ""}, {1, "cA", "", ""}, {2, "cB", "", ""}},
		"bearer": {{0, "cA", "", "carol"}, {0, "cB", "", "carol"}, {0, "cA", "", "dave"}},
	}
	for _, sc := range schemes {
		for _, kind := range []string{"v1", "v2", "bearer"} {
			for _, c1 := range seqClockGrid() {
				for _, c2 := range seqClockGrid() {
					for _, purge := range []bool{false, true} {
						cases = append(cases, seqCase{Kind: kind, Scheme: sc, Clock: [2]int{c1, c2}, Purge: purge, Reqs: [2]seqReq{okReq[kind], okReq[kind]}})
					}
				}
			}
			for _, r1 := range reqs[kind] {
				for _, r2 := range reqs[kind] {
					cases = append(cases, seqCase{Kind: kind, Scheme: sc, Reqs: [2]seqReq{r1, r2}})
					// and with the clock moving from inside the lifetime to after it
					cases = append(cases, seqCase{Kind: kind, Scheme: sc, Clock: [2]int{0, 3}, Purge: kind != "v2", Reqs: [2]seqReq{r1, r2}})
				}
			}
		}
	}
	// sequences are independent (own service instance each)
	enumx.Parallel(len(cases), func(i int) { x.sequence(cases[i]) })
}
