// C30: session (v1, v2) and bearer tokens are honoured only when valid for the request.
//
// Engine enumx over the real acl/v2.Service (VerifySessionV1TokenMessage, VerifySessionTokenMessage,
// VerifyBearerTokenMessage, *RequestToInfo -> verifyBearerTokenAgainstRequest), internal/crypto token
// authentication and the sessions cache, wired to fakes (package aclworld). Tokens are built and signed by the
// harness at protobuf level (all four signature schemes, deterministic keys).
//
//	A  v1 session applicability product: scheme x (nbf,iat,exp) in {e-1,e,e+1}^3 x token verb x token objects
//	   {unbound,{o1},{o1,o2}} x request verb x request container {match,mismatch} x request object {none,match,mismatch}
//	B  v1 mutation: every single bit of every leaf of a valid token flipped, every unset field set, every
//	   populated field/message cleared, every bit of the wire form, substitution menu (attacker re-signing, foreign
//	   signature, scheme change, N3 forgeries)
//	C  v2 session product: scheme x lifetime^3 (seconds around now) x now (whole second and +-0.4/0.6 s) x context
//	   shapes x request verb 0..13 x request container
//	D  v2 delegation product (issuer in origin subjects / verbs narrowed / lifetime within / origin final / origin
//	   signature) and mutation of a delegated token (all leaves of both links)
//	F  two presentations of one byte-identical token to ONE service instance (shared caches): clock pairs over the
//	   lifetime grid (chain time for v2 without purge; epochs for v1/bearer with the node's new-epoch purge) and ordered
//	   request pairs differing in verb/container/object/sender - see sequences.go
//	E  bearer product: scheme x lifetime^3 x table container {unset,match,mismatch} x request container x target user
//	   {unset,sender,other} x issuer {container owner,other}; and mutation of a valid bearer token
//
// Oracle: reference predicates written from the property text and the API documentation of the token fields
// (see spec* functions); mutated tokens must be rejected unless every (body,signature) link is exactly one the
// harness signed AND the signer is the stated issuer.
package main

import (
	"context"
	"crypto/sha256"
	"fmt"
	"sort"
	"strings"
	"sync"
	"sync/atomic"
	"time"

	"github.com/nspcc-dev/neo-go/pkg/crypto/hash"
	"github.com/nspcc-dev/neo-go/pkg/util"
	"github.com/nspcc-dev/neofs-node/pkg/services/object/common"
	"github.com/nspcc-dev/neofs-node/verif/lib/enumx"
	"github.com/nspcc-dev/neofs-node/verif/lib/ev"
	"github.com/nspcc-dev/neofs-node/verif/props/c30/aclworld"
	"github.com/nspcc-dev/neofs-node/verif/props/c33/vkit"
	"github.com/nspcc-dev/neofs-sdk-go/container"
	cid "github.com/nspcc-dev/neofs-sdk-go/container/id"
	oid "github.com/nspcc-dev/neofs-sdk-go/object/id"
	protoacl "github.com/nspcc-dev/neofs-sdk-go/proto/acl"
	protoobject "github.com/nspcc-dev/neofs-sdk-go/proto/object"
	"github.com/nspcc-dev/neofs-sdk-go/proto/refs"
	protosession "github.com/nspcc-dev/neofs-sdk-go/proto/session"
	"github.com/nspcc-dev/neofs-sdk-go/session"
	sessionv2 "github.com/nspcc-dev/neofs-sdk-go/session/v2"
	"github.com/nspcc-dev/neofs-sdk-go/user"
	"google.golang.org/protobuf/proto"
	"google.golang.org/protobuf/reflect/protoreflect"
)

const (
	curEpoch = 10
	baseUnix = 1_800_000_000 // "now" of the v2 parts, seconds
)

func hashID(label string) (r [32]byte) { return sha256.Sum256([]byte(label)) }

var (
	cA, cB, cC = cid.ID(hashID("c30-cA")), cid.ID(hashID("c30-cB")), cid.ID(hashID("c30-cC"))
	o1, o2, o3 = oid.ID(hashID("c30-o1")), oid.ID(hashID("c30-o2")), oid.ID(hashID("c30-o3"))
)

func cnrName(c cid.ID) string {
	switch c {
	case cA:
		return "cA"
	case cB:
		return "cB"
	case cC:
		return "cC"
	case cid.ID{}:
		return "-"
	}
	return "c?"
}

func objName(o oid.ID) string {
	switch o {
	case o1:
		return "o1"
	case o2:
		return "o2"
	case o3:
		return "o3"
	case oid.ID{}:
		return "-"
	}
	return "o?"
}

func signer(who string, scheme int32) vkit.Signer { return vkit.NewSigner("c30-"+who, scheme) }
func uid(who string) user.ID                      { return signer(who, vkit.RFC6979).UserID() }
func owner(id user.ID) *refs.OwnerID              { return &refs.OwnerID{Value: id[:]} }
func pcid(c cid.ID) *refs.ContainerID             { return &refs.ContainerID{Value: c[:]} }
func poid(o oid.ID) *refs.ObjectID                { return &refs.ObjectID{Value: o[:]} }

// provenance: which harness signer produced a (scheme,key,sign) triple and over which bytes.
type provRec struct {
	msg  string
	user user.ID
}
type provKey struct {
	scheme         int32
	key, signature string
}
type provenance struct {
	mu sync.RWMutex
	m  map[provKey]provRec
}

func (p *provenance) sign(s vkit.Signer, msg []byte) *refs.Signature {
	sg := &refs.Signature{Key: s.KeyBytes(), Sign: s.Sign(msg), Scheme: refs.SignatureScheme(s.Scheme)}
	p.mu.Lock()
	p.m[provKey{s.Scheme, string(sg.Key), string(sg.Sign)}] = provRec{string(msg), s.UserID()}
	p.mu.Unlock()
	return sg
}

// authentic: the signature triple was produced by a harness signer over exactly body, and that signer is issuer.
func (p *provenance) authentic(body proto.Message, sg *refs.Signature, issuer *refs.OwnerID) bool {
	if sg == nil || issuer == nil {
		return false
	}
	p.mu.RLock()
	rec, ok := p.m[provKey{int32(sg.Scheme), string(sg.Key), string(sg.Sign)}]
	p.mu.RUnlock()
	return ok && rec.msg == string(vkit.Enc(body)) && string(rec.user[:]) == string(issuer.Value)
}

var prov = &provenance{m: map[provKey]provRec{}}

// ---------------------------------------------------------------- token builders

func uuid4(label string) []byte {
	h := sha256.Sum256([]byte(label))
	b := h[:16]
	b[6] = b[6]&0x0f | 0x40
	b[8] = b[8]&0x3f | 0x80
	return b
}

type v1Params struct {
	Scheme        int32    `json:"scheme"`
	Nbf, Iat, Exp uint64   `json:"-"`
	Life          [3]int   `json:"life"` // offsets of nbf,iat,exp from the current epoch
	Verb          int32    `json:"verb"`
	Objs          []string `json:"objs"` // names
}

func objsByName(n []string) []oid.ID {
	var r []oid.ID
	for _, x := range n {
		r = append(r, map[string]oid.ID{"o1": o1, "o2": o2, "o3": o3}[x])
	}
	return r
}

func buildV1(p v1Params, issuerWho, signerWho string) *protosession.SessionToken {
	tgt := &protosession.ObjectSessionContext_Target{Container: pcid(cA)}
	for _, o := range objsByName(p.Objs) {
		tgt.Objects = append(tgt.Objects, poid(o))
	}
	body := &protosession.SessionToken_Body{
		Id:      uuid4("c30-session"),
		OwnerId: owner(uid(issuerWho)),
		Lifetime: &protosession.SessionToken_Body_TokenLifetime{
			Nbf: uint64(curEpoch + p.Life[0]), Iat: uint64(curEpoch + p.Life[1]), Exp: uint64(curEpoch + p.Life[2])},
		SessionKey: signer("bob", vkit.RFC6979).Priv.PublicKey().Bytes(),
		Context: &protosession.SessionToken_Body_Object{Object: &protosession.ObjectSessionContext{
			Verb: protosession.ObjectSessionContext_Verb(p.Verb), Target: tgt}},
	}
	return &protosession.SessionToken{Body: body, Signature: prov.sign(signer(signerWho, p.Scheme), vkit.Enc(body))}
}

type v2Ctx struct {
	Cnr   string  `json:"cnr"` // "-" wildcard
	Verbs []int32 `json:"verbs"`
}

type v2Params struct {
	Scheme   int32    `json:"scheme"`
	Life     [3]int   `json:"life"` // offsets (seconds) of nbf,iat,exp from baseUnix
	Ctxs     []v2Ctx  `json:"ctxs"`
	Issuer   string   `json:"issuer"`
	Subjects []string `json:"subjects"` // user names, or "nns:<name>"
	Final    bool     `json:"final"`
}

func cnrByName(n string) cid.ID {
	return map[string]cid.ID{"cA": cA, "cB": cB, "cC": cC, "-": {}}[n]
}

func buildV2Body(p v2Params) *protosession.SessionTokenV2_Body {
	body := &protosession.SessionTokenV2_Body{
		Issuer: owner(uid(p.Issuer)),
		Lifetime: &protosession.TokenLifetime{
			Nbf: uint64(baseUnix + p.Life[0]), Iat: uint64(baseUnix + p.Life[1]), Exp: uint64(baseUnix + p.Life[2])},
		Final: p.Final,
	}
	for _, s := range p.Subjects {
		if n, ok := strings.CutPrefix(s, "nns:"); ok {
			body.Subjects = append(body.Subjects, &protosession.Target{Identifier: &protosession.Target_NnsName{NnsName: n}})
		} else {
			body.Subjects = append(body.Subjects, &protosession.Target{Identifier: &protosession.Target_OwnerId{OwnerId: owner(uid(s))}})
		}
	}
	for _, c := range p.Ctxs {
		pc := &protosession.SessionContextV2{}
		if c.Cnr != "-" {
			pc.Container = pcid(cnrByName(c.Cnr))
		}
		for _, v := range c.Verbs {
			pc.Verbs = append(pc.Verbs, protosession.Verb(v))
		}
		body.Contexts = append(body.Contexts, pc)
	}
	return body
}

func buildV2(p v2Params, signerWho string, origin *protosession.SessionTokenV2) *protosession.SessionTokenV2 {
	body := buildV2Body(p)
	return &protosession.SessionTokenV2{Body: body, Signature: prov.sign(signer(signerWho, p.Scheme), vkit.Enc(body)), Origin: origin}
}

type bearerParams struct {
	Scheme   int32  `json:"scheme"`
	Life     [3]int `json:"life"`
	TableCnr string `json:"table_cnr"` // "-" unset
	Target   string `json:"target"`    // "-" unset, else user name
	Issuer   string `json:"issuer"`
}

func buildBearer(p bearerParams, signerWho string) *protoacl.BearerToken {
	tbl := &protoacl.EACLTable{Version: &refs.Version{Major: 2, Minor: 16}, Records: []*protoacl.EACLRecord{{
		Operation: protoacl.Operation_GET, Action: protoacl.Action_ALLOW,
		Filters: []*protoacl.EACLRecord_Filter{{HeaderType: protoacl.HeaderType_OBJECT, MatchType: protoacl.MatchType_STRING_EQUAL, Key: "k", Value: "v"}},
		Targets: []*protoacl.EACLRecord_Target{{Role: protoacl.Role_OTHERS}},
	}}}
	if p.TableCnr != "-" {
		tbl.ContainerId = pcid(cnrByName(p.TableCnr))
	}
	body := &protoacl.BearerToken_Body{
		EaclTable: tbl,
		Issuer:    owner(uid(p.Issuer)),
		Lifetime: &protoacl.BearerToken_Body_TokenLifetime{
			Nbf: uint64(curEpoch + p.Life[0]), Iat: uint64(curEpoch + p.Life[1]), Exp: uint64(curEpoch + p.Life[2])},
	}
	if p.Target != "-" {
		body.OwnerId = owner(uid(p.Target))
	}
	return &protoacl.BearerToken{Body: body, Signature: prov.sign(signer(signerWho, p.Scheme), vkit.Enc(body))}
}

// ---------------------------------------------------------------- specification (reference predicates)

// v1 verbs of the API: 1 PUT 2 GET 3 HEAD 4 SEARCH 5 DELETE 6 RANGE 7 RANGEHASH.
// Spec of operation applicability (the node's documented relaxations, DESIGN §4 C30): a token is issued for one
// verb; HEAD requests are additionally served under GET, DELETE and RANGE sessions and SEARCH requests under DELETE
// sessions (the node has to head/search on behalf of the session to assemble or remove split objects).
func specV1Verb(tok, req int32) bool {
	if tok == req {
		return true
	}
	switch req {
	case 3:
		return tok == 2 || tok == 5 || tok == 6
	case 4:
		return tok == 5
	}
	return false
}

// API: nbf "the first epoch when token is valid", exp "the last epoch when token is valid", iat "issued at epoch".
func specEpochLifetime(life [3]int) (bool, string) {
	var bad []string
	if life[0] > 0 {
		bad = append(bad, "nbf>cur")
	}
	if life[1] > 0 {
		bad = append(bad, "iat>cur")
	}
	if life[2] < 0 {
		bad = append(bad, "exp<cur")
	}
	return len(bad) == 0, strings.Join(bad, ",")
}

// API (ObjectSessionContext.Target): "If objects field is not empty, then the session applies only to these elements,
// otherwise, to all objects from the specified container"; the container MUST match. A request without object (PUT,
// SEARCH) has nothing to match.
func specV1Object(tokObjs []oid.ID, req oid.ID) bool {
	if req == (oid.ID{}) || len(tokObjs) == 0 {
		return true
	}
	for _, o := range tokObjs {
		if o == req {
			return true
		}
	}
	return false
}

// v2 API (TokenLifetime): nbf "the first valid Unix timestamp", exp "the last valid Unix timestamp"; a Unix
// timestamp is a whole number of seconds, so the instant `now` is inside the period iff nbf <= floor(now) <= exp
// (and the token is not used before it was issued).
func specV2Lifetime(life [3]int, nowMs int64) (bool, string) {
	n := baseUnix + floorDiv(nowMs, 1000)
	var bad []string
	if int64(baseUnix+life[0]) > n {
		bad = append(bad, "nbf>now")
	}
	if int64(baseUnix+life[1]) > n {
		bad = append(bad, "iat>now")
	}
	if int64(baseUnix+life[2]) < n {
		bad = append(bad, "exp<now")
	}
	return len(bad) == 0, strings.Join(bad, ",")
}

func floorDiv(a, b int64) int64 {
	q := a / b
	if a%b != 0 && (a < 0) != (b < 0) {
		q--
	}
	return q
}

// v2 API (SessionContextV2): a context authorises its verbs in its container; empty container = all containers.
func specV2Applies(ctxs []v2Ctx, verb int32, cnr cid.ID) bool {
	for _, c := range ctxs {
		if c.Cnr != "-" && cnrByName(c.Cnr) != cnr {
			continue
		}
		for _, v := range c.Verbs {
			if v == verb {
				return true
			}
		}
	}
	return false
}

// ---------------------------------------------------------------- worlds

type worlds struct {
	epoch *aclworld.World           // current epoch = curEpoch, time = baseUnix
	byNow map[int64]*aclworld.World // v2 parts: offset of now in ms from baseUnix
}

func containers() map[cid.ID]container.Container {
	mk := func(o user.ID) container.Container {
		var c container.Container
		c.SetOwner(o)
		return c
	}
	return map[cid.ID]container.Container{cA: mk(uid("alice")), cB: mk(uid("bob")), cC: mk(uid("alice"))}
}

func newWorld(nowMs int64) *aclworld.World {
	return aclworld.New(aclworld.Config{
		Epoch:      curEpoch,
		Now:        time.Unix(baseUnix, 0).Add(time.Duration(nowMs) * time.Millisecond),
		Containers: containers(),
		NNS:        map[string][]util.Uint160{"team.ok": {uid("bob").ScriptHash()}},
	})
}

var nowOffsets = []int64{0, 400, 600, -400, -600}

// ---------------------------------------------------------------- run context

type runner struct {
	r       *ev.Run
	w       worlds
	mu      sync.Mutex
	classes map[string]int64
	viols   map[string]int64
}

func (x *runner) class(k string) {
	x.mu.Lock()
	x.classes[k]++
	x.mu.Unlock()
}

func (x *runner) viol(fp, what string, rep any) {
	x.mu.Lock()
	x.viols[fp]++
	x.mu.Unlock()
	x.r.Violation(fp, what, rep)
}

type tcase struct {
	Part string        `json:"part"`
	V1   *v1Params     `json:"v1,omitempty"`
	V2   *v2Params     `json:"v2,omitempty"`
	Br   *bearerParams `json:"bearer,omitempty"`
	// request
	ReqVerb int32  `json:"req_verb,omitempty"`
	ReqCnr  string `json:"req_cnr,omitempty"`
	ReqObj  string `json:"req_obj,omitempty"`
	NowMs   int64  `json:"now_ms,omitempty"`
	Sender  string `json:"sender,omitempty"`
	// mutation parts
	Mut   *vkit.Mut  `json:"mut,omitempty"`
	Menu  string     `json:"menu,omitempty"`
	Deleg *delegCase `json:"deleg,omitempty"`
	Seq   *seqCase   `json:"seq,omitempty"`
}

func guard(f func() error) (err error, pan any) {
	defer func() {
		if p := recover(); p != nil {
			pan = p
		}
	}()
	return f(), nil
}

// ---------------------------------------------------------------- part A: v1 product

func (x *runner) v1Case(p v1Params, tok *protosession.SessionToken, reqVerb int32, reqCnr cid.ID, reqObj oid.ID) {
	x.r.Eval(1)
	lifeOK, lifeWhy := specEpochLifetime(p.Life)
	var failed []string
	if !lifeOK {
		failed = append(failed, "lifetime("+lifeWhy+")")
	}
	if reqCnr != cA {
		failed = append(failed, "container")
	}
	if !specV1Verb(p.Verb, reqVerb) {
		failed = append(failed, "verb")
	}
	if !specV1Object(objsByName(p.Objs), reqObj) {
		failed = append(failed, "object")
	}
	tc := tcase{Part: "A", V1: &p, ReqVerb: reqVerb, ReqCnr: cnrName(reqCnr), ReqObj: objName(reqObj)}
	err, pan := guard(func() error {
		_, err := x.w.epoch.Svc.VerifySessionV1TokenMessage(tok, session.ObjectVerb(reqVerb), reqCnr, reqObj)
		return err
	})
	if pan != nil {
		x.viol("panic:v1-product", fmt.Sprintf("%+v: %v", tc, pan), tc)
		return
	}
	honoured := err == nil
	x.class(fmt.Sprintf("A spec-valid=%v honoured=%v", len(failed) == 0, honoured))
	if len(failed) == 1 {
		x.r.Nontrivial(fmt.Sprintf("A|%s|%d|%v|%v|%d|%s|%s", failed[0], p.Verb, p.Objs, p.Life, reqVerb, cnrName(reqCnr), objName(reqObj)))
	}
	switch {
	case honoured && len(failed) > 0:
		det := strings.Join(failed, "+")
		if det == "object" {
			det = fmt.Sprintf("object:token-verb=%s", map[int32]string{5: "DELETE"}[p.Verb])
		}
		x.viol("v1-honoured-though-not-valid-for-request:"+det,
			fmt.Sprintf("v1 session token (scheme %s, verb %d, container cA, objects %v, nbf/iat/exp = cur%+d/cur%+d/cur%+d) honoured for request verb %d, container %s, object %s; spec fails: %s",
				vkit.SchemeNames[p.Scheme], p.Verb, p.Objs, p.Life[0], p.Life[1], p.Life[2], reqVerb, cnrName(reqCnr), objName(reqObj), strings.Join(failed, ", ")), tc)
	case !honoured && len(failed) == 0:
		x.viol("v1-valid-token-rejected", fmt.Sprintf("%+v: %v", tc, err), tc)
	}
	if honoured && x.r.WantSample() && p.Verb == 2 && reqVerb == 3 {
		x.r.Sample(map[string]any{"case": tc, "honoured": honoured})
	}
}

func lifetimes() [][3]int {
	var r [][3]int
	enumx.Product([]int{3, 3, 3}, func(i []int) bool {
		r = append(r, [3]int{i[0] - 1, i[1] - 1, i[2] - 1})
		return true
	})
	return r
}

func (x *runner) partA(schemes []int32) {
	type job struct{ p v1Params }
	var jobs []job
	for _, sc := range schemes {
		for _, life := range lifetimes() {
			for verb := int32(0); verb <= 8; verb++ {
				for _, objs := range [][]string{nil, {"o1"}, {"o1", "o2"}} {
					jobs = append(jobs, job{v1Params{Scheme: sc, Life: life, Verb: verb, Objs: objs}})
				}
			}
		}
	}
	enumx.Parallel(len(jobs), func(i int) {
		p := jobs[i].p
		tok := buildV1(p, "alice", "alice")
		for reqVerb := int32(1); reqVerb <= 7; reqVerb++ {
			for _, rc := range []cid.ID{cA, cB} {
				for _, ro := range []oid.ID{{}, o1, o2, o3} {
					x.v1Case(p, tok, reqVerb, rc, ro)
				}
			}
		}
	})
}

// ---------------------------------------------------------------- mutation machinery (parts B, D, E)

type tokenKind struct {
	name   string
	verify func(w *aclworld.World, m proto.Message) error
	// links returns the (body, signature, issuer) links of the message, outermost first
	links func(m proto.Message) [][3]any
}

func fieldClass(m proto.Message, path []int) string {
	var names []string
	cur := m.ProtoReflect().Descriptor()
	for i := 0; i < len(path); i++ {
		fd := cur.Fields().ByNumber(protoreflect.FieldNumber(path[i]))
		if fd == nil {
			break
		}
		names = append(names, string(fd.Name()))
		if fd.IsList() {
			i++
		}
		if fd.Message() != nil {
			cur = fd.Message()
		}
	}
	return strings.Join(names, ".")
}

// mutateAndCheck runs every mutation of base through verify; the mutated token must be rejected unless all its
// links are authentic (then there is nothing to demand: the result is counted only).
func (x *runner) mutationPart(part string, k tokenKind, base proto.Message, scheme int32, w *aclworld.World, mk func(mu *vkit.Mut, menu string) tcase, wire bool) {
	r := x.r
	type one struct {
		mu   *vkit.Mut
		menu string
		msg  proto.Message
	}
	var all []one
	for _, mu := range vkit.EnumMutsAll(base) {
		mu := mu
		all = append(all, one{mu: &mu})
	}
	if wire {
		wb := vkit.Enc(base)
		for i := 0; i < len(wb)*8; i++ {
			all = append(all, one{mu: &vkit.Mut{Kind: "wire-bit", Val: int64(i)}})
		}
	}
	enumx.Parallel(len(all), func(i int) {
		o := all[i]
		var msg proto.Message
		if o.mu.Kind == "wire-bit" {
			wb := vkit.Enc(base)
			wb[o.mu.Val/8] ^= 1 << uint(o.mu.Val%8)
			msg = base.ProtoReflect().New().Interface()
			if err := proto.Unmarshal(wb, msg); err != nil {
				r.Eval(1)
				x.class(part + " undecodable-wire")
				return
			}
		} else {
			msg = proto.Clone(base)
			vkit.ApplyAny(msg, *o.mu)
		}
		x.judgeMutated(part, k, base, msg, scheme, w, mk(o.mu, ""), mutClass(base, o.mu))
	})
}

func mutClass(base proto.Message, mu *vkit.Mut) string {
	if mu == nil {
		return "menu"
	}
	if mu.Kind == "wire-bit" {
		return "wire"
	}
	return fieldClass(base, mu.Path)
}

func (x *runner) judgeMutated(part string, k tokenKind, base, msg proto.Message, scheme int32, w *aclworld.World, tc tcase, cls string) {
	r := x.r
	r.Eval(1)
	stripped := proto.Clone(msg)
	vkit.StripUnknown(stripped.ProtoReflect())
	allAuth := true
	for _, l := range k.links(stripped) {
		body, _ := l[0].(proto.Message)
		sg, _ := l[1].(*refs.Signature)
		iss, _ := l[2].(*refs.OwnerID)
		if !prov.authentic(body, sg, iss) {
			allAuth = false
		}
	}
	if len(k.links(stripped)) == 0 {
		allAuth = false
	}
	err, pan := guard(func() error { return k.verify(w, msg) })
	if pan != nil {
		x.viol(fmt.Sprintf("panic:%s-mutation:%s", k.name, cls), fmt.Sprintf("%+v: panic %v", tc, pan), tc)
		return
	}
	honoured := err == nil
	x.class(fmt.Sprintf("%s %s all-links-authentic=%v honoured=%v", part, k.name, allAuth, honoured))
	if !allAuth {
		r.Nontrivial(fmt.Sprintf("%s|%s|%d|%v|%s", part, k.name, scheme, tc.Mut, tc.Menu))
	}
	if honoured && !allAuth {
		fp := fmt.Sprintf("mutated-%s-token-honoured:scheme=%s:mutated=%s", k.name, vkit.SchemeNames[scheme], cls)
		if c := n3Cause(k.links(stripped)); c != "" {
			fp = c // one fingerprint per root cause, whatever the token kind and the mutation that produced the witness
		}
		x.viol(fp, fmt.Sprintf("%s token (originally scheme %s) honoured after mutation %+v %s although its body/signature/issuer is no longer what the issuer signed", k.name, vkit.SchemeNames[scheme], tc.Mut, tc.Menu), tc)
	}
	if proto.Equal(stripped, base) && !honoured {
		x.viol(fmt.Sprintf("%s-valid-token-rejected", k.name), fmt.Sprintf("%+v: %v", tc, err), tc)
	}
}

// n3Cause classifies a non-authentic but honoured token whose first bad link carries an N3 witness.
func n3Cause(links [][3]any) string {
	for _, l := range links {
		body, _ := l[0].(proto.Message)
		sg, _ := l[1].(*refs.Signature)
		iss, _ := l[2].(*refs.OwnerID)
		if prov.authentic(body, sg, iss) {
			continue
		}
		if sg == nil || int32(sg.Scheme) != vkit.N3 || iss == nil || len(iss.Value) != 25 {
			return ""
		}
		if string(hash.Hash160(sg.Key).BytesBE()) == string(iss.Value[1:21]) {
			return "token-honoured-without-issuer-signature:N3:invocation-script-bypasses-the-issuer-verification-script"
		}
		return "token-honoured-without-issuer-signature:N3:verification-script-is-not-the-issuer-account"
	}
	return ""
}

func sigOf(m proto.Message) *refs.Signature {
	switch t := m.(type) {
	case *protosession.SessionToken:
		return t.Signature
	case *protosession.SessionTokenV2:
		return t.Signature
	case *protoacl.BearerToken:
		return t.Signature
	}
	return nil
}

func setSig(m proto.Message, s *refs.Signature) {
	switch t := m.(type) {
	case *protosession.SessionToken:
		t.Signature = s
	case *protosession.SessionTokenV2:
		t.Signature = s
	case *protoacl.BearerToken:
		t.Signature = s
	}
}

func bodyOf(m proto.Message) proto.Message {
	switch t := m.(type) {
	case *protosession.SessionToken:
		return t.Body
	case *protosession.SessionTokenV2:
		return t.Body
	case *protoacl.BearerToken:
		return t.Body
	}
	return nil
}

func setIssuer(m proto.Message, id user.ID) {
	switch t := m.(type) {
	case *protosession.SessionToken:
		t.Body.OwnerId = owner(id)
	case *protosession.SessionTokenV2:
		t.Body.Issuer = owner(id)
	case *protoacl.BearerToken:
		t.Body.Issuer = owner(id)
	}
}

// menuPart: substitutions a single bit flip cannot produce.
func (x *runner) menuPart(part string, k tokenKind, base, other proto.Message, scheme int32, w *aclworld.World, mk func(mu *vkit.Mut, menu string) tcase) {
	mal := signer("mallory", scheme)
	victim := signer("alice", scheme)
	items := []struct {
		name string
		f    func(m proto.Message)
	}{
		{"attacker-resigns-keeping-issuer", func(m proto.Message) { setSig(m, prov.sign(mal, vkit.Enc(bodyOf(m)))) }},
		{"attacker-resigns-as-own-issuer", func(m proto.Message) {
			setIssuer(m, mal.UserID())
			setSig(m, prov.sign(mal, vkit.Enc(bodyOf(m))))
		}},
		{"issuer-replaced-signature-kept", func(m proto.Message) { setIssuer(m, mal.UserID()) }},
		{"signature-of-another-token-of-the-issuer", func(m proto.Message) { setSig(m, proto.Clone(sigOf(other)).(*refs.Signature)) }},
		{"attacker-key-with-issuer-signature", func(m proto.Message) { sigOf(m).Key = mal.KeyBytes() }},
		{"attacker-signature-with-issuer-key", func(m proto.Message) { sigOf(m).Sign = mal.Sign(vkit.Enc(bodyOf(m))) }},
		{"empty-signature-value", func(m proto.Message) { sigOf(m).Sign = nil }},
		{"empty-key", func(m proto.Message) { sigOf(m).Key = nil }},
		{"n3-pusht-ret-with-issuer-script", func(m proto.Message) {
			setSig(m, &refs.Signature{Scheme: refs.SignatureScheme(vkit.N3), Key: victim.Priv.PublicKey().GetVerificationScript(), Sign: []byte{0x08, 0x40}})
		}},
		{"n3-truncated-push-swallows-the-verification-script", func(m proto.Message) {
			// account whose verification script is PUSHF (nobody can sign for it); invocation script = PUSHDATA1 1 without
			// operand: run concatenated it swallows the script and leaves one truthy item
			setIssuer(m, user.NewFromScriptHash(hash.Hash160([]byte{0x09})))
			setSig(m, &refs.Signature{Scheme: refs.SignatureScheme(vkit.N3), Key: []byte{0x09}, Sign: []byte{0x0c, 0x01}})
		}},
		{"n3-attacker-witness-for-issuer-account", func(m proto.Message) {
			n3 := signer("mallory", vkit.N3)
			setSig(m, &refs.Signature{Scheme: refs.SignatureScheme(vkit.N3), Key: n3.KeyBytes(), Sign: n3.Sign(vkit.Enc(bodyOf(m)))})
		}},
	}
	for s := int32(-1); s <= 4; s++ {
		s := s
		if s != scheme {
			items = append(items, struct {
				name string
				f    func(m proto.Message)
			}{fmt.Sprintf("scheme-set-to-%d", s), func(m proto.Message) { sigOf(m).Scheme = refs.SignatureScheme(s) }})
		}
	}
	for _, it := range items {
		msg := proto.Clone(base)
		it.f(msg)
		cls := "signature-substitution"
		if strings.HasPrefix(it.name, "n3-") {
			cls = it.name
		}
		x.judgeMutated(part, k, base, msg, scheme, w, mk(nil, it.name), cls)
	}
}

var kindV1 = tokenKind{
	name: "v1",
	verify: func(w *aclworld.World, m proto.Message) error {
		_, err := w.Svc.VerifySessionV1TokenMessage(m.(*protosession.SessionToken), session.VerbObjectGet, cA, o1)
		return err
	},
	links: func(m proto.Message) [][3]any {
		t := m.(*protosession.SessionToken)
		if t.Body == nil {
			return nil
		}
		return [][3]any{{t.Body, t.Signature, t.Body.OwnerId}}
	},
}

var kindV2 = tokenKind{
	name: "v2",
	verify: func(w *aclworld.World, m proto.Message) error {
		_, err := w.Svc.VerifySessionTokenMessage(m.(*protosession.SessionTokenV2), sessionv2.VerbObjectGet, cA)
		return err
	},
	links: func(m proto.Message) [][3]any {
		var r [][3]any
		for t := m.(*protosession.SessionTokenV2); t != nil; t = t.Origin {
			if t.Body == nil {
				return nil
			}
			r = append(r, [3]any{t.Body, t.Signature, t.Body.Issuer})
		}
		return r
	},
}

var kindBearer = tokenKind{
	name: "bearer",
	verify: func(w *aclworld.World, m proto.Message) error {
		_, err := w.Svc.VerifyBearerTokenMessage(m.(*protoacl.BearerToken))
		return err
	},
	links: func(m proto.Message) [][3]any {
		t := m.(*protoacl.BearerToken)
		if t.Body == nil {
			return nil
		}
		return [][3]any{{t.Body, t.Signature, t.Body.Issuer}}
	},
}

// ---------------------------------------------------------------- part C: v2 product

func v2ContextShapes() [][]v2Ctx {
	var r [][]v2Ctx
	for _, c := range []string{"-", "cA"} {
		for v := int32(1); v <= 12; v++ {
			r = append(r, []v2Ctx{{c, []int32{v}}})
		}
	}
	r = append(r,
		[]v2Ctx{{"-", []int32{2}}, {"cA", []int32{1}}},
		[]v2Ctx{{"cA", []int32{2, 3}}, {"cB", []int32{1}}},
		[]v2Ctx{{"cB", []int32{2}}},
		[]v2Ctx{{"-", []int32{1, 2, 3, 4, 5, 6}}},
	)
	// contexts must be sorted by container ID: order the explicit ones
	for _, cs := range r {
		sort.SliceStable(cs, func(i, j int) bool {
			a, b := cnrByName(cs[i].Cnr), cnrByName(cs[j].Cnr)
			return string(a[:]) < string(b[:])
		})
	}
	return r
}

func (x *runner) v2Case(p v2Params, tok *protosession.SessionTokenV2, nowMs int64, reqVerb int32, reqCnr cid.ID) {
	x.r.Eval(1)
	lifeOK, lifeWhy := specV2Lifetime(p.Life, nowMs)
	wellFormed := p.Life[0] <= p.Life[2] && p.Life[1] <= p.Life[2] // nbf <= exp and iat <= exp: otherwise no instant is valid
	var failed []string
	if !lifeOK {
		failed = append(failed, "lifetime("+lifeWhy+")")
	}
	if !specV2Applies(p.Ctxs, reqVerb, reqCnr) {
		failed = append(failed, "verb-or-container")
	}
	tc := tcase{Part: "C", V2: &p, ReqVerb: reqVerb, ReqCnr: cnrName(reqCnr), NowMs: nowMs}
	w := x.w.byNow[nowMs]
	err, pan := guard(func() error {
		_, err := w.Svc.VerifySessionTokenMessage(tok, sessionv2.Verb(reqVerb), reqCnr)
		return err
	})
	if pan != nil {
		x.viol("panic:v2-product", fmt.Sprintf("%+v: %v", tc, pan), tc)
		return
	}
	honoured := err == nil
	sub := nowMs%1000 != 0
	x.class(fmt.Sprintf("C spec-valid=%v honoured=%v subsecond-now=%v", len(failed) == 0, honoured, sub))
	if len(failed) == 1 {
		x.r.Nontrivial(fmt.Sprintf("C|%s|%v|%v|%d|%d|%s", failed[0], p.Life, p.Ctxs, nowMs, reqVerb, cnrName(reqCnr)))
	}
	switch {
	case honoured && len(failed) > 0:
		det := strings.Join(failed, "+")
		if sub && !lifeOK && len(failed) == 1 && !strings.Contains(lifeWhy, "exp") {
			det = "before-nbf-or-iat:sub-second-now-rounded-up-to-the-next-second"
		}
		x.viol("v2-honoured-though-not-valid-for-request:"+det,
			fmt.Sprintf("v2 session token (scheme %s, nbf/iat/exp = T%+d/T%+d/T%+d s, contexts %v) honoured at now = T%+d ms for verb %d in %s; spec fails: %s",
				vkit.SchemeNames[p.Scheme], p.Life[0], p.Life[1], p.Life[2], p.Ctxs, nowMs, reqVerb, cnrName(reqCnr), strings.Join(failed, ", ")), tc)
	case !honoured && len(failed) == 0 && wellFormed && !sub:
		x.viol("v2-valid-token-rejected", fmt.Sprintf("%+v: %v", tc, err), tc)
	case !honoured && len(failed) == 0:
		x.class("C valid-by-floor-semantics-but-rejected (not judged)")
	}
}

func (x *runner) partC(schemes []int32) {
	var ps []v2Params
	for _, sc := range schemes {
		for _, life := range lifetimes() {
			for _, cs := range v2ContextShapes() {
				ps = append(ps, v2Params{Scheme: sc, Life: life, Ctxs: cs, Issuer: "alice", Subjects: []string{"bob"}})
			}
		}
	}
	enumx.Parallel(len(ps), func(i int) {
		p := ps[i]
		tok := buildV2(p, "alice", nil)
		for _, now := range nowOffsets {
			for verb := int32(0); verb <= 13; verb++ {
				for _, rc := range []cid.ID{cA, cB} {
					x.v2Case(p, tok, now, verb, rc)
				}
			}
		}
	})
}

// ---------------------------------------------------------------- part D: v2 delegation

type delegCase struct {
	Scheme     int32  `json:"scheme"`
	IssuerIn   string `json:"issuer_in"`   // "user" | "absent" | "nns-yes" | "nns-no"
	Verbs      string `json:"verbs"`       // "subset" | "equal" | "superset"
	OriginLife string `json:"origin_life"` // "covering" | "exp-shorter" | "nbf-later"
	Final      bool   `json:"origin_final"`
	OriginSig  string `json:"origin_sig"` // "valid" | "flipped" | "wrong-key"
}

func (x *runner) delegation(d delegCase) {
	x.r.Eval(1)
	op := v2Params{Scheme: d.Scheme, Life: [3]int{-5, -5, 5}, Ctxs: []v2Ctx{{"cA", []int32{2, 3}}}, Issuer: "alice", Final: d.Final}
	switch d.IssuerIn {
	case "user":
		op.Subjects = []string{"carol", "bob"}
	case "absent":
		op.Subjects = []string{"carol"}
	case "nns-yes":
		op.Subjects = []string{"nns:team.ok"}
	case "nns-no":
		op.Subjects = []string{"nns:team.other"}
	}
	switch d.OriginLife {
	case "exp-shorter":
		op.Life = [3]int{-5, -5, 1}
	case "nbf-later":
		op.Life = [3]int{-1, -5, 5}
	}
	originSigner := "alice"
	if d.OriginSig == "wrong-key" {
		originSigner = "mallory"
	}
	origin := buildV2(op, originSigner, nil)
	if d.OriginSig == "flipped" {
		origin.Signature.Sign = append([]byte{}, origin.Signature.Sign...)
		origin.Signature.Sign[len(origin.Signature.Sign)/2] ^= 0x10
	}
	dp := v2Params{Scheme: d.Scheme, Life: [3]int{-2, -2, 2}, Issuer: "bob", Subjects: []string{"dave"}}
	switch d.Verbs {
	case "subset":
		dp.Ctxs = []v2Ctx{{"cA", []int32{2}}}
	case "equal":
		dp.Ctxs = []v2Ctx{{"cA", []int32{2, 3}}}
	case "superset":
		dp.Ctxs = []v2Ctx{{"cA", []int32{2, 3, 5}}}
	}
	tok := buildV2(dp, "bob", origin)
	// spec (SessionTokenV2.origin documentation): the delegating issuer must be a subject of the origin, contexts must
	// be narrowed, lifetime must be within the origin's, a final origin cannot be delegated, every link correctly signed.
	var failed []string
	if d.IssuerIn == "absent" || d.IssuerIn == "nns-no" {
		failed = append(failed, "issuer-not-subject-of-origin")
	}
	if d.Verbs == "superset" {
		failed = append(failed, "verbs-widened")
	}
	if d.OriginLife != "covering" {
		failed = append(failed, "lifetime-outside-origin")
	}
	if d.Final {
		failed = append(failed, "origin-final")
	}
	if d.OriginSig != "valid" {
		failed = append(failed, "origin-signature")
	}
	tc := tcase{Part: "D", Deleg: &d}
	w := x.w.byNow[0]
	err, pan := guard(func() error {
		_, err := w.Svc.VerifySessionTokenMessage(tok, sessionv2.VerbObjectGet, cA)
		return err
	})
	if pan != nil {
		x.viol("panic:v2-delegation", fmt.Sprintf("%+v: %v", tc, pan), tc)
		return
	}
	honoured := err == nil
	x.class(fmt.Sprintf("D delegation spec-valid=%v honoured=%v", len(failed) == 0, honoured))
	if len(failed) == 1 {
		x.r.Nontrivial(fmt.Sprintf("D|%+v", d))
	}
	switch {
	case honoured && len(failed) > 0:
		fp := "v2-delegated-token-honoured-though-invalid:" + strings.Join(failed, "+")
		if c := n3Cause(kindV2.links(tok)); c != "" && len(failed) == 1 && failed[0] == "origin-signature" {
			fp = c
		}
		x.viol(fp, fmt.Sprintf("%+v honoured; spec fails: %v", d, failed), tc)
	case !honoured && len(failed) == 0:
		x.viol("v2-valid-delegated-token-rejected", fmt.Sprintf("%+v: %v", d, err), tc)
	}
}

// ---------------------------------------------------------------- part E: bearer product

func senderRequest(who string) *protoobject.GetRequest {
	s := signer(who, vkit.RFC6979)
	body := &protoobject.GetRequest_Body{Address: &refs.Address{ContainerId: pcid(cA), ObjectId: poid(o1)}}
	meta := &protosession.RequestMetaHeader{Version: &refs.Version{Major: 2, Minor: 25}, Ttl: 2}
	sg := func(m proto.Message) *refs.Signature {
		return &refs.Signature{Key: s.KeyBytes(), Sign: s.Sign(vkit.Enc(m)), Scheme: refs.SignatureScheme(s.Scheme)}
	}
	return &protoobject.GetRequest{Body: body, MetaHeader: meta, VerifyHeader: &protosession.RequestVerificationHeader{BodySignature: sg(body), MetaSignature: sg(meta)}}
}

func (x *runner) bearerCase(p bearerParams, tok *protoacl.BearerToken, reqCnr cid.ID, req *protoobject.GetRequest) {
	x.r.Eval(1)
	lifeOK, lifeWhy := specEpochLifetime(p.Life)
	cnrOwner := map[cid.ID]string{cA: "alice", cB: "bob"}[reqCnr]
	var failed []string
	if !lifeOK {
		failed = append(failed, "lifetime("+lifeWhy+")")
	}
	// property C28/C30: the token counts when issued by the container owner for this container and this requester
	if p.Issuer != cnrOwner {
		failed = append(failed, "issuer-not-container-owner")
	}
	if p.TableCnr != "-" && cnrByName(p.TableCnr) != reqCnr {
		failed = append(failed, "container")
	}
	if p.Target != "-" && p.Target != "carol" {
		failed = append(failed, "target-user")
	}
	tc := tcase{Part: "E", Br: &p, ReqCnr: cnrName(reqCnr), Sender: "carol"}
	w := x.w.epoch
	err, pan := guard(func() error {
		bt, err := w.Svc.VerifyBearerTokenMessage(tok)
		if err != nil {
			return err
		}
		info, err := w.Svc.GetRequestToInfo(context.Background(), req, reqCnr, common.RequestTokens{Bearer: &bt})
		if err == nil && info.Bearer == nil {
			return fmt.Errorf("bearer dropped")
		}
		return err
	})
	if pan != nil {
		x.viol("panic:bearer-product", fmt.Sprintf("%+v: %v", tc, pan), tc)
		return
	}
	honoured := err == nil
	x.class(fmt.Sprintf("E spec-valid=%v honoured=%v", len(failed) == 0, honoured))
	if len(failed) == 1 {
		x.r.Nontrivial(fmt.Sprintf("E|%s|%+v|%s", failed[0], p, cnrName(reqCnr)))
	}
	switch {
	case honoured && len(failed) > 0:
		x.viol("bearer-honoured-though-not-valid-for-request:"+strings.Join(failed, "+"),
			fmt.Sprintf("bearer token %+v honoured for a request of carol to %s (owner %s); spec fails: %v", p, cnrName(reqCnr), cnrOwner, failed), tc)
	case !honoured && len(failed) == 0:
		x.viol("bearer-valid-token-rejected", fmt.Sprintf("%+v: %v", tc, err), tc)
	}
}

func (x *runner) partE(schemes []int32) {
	req := senderRequest("carol")
	var ps []bearerParams
	for _, sc := range schemes {
		for _, life := range lifetimes() {
			for _, tc := range []string{"-", "cA", "cB"} {
				for _, tg := range []string{"-", "carol", "dave"} {
					for _, is := range []string{"alice", "bob", "mallory"} {
						ps = append(ps, bearerParams{Scheme: sc, Life: life, TableCnr: tc, Target: tg, Issuer: is})
					}
				}
			}
		}
	}
	enumx.Parallel(len(ps), func(i int) {
		tok := buildBearer(ps[i], ps[i].Issuer)
		for _, rc := range []cid.ID{cA, cB} {
			x.bearerCase(ps[i], tok, rc, req)
		}
	})
}

// ---------------------------------------------------------------- main

func (x *runner) replay(tc tcase) {
	switch tc.Part {
	case "F":
		x.sequence(*tc.Seq)
	case "A":
		x.v1Case(*tc.V1, buildV1(*tc.V1, "alice", "alice"), tc.ReqVerb, cnrByName(tc.ReqCnr), map[string]oid.ID{"o1": o1, "o2": o2, "o3": o3}[tc.ReqObj])
	case "C":
		x.v2Case(*tc.V2, buildV2(*tc.V2, "alice", nil), tc.NowMs, tc.ReqVerb, cnrByName(tc.ReqCnr))
	case "D":
		if tc.Deleg != nil {
			x.delegation(*tc.Deleg)
			return
		}
		fallthrough
	case "B", "E":
		if tc.Br != nil && tc.Mut == nil && tc.Menu == "" {
			x.bearerCase(*tc.Br, buildBearer(*tc.Br, tc.Br.Issuer), cnrByName(tc.ReqCnr), senderRequest("carol"))
			return
		}
		x.mutationParts([]int32{schemeOf(tc)}, true, &tc)
	}
}

func schemeOf(tc tcase) int32 {
	switch {
	case tc.V1 != nil:
		return tc.V1.Scheme
	case tc.V2 != nil:
		return tc.V2.Scheme
	case tc.Br != nil:
		return tc.Br.Scheme
	}
	return 1
}

// mutationParts runs parts B (v1), D-mutation (v2 with origin) and E-mutation (bearer). With only != nil just that case.
func (x *runner) mutationParts(schemes []int32, wire bool, only *tcase) {
	for _, sc := range schemes {
		sc := sc
		// v1
		p1 := v1Params{Scheme: sc, Life: [3]int{-1, -1, 1}, Verb: 2, Objs: []string{"o1"}}
		base1 := buildV1(p1, "alice", "alice")
		other1 := buildV1(v1Params{Scheme: sc, Life: [3]int{-1, -1, 1}, Verb: 1, Objs: []string{"o1"}}, "alice", "alice")
		mk1 := func(mu *vkit.Mut, menu string) tcase { return tcase{Part: "B", V1: &p1, Mut: mu, Menu: menu} }
		// v2 with one delegation
		op := v2Params{Scheme: sc, Life: [3]int{-5, -5, 5}, Ctxs: []v2Ctx{{"cA", []int32{2, 3}}}, Issuer: "alice", Subjects: []string{"bob"}}
		p2 := v2Params{Scheme: sc, Life: [3]int{-2, -2, 2}, Ctxs: []v2Ctx{{"cA", []int32{2}}}, Issuer: "bob", Subjects: []string{"dave"}}
		base2 := buildV2(p2, "bob", buildV2(op, "alice", nil))
		other2 := buildV2(v2Params{Scheme: sc, Life: [3]int{-2, -2, 2}, Ctxs: []v2Ctx{{"cA", []int32{1}}}, Issuer: "alice", Subjects: []string{"dave"}}, "alice", nil)
		mk2 := func(mu *vkit.Mut, menu string) tcase { return tcase{Part: "D", V2: &p2, Mut: mu, Menu: menu} }
		// v2 without delegation (issuer alice) for the substitution menu
		p2s := v2Params{Scheme: sc, Life: [3]int{-2, -2, 2}, Ctxs: []v2Ctx{{"cA", []int32{2}}}, Issuer: "alice", Subjects: []string{"dave"}}
		base2s := buildV2(p2s, "alice", nil)
		mk2s := func(mu *vkit.Mut, menu string) tcase { return tcase{Part: "D", V2: &p2s, Mut: mu, Menu: menu} }
		// bearer
		pb := bearerParams{Scheme: sc, Life: [3]int{-1, -1, 1}, TableCnr: "cA", Target: "carol", Issuer: "alice"}
		baseB := buildBearer(pb, "alice")
		otherB := buildBearer(bearerParams{Scheme: sc, Life: [3]int{-1, -1, 1}, TableCnr: "cB", Target: "carol", Issuer: "alice"}, "alice")
		mkB := func(mu *vkit.Mut, menu string) tcase { return tcase{Part: "E", Br: &pb, Mut: mu, Menu: menu} }

		if only != nil {
			var k tokenKind
			var base, other proto.Message
			var w *aclworld.World
			switch {
			case only.V1 != nil:
				k, base, other, w = kindV1, base1, other1, x.w.epoch
			case only.V2 != nil && only.V2.Issuer == "bob":
				k, base, other, w = kindV2, base2, other2, x.w.byNow[0]
			case only.V2 != nil:
				k, base, other, w = kindV2, base2s, other2, x.w.byNow[0]
			default:
				k, base, other, w = kindBearer, baseB, otherB, x.w.epoch
			}
			mk := func(mu *vkit.Mut, menu string) tcase { c := *only; return c }
			if only.Menu != "" {
				x.menuPart(only.Part, k, base, other, sc, w, mk)
				return
			}
			msg := proto.Clone(base)
			if only.Mut.Kind == "wire-bit" {
				wb := vkit.Enc(base)
				wb[only.Mut.Val/8] ^= 1 << uint(only.Mut.Val%8)
				msg = base.ProtoReflect().New().Interface()
				if proto.Unmarshal(wb, msg) != nil {
					return
				}
			} else {
				vkit.ApplyAny(msg, *only.Mut)
			}
			x.judgeMutated(only.Part, k, base, msg, sc, w, *only, mutClass(base, only.Mut))
			return
		}
		x.mutationPart("B", kindV1, base1, sc, x.w.epoch, mk1, wire)
		x.menuPart("B", kindV1, base1, other1, sc, x.w.epoch, mk1)
		x.mutationPart("D", kindV2, base2, sc, x.w.byNow[0], mk2, wire)
		x.menuPart("D", kindV2, base2s, other2, sc, x.w.byNow[0], mk2s)
		x.mutationPart("E", kindBearer, baseB, sc, x.w.epoch, mkB, wire)
		x.menuPart("E", kindBearer, baseB, otherB, sc, x.w.epoch, mkB)
	}
}

func main() {
	r := ev.Start("C30", ev.Exploration)
	x := &runner{r: r, classes: map[string]int64{}, viols: map[string]int64{}}
	x.w.epoch = newWorld(0)
	x.w.byNow = map[int64]*aclworld.World{}
	for _, n := range nowOffsets {
		x.w.byNow[n] = newWorld(n)
	}
	// informational only (not judged): which timestamp the node hands to GetEpochBlockByTime when it evaluates the N3
	// witness of a V2 token "at iat" (the netmap contract expects Unix milliseconds)
	var lookups, lookupsMatchingIatMs atomic.Int64
	for _, w := range x.w.byNow {
		w.BlockByTime = func(t uint32) (uint32, error) {
			lookups.Add(1)
			for d := int64(-10); d <= 10; d++ {
				if uint64(t) == uint64(baseUnix+d)*1000 {
					lookupsMatchingIatMs.Add(1)
				}
			}
			return 0, nil
		}
	}
	defer func() {}()
	if r.Replay != "" {
		var tc tcase
		r.LoadReplay(&tc)
		x.replay(tc)
		r.Finish()
	}
	all := []int32{vkit.SHA512, vkit.RFC6979, vkit.WC, vkit.N3}
	productSchemes := all
	if r.Quick() {
		productSchemes = []int32{vkit.RFC6979, vkit.N3}
	}
	x.partA(productSchemes)
	x.partC(productSchemes)
	var ds []delegCase
	for _, sc := range all {
		for _, in := range []string{"user", "absent", "nns-yes", "nns-no"} {
			for _, vb := range []string{"subset", "equal", "superset"} {
				for _, ol := range []string{"covering", "exp-shorter", "nbf-later"} {
					for _, fin := range []bool{false, true} {
						for _, os := range []string{"valid", "flipped", "wrong-key"} {
							ds = append(ds, delegCase{sc, in, vb, ol, fin, os})
						}
					}
				}
			}
		}
	}
	enumx.Parallel(len(ds), func(i int) { x.delegation(ds[i]) })
	x.partE(all)
	x.partF(all)
	x.mutationParts(all, true, nil)

	x.mu.Lock()
	r.Set("outcome_classes", len(x.classes))
	r.Set("outcomes", x.classes)
	r.Set("violation_classes", x.viols)
	r.Set("observation_v2_n3_height_lookup", map[string]any{"lookups": lookups.Load(), "lookups_whose_argument_is_iat_in_unix_ms": lookupsMatchingIatMs.Load(),
		"note": "internal/crypto/n3.go verifyN3ScriptsAtTime passes uint32(t.UnixMilli()); the value wraps for present-day times, so the historic height is not the one of iat (not judged by this check: the stand-in chain's CheckSig does not depend on the height)"})
	x.mu.Unlock()
	r.Rule("F: every (clock1, clock2) over {nbf-1, nbf, inside, exp, exp+1}^2 x {purge hooks run / not run} and every ordered pair of requests (differing in verb, container, object or sender), " +
		"each presented as TWO consecutive presentations of the same byte-identical token to ONE service instance with shared caches, each presentation judged independently; " +
		"A/C/E: full products stated in the file header (no sampling); D: full delegation product; B/D/E mutation: every single-bit flip of every populated leaf, " +
		"every unset field set, every populated field and sub-message cleared, every bit of the wire form, and a substitution menu, per scheme. " +
		"Non-trivial = product case failing EXACTLY ONE criterion of the specification (distinct by all parameters), or a mutated token that is no longer authentic.")
	r.Assume("signature unforgeability (a (scheme,key,sign) triple not produced by a harness signer over exactly the token body is invalid)",
		"cache wiring of cmd/neofs-node: on every new epoch sessionsCache.ResetCache() and aclSvc.ResetTokenCheckCache() run; chain time moves inside an epoch without any purge. Part F therefore judges v2 tokens across time changes WITHOUT a purge, and v1/bearer tokens across epoch changes WITH the purge (the no-purge epoch change is counted, not judged: the handlers are asynchronous, that window is outside this check)",
		"v2 time semantics: a Unix timestamp is whole seconds; 'now' inside the period iff nbf <= floor(now) <= exp and iat <= floor(now)",
		"stand-in FS chain executes N3 witness scripts in the real neo-go VM (see props/c33/vkit)")
	r.Exhaustive(true)
	r.Finish()
}
