// C20: engine reads (Get / Head / exists-check) find every stored object despite shard order, shard
// modes and shard failures; a removed object never (re)appears.
//
// Explicit-state BFS (lib/seqx) over a real StorageEngine with 2 real shards (a third one can be
// attached by an operation). After EVERY transition all objects of the universe are read through the
// engine and compared with a state-based oracle:
//
//   - ground truth "stored on shard s" = the object's file is in s's FSTree (looked up underneath the
//     fault wrapper); "s readable" = the fault plan does not fail s's reads (every mode can read);
//
//   - "removed" = an engine removal (Delete with the default mark, Drop, or Put of a tombstone for the
//     object) returned nil while the object was stored (history variable of the reference model).
//
//     Get/Head succeed  <=>  not removed  and  some readable shard stores the object.
//     exists => stored and not removed;  (not removed and stored on a readable shard) => exists.
//
// Operations whose engine call returned an error may have had partial effects; the affected object
// is then not judged (nothing is demanded about half-applied, rejected operations) until a later
// removal of it is accepted: from then on it must not be served. The universe contains a LINK object
// (the engine broadcasts it to every shard) and scripted letters "removal attempted while shard s is
// read-only, then s back to read-write", so retried removals of multi-copy objects are reachable at
// the quick depth.
//
// A second BFS from the same root covers the engine's own redundancy maintenance (the policer's
// ListWithCursor -> DeleteRedundantCopies, followed by GC remover passes): it is not a removal, so
// every object must stay stored and readable afterwards, also when the HRW-best shard for the object
// is not among its holders (preferred shard read-only at put time, evacuation round trip, shard
// attached later).
package main

import (
	"context"
	"errors"
	"flag"
	"fmt"
	"sort"
	"strings"
	"sync"

	"github.com/nspcc-dev/neofs-node/pkg/local_object_storage/blobstor/common"
	"github.com/nspcc-dev/neofs-node/pkg/local_object_storage/engine"
	"github.com/nspcc-dev/neofs-node/pkg/local_object_storage/shard/mode"
	"github.com/nspcc-dev/neofs-node/verif/lib/ev"
	"github.com/nspcc-dev/neofs-node/verif/lib/seqx"
	"github.com/nspcc-dev/neofs-node/verif/shim/vmaps"
	ew "github.com/nspcc-dev/neofs-node/verif/worlds/engineworld"
	apistatus "github.com/nspcc-dev/neofs-sdk-go/client/status"
	"github.com/nspcc-dev/neofs-sdk-go/object"
	oid "github.com/nspcc-dev/neofs-sdk-go/object/id"
)

var cnr = ew.CID("c20")

type uobj struct {
	name string
	obj  *object.Object
	tomb *object.Object // tombstone that removes obj (nil: none in the alphabet)
}

type opKind int

const (
	opPut opKind = iota
	opPutTomb
	opDelete
	opMarkRedundant
	opDrop
	opSetMode
	opToggleFailReads
	opFailNextPut
	opAddShard
	opPutWhileRO    // scripted: SetMode(s, RO); Put(o); SetMode(s, RW)  (the preferred shard cannot take the object, it is restored afterwards)
	opEvacRoundTrip // scripted: SetMode(s, RO); Evacuate(s); SetMode(s, RW)  (evacuation copies, never removes: the shard keeps its copies when it comes back)
	opMaintain      // the policer's local redundancy maintenance: ListWithCursor -> DeleteRedundantCopies(addr, ShardIDs) for every regular object listed on >= 2 shards; then one GC remover pass on every shard
	opDropRedundant // the same without the GC passes
	opGCPass        // one GC remover pass on every shard
	opDeleteWhile   // scripted: SetMode(s, m); Delete(o); SetMode(s, RW)  (a removal attempted while shard s cannot record it, then s is writable again)
)

type op struct {
	kind  opKind
	o     int       // object index
	s     int       // shard index
	m     mode.Mode // for opSetMode
	order []int     // shard-map visiting order used by this op (broadcast)
	name  string
}

type universe struct {
	objs []uobj
	ops  []op // main alphabet
	ops2 []op // alphabet of the redundancy-maintenance search (second BFS from the same root)
	errT uint32
}

func modeName(m mode.Mode) string {
	switch m {
	case mode.ReadWrite:
		return "RW"
	case mode.ReadOnly:
		return "RO"
	case mode.DegradedReadOnly:
		return "DEGRADED_RO"
	case mode.Degraded:
		return "DEGRADED_RW"
	}
	return m.String()
}

func buildUniverse(thorough bool) *universe {
	scratch, err := ew.New(ew.Config{NumShards: 3})
	if err != nil {
		panic(err)
	}
	defer scratch.Close()
	own := ew.Owner("c20")
	reg := func(name string, hrw []int) uobj {
		id := scratch.OIDForHRW("c20-"+name, hrw)
		return uobj{name: name, obj: ew.Build(ew.ObjSpec{Cnr: cnr, ID: id, Owner: own, Payload: []byte("payload of " + name), Type: object.TypeRegular})}
	}
	u := &universe{errT: 2}
	// x: visited 0 before 1; a shard attached later (2) is visited first of all
	x := reg("x", []int{2, 0, 1})
	x.tomb = ew.Build(ew.ObjSpec{Cnr: cnr, ID: ew.OID("c20-tomb-x"), Owner: own, Payload: []byte("ts"), Type: object.TypeTombstone, Associate: x.obj.GetID()})
	// y: EC part. Put places it by the parent's ID (1 before 0), reads look it up by its own ID (0 before 1).
	par := ew.Build(ew.ObjSpec{Cnr: cnr, ID: scratch.OIDForHRW("c20-parent-y", []int{1, 2, 0}), Owner: own, Type: object.TypeRegular})
	y := uobj{name: "y", obj: ew.ECPart(scratch.OIDForHRW("c20-y", []int{0, 2, 1}), par, 0, []byte("ec part y"))}
	// l: a LINK object - the engine broadcasts it to every shard, so it is stored on all of them
	l := uobj{name: "l", obj: ew.Build(ew.ObjSpec{Cnr: cnr, ID: scratch.OIDForHRW("c20-link", []int{0, 1, 2}), Owner: own, Payload: []byte("link"), Type: object.TypeLink})}
	u.objs = []uobj{x, y, l}
	if thorough {
		u.objs = append(u.objs, reg("z", []int{1, 0, 2}))
	}
	add := func(o op) { u.ops = append(u.ops, o) }
	for i, o := range u.objs {
		add(op{kind: opPut, o: i, name: "Put(" + o.name + ")"})
	}
	for i, o := range u.objs {
		add(op{kind: opDelete, o: i, name: "Delete(" + o.name + ")"})
	}
	add(op{kind: opDrop, o: 0, name: "Drop(x)"})
	// retried removals: the first attempt happens while one shard is read-only (it cannot record the mark),
	// the shard is writable again afterwards; a later Delete/Drop letter is the retry
	for s := 0; s < 2; s++ {
		add(op{kind: opDeleteWhile, o: 2, s: s, m: mode.ReadOnly, name: fmt.Sprintf("DeleteWhileShardRO(l,%d)", s)})
	}
	if thorough {
		add(op{kind: opDrop, o: 2, name: "Drop(l)"})
		for s := 0; s < 2; s++ {
			add(op{kind: opDeleteWhile, o: 2, s: s, m: mode.DegradedReadOnly, name: fmt.Sprintf("DeleteWhileShardDegraded(l,%d)", s)})
			add(op{kind: opDeleteWhile, o: 0, s: s, m: mode.ReadOnly, name: fmt.Sprintf("DeleteWhileShardRO(x,%d)", s)})
		}
		add(op{kind: opDrop, o: 1, name: "Drop(y)"})
		add(op{kind: opMarkRedundant, o: 0, name: "MarkRedundant(x)"})
	}
	// tombstone broadcast visits the shard map: both visiting orders are distinct operations
	add(op{kind: opPutTomb, o: 0, order: []int{0, 1, 2}, name: "PutTombstone(x)/visit-0-first"})
	add(op{kind: opPutTomb, o: 0, order: []int{1, 0, 2}, name: "PutTombstone(x)/visit-1-first"})
	for s := 0; s < 2; s++ {
		for _, m := range []mode.Mode{mode.ReadOnly, mode.DegradedReadOnly, mode.ReadWrite} {
			add(op{kind: opSetMode, s: s, m: m, name: fmt.Sprintf("SetMode(%d,%s)", s, modeName(m))})
		}
	}
	for s := 0; s < 2; s++ {
		add(op{kind: opToggleFailReads, s: s, name: fmt.Sprintf("ToggleFailReads(%d)", s)})
	}
	for s := 0; s < 2; s++ {
		add(op{kind: opFailNextPut, s: s, name: fmt.Sprintf("FailNextPut(%d)", s)})
	}
	add(op{kind: opAddShard, name: "AddShard"})

	// Second search: the engine's own redundancy maintenance. Copies of a regular object on several
	// shards arise from real engine code only: a put while the preferred shard is read-only, an
	// evacuation whose source comes back (Evacuate copies and keeps the source), a shard attached later.
	add2 := func(o op) { u.ops2 = append(u.ops2, o) }
	add2(op{kind: opPut, o: 0, name: "Put(x)"})
	add2(op{kind: opPutWhileRO, o: 0, s: 0, name: "PutWhileShardRO(x,0)"})
	add2(op{kind: opEvacRoundTrip, s: 0, name: "EvacuateRoundTrip(0)"})
	add2(op{kind: opEvacRoundTrip, s: 1, name: "EvacuateRoundTrip(1)"})
	add2(op{kind: opAddShard, name: "AddShard"})
	add2(op{kind: opMaintain, order: []int{0, 1, 2}, name: "RedundancyMaintenance/list-0-first"})
	add2(op{kind: opDelete, o: 0, name: "Delete(x)"})
	if thorough {
		add2(op{kind: opMaintain, order: []int{2, 1, 0}, name: "RedundancyMaintenance/list-2-first"})
		add2(op{kind: opDropRedundant, order: []int{0, 1, 2}, name: "DropRedundantCopies"})
		add2(op{kind: opGCPass, name: "GCPass"})
		add2(op{kind: opPut, o: 1, name: "Put(y)"})
		add2(op{kind: opPutWhileRO, o: 0, s: 2, name: "PutWhileShardRO(x,2)"})
		add2(op{kind: opEvacRoundTrip, s: 2, name: "EvacuateRoundTrip(2)"})
		add2(op{kind: opSetMode, s: 0, m: mode.ReadOnly, name: "SetMode(0,RO)"})
		add2(op{kind: opSetMode, s: 0, m: mode.ReadWrite, name: "SetMode(0,RW)"})
		add2(op{kind: opToggleFailReads, s: 1, name: "ToggleFailReads(1)"})
	}
	return u
}

type sys struct {
	u           *universe
	w           *ew.World
	removed     []string // per object: "" | how it was removed
	unsure      []bool   // per object: a rejected operation may have been half-applied (until a later removal is accepted)
	ops         []op
	put         []bool      // per object: a Put was accepted and stored it
	lostRep     []bool      // per object: its loss has been reported (reported once per history)
	pendingFail [][2]string // failures found by a letter itself, reported by the next observe
	last        string      // kind of the last letter (fingerprint component of the loss rule)
	skipped     []bool      // per object: the accepted removal left an unmarked copy on a shard that was fully able to record it
	// last known metabase verdict per shard/object (the metabase of a degraded shard is closed but
	// its content stays part of the state)
	shadow map[string]string
	fp     string
	what   string
	obs    []string
	hist   []string
}

// every violation class seen, with a shortest history (seqx prints only the first few)
var (
	classMu sync.Mutex
	classes = map[string][]string{}
)

func newSys(u *universe, ops []op) *sys {
	w, err := ew.New(ew.Config{NumShards: 2, ErrorThreshold: u.errT})
	if err != nil {
		panic(err)
	}
	s := &sys{u: u, w: w, removed: make([]string, len(u.objs)), unsure: make([]bool, len(u.objs)), skipped: make([]bool, len(u.objs)), put: make([]bool, len(u.objs)), lostRep: make([]bool, len(u.objs)), ops: ops, shadow: map[string]string{}}
	s.observe()
	return s
}

func (s *sys) Close() { s.w.Close() }

func addrOf(o *object.Object) oid.Address { return oid.NewAddress(cnr, o.GetID()) }

// holders returns the shards whose FSTree physically contains the object (ground truth).
func (s *sys) holders(o *object.Object) []int {
	var r []int
	for i, sh := range s.w.Shards {
		ok, err := sh.Stor.Inner().Exists(addrOf(o))
		if err != nil {
			panic(fmt.Sprintf("ground truth lookup failed: %v", err))
		}
		if ok {
			r = append(r, i)
		}
	}
	return r
}

func errClass(err error) string {
	switch {
	case err == nil:
		return "ok"
	case errors.Is(err, apistatus.ErrObjectAlreadyRemoved):
		return "removed"
	case errors.Is(err, apistatus.ErrObjectNotFound):
		return "404"
	case errors.Is(err, ew.ErrInjectedRead), errors.Is(err, ew.ErrInjectedWrite):
		return "injected"
	}
	var si *object.SplitInfoError
	if errors.As(err, &si) {
		return "splitinfo"
	}
	return "err"
}

func (s *sys) Apply(i int) (string, bool) {
	o := s.ops[i]
	w := s.w
	s.last = ""
	ctx := context.Background()
	var res string
	s.hist = append(s.hist, o.name)
	switch o.kind {
	case opPut:
		res = s.putObj(o.o)
	case opPutWhileRO:
		if o.s >= len(w.Shards) || w.Mode(o.s) != mode.ReadWrite {
			return "", false
		}
		if err := w.SetMode(o.s, mode.ReadOnly); err != nil {
			panic(err)
		}
		res = s.putObj(o.o)
		if err := w.SetMode(o.s, mode.ReadWrite); err != nil {
			panic(err)
		}
	case opEvacRoundTrip:
		if o.s >= len(w.Shards) || len(w.Shards) < 2 || w.Mode(o.s) != mode.ReadWrite {
			return "", false
		}
		if err := w.SetMode(o.s, mode.ReadOnly); err != nil {
			panic(err)
		}
		n, err := w.Eng.Evacuate(ctx, []common.ID{w.Shards[o.s].ID}, false, nil)
		res = fmt.Sprintf("%s/%d", errClass(err), n)
		if err := w.SetMode(o.s, mode.ReadWrite); err != nil {
			panic(err)
		}
	case opMaintain, opDropRedundant, opGCPass:
		s.last = "redundancy-maintenance"
		if o.kind == opGCPass {
			s.last = "gc-pass"
		}
		res = s.maintain(o)
	case opPutTomb:
		uo := s.u.objs[o.o]
		var ord []int
		for _, x := range o.order {
			if x < len(w.Shards) {
				ord = append(ord, x)
			}
		}
		able := s.ableHolders(uo.obj)
		w.SetOrder(ord)
		err := w.Eng.Put(ctx, uo.tomb, nil)
		w.SetOrder(nil)
		res = errClass(err)
		if err == nil {
			if s.removed[o.o] != "tombstone" {
				s.skipped[o.o] = s.healthyHolderUnmarked(uo.obj, able)
			}
			s.removed[o.o] = "tombstone"
			s.unsure[o.o] = false
		} else if len(s.holders(uo.tomb)) > 0 {
			s.unsure[o.o] = true
		}
	case opDelete, opDrop:
		res = s.remove(o.o, o.kind == opDrop)
	case opDeleteWhile:
		if o.s >= len(w.Shards) || w.Mode(o.s) != mode.ReadWrite {
			return "", false
		}
		if err := w.SetMode(o.s, o.m); err != nil {
			panic(err)
		}
		res = s.remove(o.o, false)
		if err := w.SetMode(o.s, mode.ReadWrite); err != nil {
			panic(err)
		}
	case opMarkRedundant:
		uo := s.u.objs[o.o]
		err := w.Eng.Delete(ctx, addrOf(uo.obj), engine.GarbageMarkRedundant)
		res = errClass(err)
		if err != nil {
			s.unsure[o.o] = true
		}
	case opSetMode:
		if o.s >= len(w.Shards) {
			return "", false
		}
		if w.Mode(o.s) == o.m {
			return "", false
		}
		res = errClass(w.SetMode(o.s, o.m))
	case opToggleFailReads:
		st := w.Shards[o.s].Stor
		st.FailReads(!st.ReadsFailing())
		res = fmt.Sprint(st.ReadsFailing())
	case opFailNextPut:
		st := w.Shards[o.s].Stor
		if st.PendingPutFaults() != 0 {
			return "", false
		}
		st.FailPuts(1)
		res = "armed"
	case opAddShard:
		if len(w.Shards) >= 3 {
			return "", false
		}
		_, err := w.AddShard()
		res = errClass(err)
	}
	s.observe()
	return res + "|" + strings.Join(s.obs, ","), true
}

func (s *sys) putObj(oi int) string {
	uo := s.u.objs[oi]
	before := s.holders(uo.obj)
	err := s.w.Eng.Put(context.Background(), uo.obj, nil)
	after := s.holders(uo.obj)
	if err == nil && len(before) == 0 && s.removed[oi] != "" && s.removed[oi] != "tombstone" && len(after) > 0 {
		s.removed[oi] = "" // stored anew after its copies had been removed physically
		s.skipped[oi] = false
	}
	if err == nil && len(after) > 0 {
		s.put[oi] = true
		if len(before) == 0 {
			s.lostRep[oi] = false
		}
	}
	return errClass(err)
}

// maintain drives the engine's redundancy maintenance exactly as the policer does: the shard lists
// come from the engine's own ListWithCursor, DeleteRedundantCopies is called for every regular object
// listed on two or more shards (system objects are skipped by the policer); then (unless disabled) the
// GC remover runs once on every shard. Nothing of this is a removal: every object must stay readable.
func (s *sys) maintain(o op) string {
	w := s.w
	ctx := context.Background()
	var res []string
	type job struct {
		uo      uobj
		holders []int
		able    bool
	}
	var jobs []job
	if o.kind != opGCPass {
		var ord []int
		for _, x := range o.order {
			if x < len(w.Shards) {
				ord = append(ord, x)
			}
		}
		w.SetOrder(ord)
		items, _, err := w.Eng.ListWithCursor(ctx, 100, nil)
		w.SetOrder(nil)
		if err != nil && !errors.Is(err, engine.ErrEndOfListing) {
			res = append(res, "list:"+errClass(err))
		}
		for _, it := range items {
			if len(it.ShardIDs) < 2 || it.Type != object.TypeRegular {
				continue
			}
			err := w.Eng.DeleteRedundantCopies(ctx, it.Address, it.ShardIDs)
			res = append(res, fmt.Sprintf("%d:%s", len(it.ShardIDs), errClass(err)))
			if err != nil {
				continue
			}
			for _, uo := range s.u.objs {
				if addrOf(uo.obj) != it.Address {
					continue
				}
				j := job{uo: uo, able: true}
				for _, id := range it.ShardIDs {
					h := w.Index(id)
					j.holders = append(j.holders, h)
					st := w.Shards[h].Stor
					j.able = j.able && w.Mode(h) == mode.ReadWrite && !st.ReadsFailing()
				}
				jobs = append(jobs, j)
			}
		}
	}
	if o.kind != opDropRedundant {
		for i := range w.Shards {
			w.Shards[i].Sh.VerifEWGCPass()
		}
		// effectiveness of an accepted maintenance over healthy read-write holders: one copy is kept
		for _, j := range jobs {
			if !j.able {
				continue
			}
			left := 0
			for _, h := range j.holders {
				if ok, _ := w.Shards[h].Stor.Inner().Exists(addrOf(j.uo.obj)); ok {
					left++
				}
			}
			if left > 1 {
				s.pendingFail = append(s.pendingFail, [2]string{"redundant-copies-not-dropped:accepted-maintenance-over-healthy-shards",
					fmt.Sprintf("object %s: DeleteRedundantCopies(%v) returned nil, GC ran on every shard, %d copies are left on the listed shards", j.uo.name, j.holders, left)})
			}
		}
	}
	return strings.Join(res, ",")
}

// remove performs an engine Delete (default mark) or Drop and updates the removal history.
func (s *sys) remove(oi int, drop bool) string {
	uo := s.u.objs[oi]
	before := s.holders(uo.obj)
	able := s.ableHolders(uo.obj)
	var err error
	how := "delete-mark"
	if drop {
		err = s.w.Eng.Drop(context.Background(), addrOf(uo.obj))
		how = "drop"
	} else {
		err = s.w.Eng.Delete(context.Background(), addrOf(uo.obj), engine.GarbageMarkDefault)
	}
	switch {
	case err != nil:
		s.unsure[oi] = true
	case len(before) > 0 && (s.removed[oi] == "" || s.unsure[oi]):
		// the removal was accepted: from now on the object must not be served, whatever earlier
		// rejected attempts left behind
		if s.removed[oi] == "" {
			s.removed[oi] = how
		}
		s.unsure[oi] = false
		s.skipped[oi] = s.healthyHolderUnmarked(uo.obj, able)
	}
	return errClass(err)
}

// ableHolders lists (before a removal) the shards that hold a copy and are fully able to record the
// removal: read-write, metabase open, no armed read or write fault.
func (s *sys) ableHolders(o *object.Object) []int {
	var r []int
	for _, h := range s.holders(o) {
		st := s.w.Shards[h].Stor
		if s.w.Mode(h) == mode.ReadWrite && !st.ReadsFailing() && st.PendingPutFaults() == 0 {
			r = append(r, h)
		}
	}
	return r
}

// healthyHolderUnmarked reports whether, right after an accepted removal, one of the shards that were
// able to record it (see ableHolders; still read-write now) keeps regarding the object as available.
func (s *sys) healthyHolderUnmarked(o *object.Object, able []int) bool {
	w := s.w
	for _, h := range able {
		st := w.Shards[h].Stor
		if w.Mode(h) != mode.ReadWrite || st.ReadsFailing() {
			continue
		}
		if ok, _ := st.Inner().Exists(addrOf(o)); !ok {
			continue // physically gone
		}
		if ex, err := w.Shards[h].Sh.Exists(addrOf(o), true); ex && err == nil {
			return true
		}
	}
	return false
}

func (s *sys) allDesc() string {
	var d []string
	for i := range s.w.Shards {
		d = append(d, shardDesc(s.w, i))
	}
	return strings.Join(d, ",")
}

func shardDesc(w *ew.World, i int) string {
	d := map[mode.Mode]string{mode.ReadWrite: "W", mode.ReadOnly: "R", mode.DegradedReadOnly: "D", mode.Degraded: "d"}[w.Mode(i)]
	if w.Shards[i].Stor.ReadsFailing() {
		d += "f"
	}
	return d
}

// observe performs the read round and evaluates the oracle (first failure is kept).
func (s *sys) observe() {
	s.fp, s.what, s.obs = "", "", s.obs[:0]
	ctx := context.Background()
	w := s.w
	// remember the metabase verdicts of the shards whose metabase is open
	for i, sh := range w.Shards {
		if w.Mode(i).NoMetabase() {
			continue
		}
		for _, uo := range s.u.objs {
			for _, o := range []*object.Object{uo.obj, uo.tomb} {
				if o == nil {
					continue
				}
				ex, err := sh.Sh.Exists(addrOf(o), true)
				s.shadow[fmt.Sprintf("%d/%s", i, o.GetID())] = fmt.Sprintf("%v/%s", ex, errClass(err))
			}
		}
	}
	for _, pf := range s.pendingFail {
		s.fail(pf[0], pf[1])
	}
	s.pendingFail = nil
	for oi, uo := range s.u.objs {
		addr := addrOf(uo.obj)
		// an accepted Put that was never followed by a removal attempt: some shard must still hold the
		// object, whatever maintenance the engine ran in between
		if s.put[oi] && s.removed[oi] == "" && !s.unsure[oi] && !s.lostRep[oi] && len(s.holders(uo.obj)) == 0 {
			s.lostRep[oi] = true
			after := s.last
			if after == "" {
				after = "other-letter"
			}
			s.fail("stored-object-lost:no-shard-holds-a-never-removed-object:after="+after,
				fmt.Sprintf("object %s was stored by an accepted Put, no Delete/Drop/tombstone was ever attempted, yet no shard directory contains it any more (shards %s)", uo.name, s.allDesc()))
		}
		for _, rd := range []string{"get", "head", "exists"} {
			// ground truth at the moment of the read (earlier reads may have degraded a shard)
			hs := s.holders(uo.obj)
			readable := false
			var hdesc, odesc []string
			for i := range w.Shards {
				isH := false
				for _, h := range hs {
					isH = isH || h == i
				}
				if isH {
					hdesc = append(hdesc, shardDesc(w, i))
					readable = readable || !w.Shards[i].Stor.ReadsFailing()
				} else {
					odesc = append(odesc, shardDesc(w, i))
				}
			}
			sort.Strings(hdesc)
			sort.Strings(odesc)
			var ok bool
			var cls string
			switch rd {
			case "get":
				got, err := w.Eng.Get(ctx, addr)
				ok, cls = err == nil, errClass(err)
				if err == nil && string(got.Marshal()) != string(uo.obj.Marshal()) {
					s.fail("wrong-bytes:"+rd, fmt.Sprintf("Get(%s) returned a different object", uo.name))
				}
			case "head":
				got, err := w.Eng.Head(ctx, addr, false)
				ok, cls = err == nil, errClass(err)
				if err == nil && got.GetID() != uo.obj.GetID() {
					s.fail("wrong-bytes:"+rd, fmt.Sprintf("Head(%s) returned a different header", uo.name))
				}
			case "exists":
				ex, err := w.Exists(addr)
				ok, cls = ex, errClass(err)
				if ex {
					cls = "true"
				}
			}
			s.obs = append(s.obs, uo.name+"."+rd+"="+cls)
			if s.unsure[oi] {
				continue
			}
			ctxs := fmt.Sprintf("object %s: removed=%q, stored on shards %v (holders %v, other shards %v; W/R/D = read-write/read-only/degraded-read-only, f = reads failing), %s -> %s",
				uo.name, s.removed[oi], hs, hdesc, odesc, rd, cls)
			switch {
			case ok && len(hs) == 0:
				s.fail("phantom:"+rd, ctxs)
			case ok && s.removed[oi] != "":
				s.fail(fmt.Sprintf("removed-object-readable:%s:removed-by=%s", s.mechanism(oi, uo.obj, hs, rd), s.removed[oi]), ctxs)
			case !ok && s.removed[oi] == "" && readable:
				s.fail(fmt.Sprintf("stored-object-hidden:%s:answer=%s", rd, cls), ctxs)
			}
		}
	}
}

// mechanism names why a removed object could be served (normalised class of the failure).
func (s *sys) mechanism(oi int, o *object.Object, hs []int, rd string) string {
	w := s.w
	marked := func(i int) bool {
		v := s.shadow[fmt.Sprintf("%d/%s", i, o.GetID())]
		return v == "false/404" || v == "false/removed"
	}
	anyDegraded := false
	for i := range w.Shards {
		anyDegraded = anyDegraded || w.Mode(i).NoMetabase()
	}
	unmarkedHealthy, degradedMarked, degradedUnmarked := false, false, false
	for _, h := range hs {
		if rd != "exists" && w.Shards[h].Stor.ReadsFailing() {
			continue
		}
		switch {
		case w.Mode(h).NoMetabase() && marked(h):
			degradedMarked = true
		case w.Mode(h).NoMetabase():
			degradedUnmarked = true
		case !marked(h):
			unmarkedHealthy = true
		}
	}
	switch {
	case unmarkedHealthy && s.skipped[oi]:
		// the shard was read-write and fault-free when the removal was accepted, yet it was not told
		return "accepted-removal-skipped-a-healthy-writable-holder-shard"
	case unmarkedHealthy:
		return "removal-not-recorded-on-a-holder-shard"
	case degradedMarked:
		return "degraded-holder-shard-serves-despite-its-removal-mark"
	case degradedUnmarked:
		return "removal-not-recorded-on-a-degraded-holder-shard"
	case anyDegraded && rd == "get":
		return "get-fallback-reads-marked-copy-while-another-shard-is-degraded"
	}
	return "unclassified-" + rd
}

func (s *sys) fail(fp, what string) {
	if s.fp == "" {
		s.fp, s.what = fp, what
	}
	classMu.Lock()
	if h, ok := classes[fp]; !ok || len(s.hist) < len(h) || (len(s.hist) == len(h) && strings.Join(s.hist, ";") < strings.Join(h, ";")) {
		classes[fp] = append([]string(nil), s.hist...)
	}
	classMu.Unlock()
}

func (s *sys) Check() (string, string) { return s.fp, s.what }

func (s *sys) Key() string {
	var sb strings.Builder
	w := s.w
	for i, sh := range w.Shards {
		fmt.Fprintf(&sb, "s%d:%s/p%d/e%d;", i, shardDesc(w, i), sh.Stor.PendingPutFaults(), w.ErrorCount(i))
		for _, uo := range s.u.objs {
			for _, o := range []*object.Object{uo.obj, uo.tomb} {
				if o == nil {
					continue
				}
				ok, _ := sh.Stor.Inner().Exists(addrOf(o))
				fmt.Fprintf(&sb, "%v/%s,", ok, s.shadow[fmt.Sprintf("%d/%s", i, o.GetID())])
			}
		}
	}
	fmt.Fprintf(&sb, "|%v|%v|%v|%v|%v", s.removed, s.unsure, s.skipped, s.put, s.lostRep)
	return sb.String()
}

func main() {
	depth := flag.Int("depth", 0, "override BFS depth of the main search")
	depth2 := flag.Int("depth2", 0, "override BFS depth of the redundancy-maintenance search")
	r := ev.Start("C20", ev.ModelChecking)
	if !ew.Instrumented {
		r.Fatal("built without the verif overlay")
	}
	u := buildUniverse(r.Thorough())
	mk := func(ops []op, depth int) seqx.Config {
		return seqx.Config{NumOps: len(ops), OpName: func(i int) string { return ops[i].name },
			New: func() seqx.Sys { return newSys(u, ops) }, MaxDepth: depth, CheckInit: true}
	}
	d1, d2 := 3, 4
	if r.Thorough() {
		d1, d2 = 4, 5
	}
	if *depth > 0 {
		d1 = *depth
	}
	if *depth2 > 0 {
		d2 = *depth2
	}
	cfg, cfg2 := mk(u.ops, d1), mk(u.ops2, d2)
	if r.Replay != "" {
		// both searches start from the same root; a history is replayed over the union of the alphabets
		union := append([]op(nil), u.ops...)
		for _, o := range u.ops2 {
			dup := false
			for _, p := range u.ops {
				dup = dup || p.name == o.name
			}
			if !dup {
				union = append(union, o)
			}
		}
		var rp struct{ Ops []string }
		r.LoadReplay(&rp)
		fp, what, err := seqx.Replay(mk(union, 0), rp.Ops)
		if err != nil {
			r.Fatal("%v", err)
		}
		if fp != "" {
			r.Violation(fp, what, rp)
		}
		r.Finish()
	}
	res := seqx.Run(r, cfg)
	res2 := seqx.Run(r, cfg2)
	if vmaps.Calls() == 0 {
		r.Fatal("vmaps shim was never called")
	}
	var names, names2 []string
	for _, o := range u.ops {
		names = append(names, o.name)
	}
	for _, o := range u.ops2 {
		names2 = append(names2, o.name)
	}
	r.Set("alphabet", names)
	r.Set("alphabet_redundancy_search", names2)
	r.Set("depth_completed", res.DepthCompleted)
	r.Set("depth_completed_redundancy_search", res2.DepthCompleted)
	r.Set("states_main_search", res.States)
	r.Set("states_redundancy_search", res2.States)
	r.Set("transitions_redundancy_search", res2.Transitions)
	r.Exhaustive(res.Exhaustive && res2.Exhaustive)
	var cls []string
	for fp, h := range classes {
		cls = append(cls, fp+"  <=  "+strings.Join(h, " ; "))
	}
	sort.Strings(cls)
	r.Set("violation_classes", cls)
	for _, c := range cls {
		fmt.Println("  class+history:", c)
	}
	r.Set("outcome_classes", res.ObsClasses+res2.ObsClasses)
	r.Rule(fmt.Sprintf("BFS over %d operations on a real 2-shard engine (error threshold %d, third shard attachable), depth bound %d (completed %d), states deduplicated by (per shard: mode, fault plan, error counter, per object file presence and metabase verdict; model: removed/unsure/skipped flags); the alphabet contains scripted letters 'Delete while shard s is read-only, then s read-write again' so that retried removals over a LINK object stored on every shard are reachable within the bound; after every transition Get/Head/exists of every object are judged against the ground truth of the shard directories, and an object stored by an accepted Put with no removal attempt must still be held by some shard; a second BFS from the same root (depth bound %d, completed %d, %d letters) explores the engine's own redundancy maintenance driven as the policer drives it (ListWithCursor -> DeleteRedundantCopies(addr, ShardIDs) for regular objects on >= 2 shards, then a GC remover pass on every shard) over copies produced by real engine code (put while the preferred shard is read-only, evacuation round trip, shard attached later); non-trivial = newly reached state", len(u.ops), u.errT, cfg.MaxDepth, res.DepthCompleted, cfg2.MaxDepth, res2.DepthCompleted, len(u.ops2)))
	r.Assume(
		"single-threaded histories; the background GC timer never fires (remover interval 24h): GC remover passes are explicit letters of the redundancy-maintenance search (run synchronously through an injected accessor); epochs do not advance, no write-cache",
		"redundancy maintenance is not a removal: fingerprint 'stored-object-lost:no-shard-holds-a-never-removed-object:after=<letter kind>' = an object put successfully and never subjected to Delete/Drop/tombstone is in no shard directory; 'redundant-copies-not-dropped:...' = an accepted DeleteRedundantCopies over healthy read-write holders plus GC left more than one copy",
		"read faults are injected at the blob storage (FSTree wrapper), not at the metabase; write faults fail a blob put before it touches the disk",
		"an object touched by an engine operation that returned an error is not judged until a later removal of it is accepted (half-applied rejected operations are outside the property; an accepted removal must hold whatever was left behind)",
		"fingerprint mechanism 'accepted-removal-skipped-a-healthy-writable-holder-shard' = when the removal was accepted, a shard holding a copy was read-write with no armed fault and still was not told; the older mechanisms cover holder shards that could not record the removal",
		"HRW visiting orders are fixed by the choice of object IDs (x: 0 before 1, new shard first; y: placed by parent ID 1-first, read by own ID 0-first); the shard-map order of the tombstone broadcast is an explicit choice in the alphabet",
	)
	r.Finish()
}
