// C36: alphabet rotation keeps size, uniqueness and the one-third replacement bound.
// Complete enumeration over a universe of 8 keys of (current alphabet, main-net list, inner-ring list),
// through the real newAlphabetList + updateInnerRing composed exactly as processAlphabetSync does.
package main

import (
	"crypto/sha256"
	"fmt"
	"math/bits"
	"sort"

	"github.com/nspcc-dev/neo-go/pkg/crypto/keys"
	"github.com/nspcc-dev/neofs-node/pkg/innerring/processors/governance"
	"github.com/nspcc-dev/neofs-node/verif/lib/enumx"
	"github.com/nspcc-dev/neofs-node/verif/lib/ev"
)

const U = 8

var univ [U]*keys.PublicKey

type tcase struct {
	Current, Mainnet, Extras uint64 // bit masks over the universe
	RevIR                    bool
}

func pick(mask uint64) keys.PublicKeys {
	var r keys.PublicKeys
	for _, i := range enumx.Bits(mask) {
		r = append(r, univ[i])
	}
	return r
}

func maskOf(ks keys.PublicKeys) (m uint64, dup bool) {
	for _, k := range ks {
		found := false
		for i := range univ {
			if univ[i].Equal(k) {
				if m&(1<<uint(i)) != 0 {
					dup = true
				}
				m |= 1 << uint(i)
				found = true
			}
		}
		if !found {
			return ^uint64(0), dup
		}
	}
	return m, dup
}

func main() {
	r := ev.Start("C36", ev.Exploration)
	for i := range univ {
		h := sha256.Sum256([]byte(fmt.Sprintf("verif-key-%d", i)))
		pk, err := keys.NewPrivateKeyFromBytes(h[:])
		if err != nil {
			r.Fatal("key: %v", err)
		}
		univ[i] = pk.PublicKey()
	}
	check := func(c tcase) {
		r.Eval(1)
		n := bits.OnesCount64(c.Current)
		cur := pick(c.Current)
		res, err := governance.VerifNewAlphabetList(cur, pick(c.Mainnet))
		if err != nil {
			r.Violation("unexpected-error", fmt.Sprintf("%+v: %v", c, err), c)
			return
		}
		if res == nil {
			return
		}
		rm, dup := maskOf(res)
		sz := fmt.Sprintf("n=%d", n)
		switch {
		case len(res) != n:
			r.Violation("alphabet-size-changed:"+sz, fmt.Sprintf("%+v -> %d keys", c, len(res)), c)
		case dup:
			r.Violation("alphabet-duplicate:"+sz, fmt.Sprintf("%+v -> duplicate key", c), c)
		case rm&^(c.Current|c.Mainnet) != 0:
			r.Violation("alphabet-foreign-key:"+sz, fmt.Sprintf("%+v -> %b", c, rm), c)
		case bits.OnesCount64(rm&^c.Current) > (n-1)/3:
			r.Violation("alphabet-too-many-new:"+sz, fmt.Sprintf("%+v -> %d new keys > (n-1)/3", c, bits.OnesCount64(rm&^c.Current)), c)
		case rm == c.Current:
			r.Violation("alphabet-proposed-without-change:"+sz, fmt.Sprintf("%+v", c), c)
		case !sort.IsSorted(res):
			r.Violation("alphabet-not-sorted:"+sz, fmt.Sprintf("%+v", c), c)
		}
		// inner ring list: current alphabet + extras, as processAlphabetSync derives it
		ir := pick(c.Current | c.Extras)
		if c.RevIR {
			for i, j := 0, len(ir)-1; i < j; i, j = i+1, j-1 {
				ir[i], ir[j] = ir[j], ir[i]
			}
		}
		nir, err := governance.VerifUpdateInnerRing(ir, cur, res)
		if err != nil {
			r.Violation("ir-update-error", fmt.Sprintf("%+v: %v", c, err), c)
			return
		}
		im, idup := maskOf(nir)
		want := ((c.Current | c.Extras) &^ (c.Current &^ rm)) | (rm &^ c.Current)
		added := rm &^ c.Current
		switch {
		case idup && added&c.Extras != 0:
			r.Violation("ir-duplicate:new-alphabet-key-already-non-alphabet-inner-ring-member", fmt.Sprintf("%+v -> inner ring list has a duplicate key", c), c)
		case idup:
			r.Violation("ir-duplicate:other", fmt.Sprintf("%+v -> inner ring list has a duplicate key", c), c)
		case im != want:
			r.Violation("ir-differs-not-exactly-by-replaced-keys", fmt.Sprintf("%+v -> %b want %b", c, im, want), c)
		}
		r.Nontrivial(fmt.Sprintf("%b/%b/%b", c.Current, rm, im))
		if n >= 4 && c.Extras != 0 {
			r.Sample(map[string]any{"case": c, "new_alphabet_mask": rm, "new_inner_ring_mask": im})
		}
	}
	if r.Replay != "" {
		var c tcase
		r.LoadReplay(&c)
		check(c)
		r.Finish()
	}
	maxN := 7
	var curs []uint64
	enumx.Subsets(U, func(m uint64) bool {
		if k := bits.OnesCount64(m); k >= 1 && k <= maxN {
			curs = append(curs, m)
		}
		return true
	})
	enumx.Parallel(len(curs), func(i int) {
		cur := curs[i]
		n := bits.OnesCount64(cur)
		rest := enumx.Bits(^cur & (1<<U - 1))
		var extras []uint64
		extras = append(extras, 0)
		for a := 0; a < len(rest); a++ {
			extras = append(extras, 1<<uint(rest[a]))
			for b := a + 1; b < len(rest); b++ {
				extras = append(extras, 1<<uint(rest[a])|1<<uint(rest[b]))
			}
		}
		enumx.Subsets(U, func(mn uint64) bool {
			if bits.OnesCount64(mn) < n {
				return true
			}
			for _, ex := range extras {
				check(tcase{cur, mn, ex, false})
				if ex != 0 {
					check(tcase{cur, mn, ex, true})
				}
			}
			return true
		})
	})
	r.Rule("universe of 8 P-256 keys; every current alphabet of size 1..7 x every main-net set with size >= |current| x inner ring = current + every set of <=2 extra keys (both list orders); non-trivial = distinct (current,new alphabet,new inner ring) where a new alphabet was proposed")
	r.Exhaustive(true)
	r.Assume("newAlphabetList/updateInnerRing are composed as in processAlphabetSync (same argument order, in-place sort of the current list)")
	r.Finish()
}
