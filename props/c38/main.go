// C38: network map admission and epoch ticks follow the rules.
//
// Part A (admission): every node descriptor of a menu x {external validator configured or not} x chain verdict on
// the request script, delivered as a raw addNode notary request to a real inner ring server (alphabet member).
// Oracle: the request is co-signed (NotarySignAndInvokeTX with exactly that main transaction) iff the chain says
// the script is valid AND every configured validator, asked ALONE about the descriptor, accepts it.
//
// Part B (epoch ticks): every history of length <= 5 over {NewEpoch(+1), NewEpoch(same), NewEpoch(+2),
// NewEpoch(-1), NewEpoch(+1, unknown tx height), NewEpoch(+1) with a one-shot failure of each chain read its
// handling performs, block reaching the deadline, early block, membership flip},
// from a member and from a non-member start (quick tier: length <= 4). Oracle (reference model of epoch counter and deadline): a block
// that makes the epoch timer fire makes an alphabet member ask netmap.newEpoch(EpochCounter+1) exactly once and
// a non-member never; nothing else ever asks for a new epoch.
package main

import (
	"errors"
	"fmt"
	"math/big"
	"regexp"
	"sort"
	"strings"
	"sync"
	"time"

	"github.com/nspcc-dev/locode-db/pkg/locodedb"
	"github.com/nspcc-dev/neo-go/pkg/crypto/keys"
	"github.com/nspcc-dev/neo-go/pkg/util"
	"github.com/nspcc-dev/neo-go/pkg/vm/stackitem"
	netmapproc "github.com/nspcc-dev/neofs-node/pkg/innerring/processors/netmap"
	"github.com/nspcc-dev/neofs-node/pkg/innerring/processors/netmap/nodevalidation/availability"
	"github.com/nspcc-dev/neofs-node/pkg/innerring/processors/netmap/nodevalidation/external"
	"github.com/nspcc-dev/neofs-node/pkg/innerring/processors/netmap/nodevalidation/locode"
	"github.com/nspcc-dev/neofs-node/pkg/innerring/processors/netmap/nodevalidation/privatedomains"
	statev "github.com/nspcc-dev/neofs-node/pkg/innerring/processors/netmap/nodevalidation/state"
	"github.com/nspcc-dev/neofs-node/pkg/innerring/processors/netmap/nodevalidation/structure"
	"github.com/nspcc-dev/neofs-node/verif/lib/enumx"
	"github.com/nspcc-dev/neofs-node/verif/lib/ev"
	"github.com/nspcc-dev/neofs-node/verif/worlds/irworld"
	"github.com/nspcc-dev/neofs-sdk-go/netmap"
)

// ---------------- Part A ----------------

var (
	keyMenu    = []string{"plain", "listed", "malformed"}
	addrMenu   = []string{"ok", "ok-tls", "udp", "garbage", "down", "liar", "none", "ok+udp"}
	stateMenu  = []string{"online", "maintenance", "offline", "unknown"}
	locodeMenu = []string{"none", "good", "wrong-country", "unknown"}
	domainMenu = []string{"none", "verified", "other"}
	extMenu    = []string{"accept", "reject"}
	cfgMenu    = []string{"no-external", "external"}
	scriptMenu = []string{"valid", "invalid", "error", "valid+error"}
)

type acase struct {
	Key, Addr, State, Locode, Domain, Ext, Cfg, Script int
	Member                                             bool
}

func (c acase) String() string {
	return fmt.Sprintf("key=%s addr=%s state=%s locode=%s domain=%s ext=%s cfg=%s script=%s member=%v", keyMenu[c.Key], addrMenu[c.Addr],
		stateMenu[c.State], locodeMenu[c.Locode], domainMenu[c.Domain], extMenu[c.Ext], cfgMenu[c.Cfg], scriptMenu[c.Script], c.Member)
}

var goodLocode [][2]string // attributes of a node that correctly expands LOCODE "RU MOW"

// learnLocode asks the (black box) LOCODE validator which attribute values it wants for "RU MOW".
func learnLocode() error {
	attrs := [][2]string{{"UN-LOCODE", "RU MOW"}}
	names := map[string]string{"country code": "CountryCode", "country name": "Country", "location": "Location",
		"continent": "Continent", "subdivision code": "SubDivCode", "subdivision name": "SubDiv"}
	re := regexp.MustCompile(`wrong "([a-z ]+)" attribute value: want '"(.*)"', got`)
	for i := 0; i < 10; i++ {
		var ni netmap.NodeInfo
		for _, a := range attrs {
			ni.SetAttribute(a[0], a[1])
		}
		err := locode.New().Verify(ni)
		if err == nil {
			goodLocode = attrs
			return nil
		}
		m := re.FindStringSubmatch(err.Error())
		if m == nil || names[m[1]] == "" {
			return fmt.Errorf("cannot learn LOCODE attributes: %v", err)
		}
		attrs = append(attrs, [2]string{names[m[1]], m[2]})
	}
	return errors.New("cannot learn LOCODE attributes")
}

// descriptor builds (a) the contract structure argument as a stack item and (b) the node information the
// validators are expected to be asked about (nil if the argument cannot denote a node at all).
func descriptor(c acase) (stackitem.Item, *netmap.NodeInfo) {
	label := "plain"
	if keyMenu[c.Key] == "listed" {
		label = "listed"
	}
	_, k := irworld.Node(label)
	keyBytes := k.PublicKey().Bytes()
	if keyMenu[c.Key] == "malformed" {
		keyBytes = keyBytes[:32] // truncated: not a public key
	}
	var addrs []string
	switch addrMenu[c.Addr] {
	case "ok":
		addrs = []string{"/dns4/sn.example/tcp/8080"}
	case "ok-tls":
		addrs = []string{"/dns4/sn.example/tcp/8080/tls"}
	case "udp":
		addrs = []string{"/dns4/sn.example/udp/8080"}
	case "garbage":
		addrs = []string{"this is not an address"}
	case "down":
		addrs = []string{"/dns4/down.example/tcp/8080"}
	case "liar":
		addrs = []string{"/dns4/liar.example/tcp/8080"}
	case "ok+udp":
		addrs = []string{"/dns4/sn.example/tcp/8080", "/dns4/sn.example/udp/8081"}
	}
	attrs := [][2]string{{"Capacity", "100"}}
	switch locodeMenu[c.Locode] {
	case "good":
		attrs = append(attrs, goodLocode...)
	case "wrong-country":
		for _, a := range goodLocode {
			if a[0] == "Country" {
				a[1] += "x"
			}
			attrs = append(attrs, a)
		}
	case "unknown":
		attrs = append(attrs, [2]string{"UN-LOCODE", "XX XXX"})
	}
	switch domainMenu[c.Domain] {
	case "verified":
		attrs = append(attrs, [2]string{"VerifiedNodesDomain", irworld.VerifiedDomain})
	case "other":
		attrs = append(attrs, [2]string{"VerifiedNodesDomain", "some.other.domain"})
	}
	if extMenu[c.Ext] == "reject" {
		attrs = append(attrs, [2]string{"ExternalVerdict", "reject"})
	}
	st := map[string]int64{"online": 1, "offline": 2, "maintenance": 3, "unknown": 9}[stateMenu[c.State]]

	var ai []stackitem.Item
	for _, a := range addrs {
		ai = append(ai, stackitem.NewByteArray([]byte(a)))
	}
	m := stackitem.NewMap()
	for _, a := range attrs {
		m.Add(stackitem.NewByteArray([]byte(a[0])), stackitem.NewByteArray([]byte(a[1])))
	}
	item := stackitem.NewStruct([]stackitem.Item{stackitem.NewArray(ai), m, stackitem.NewByteArray(keyBytes), stackitem.NewBigInteger(big.NewInt(st))})

	if keyMenu[c.Key] == "malformed" {
		return item, nil
	}
	var ni netmap.NodeInfo
	ni.SetPublicKey(keyBytes)
	ni.SetNetworkEndpoints(addrs...)
	for _, a := range attrs {
		ni.SetAttribute(a[0], a[1])
	}
	switch stateMenu[c.State] {
	case "online":
		ni.SetOnline()
	case "maintenance":
		ni.SetMaintenance()
	case "offline":
		ni.SetOffline()
	}
	return item, &ni
}

type nnsFn func(string, string) error

func (f nnsFn) CheckDomainRecord(d, r string) error { return f(d, r) }

// verdicts asks every validator the server is configured with, alone.
func verdicts(c acase, ni netmap.NodeInfo) (rejecters []string) {
	vs := []struct {
		n string
		v netmapproc.NodeValidator
	}{
		{"state", statev.New()}, {"structure", structure.New()}, {"availability", availability.New()},
		{"privatedomains", privatedomains.New(nnsFn(irworld.NNSCheck))}, {"locode", locode.New()},
	}
	if cfgMenu[c.Cfg] == "external" {
		vs = append(vs, struct {
			n string
			v netmapproc.NodeValidator
		}{"external", external.New("http://verif.invalid/validate", irworld.Key("x"))})
	}
	for _, x := range vs {
		if x.v.Verify(ni) != nil {
			rejecters = append(rejecters, x.n)
		}
	}
	return
}

func setMember(w *irworld.World, member bool) {
	w.Lock(func(t *irworld.Tables) {
		var alpha keys.PublicKeys
		for i := 0; i < len(w.Alphabet); i++ {
			alpha = append(alpha, irworld.AlphabetKey(i).PublicKey())
		}
		t.IRList = append(alpha.Copy(), w.NodeKey.PublicKey())
		if member {
			alpha[2] = w.NodeKey.PublicKey()
		}
		t.Committee = alpha
		t.MainAlphabet = alpha.Copy()
	})
}

type aworld struct {
	w     *irworld.World
	nonce uint32
}

func newAWorld(label string, ext bool) (*aworld, error) {
	w, err := irworld.New(label, irworld.Options{ExternalValidator: ext, NoStart: true}, nil)
	if err != nil {
		return nil, err
	}
	setMember(w, true)
	if err := w.Start(); err != nil {
		return nil, err
	}
	w.TakeCalls()
	return &aworld{w: w}, nil
}

// checkA returns (approved, expected, class).
func checkA(r *ev.Run, aw *aworld, c acase) {
	w := aw.w
	item, ni := descriptor(c)
	setMember(w, c.Member)
	w.Lock(func(t *irworld.Tables) {
		t.ValidScript = strings.HasPrefix(scriptMenu[c.Script], "valid")
		t.ValidScriptErr = nil
		if strings.HasSuffix(scriptMenu[c.Script], "error") {
			t.ValidScriptErr = errors.New("verif: test invocation failed")
		}
	})
	aw.nonce++
	nr := w.Request(irworld.Script(irworld.CallSpec{Contract: w.Netmap, Method: "addNode", Args: []any{item}}), irworld.NROpt{Invoker: true, Nonce: aw.nonce})
	w.Notary(nr)
	calls := w.TakeCalls()

	var rej []string
	txValid := scriptMenu[c.Script] == "valid" && ni != nil
	if ni != nil {
		rej = verdicts(c, *ni)
	}
	expected := c.Member && txValid && len(rej) == 0
	approved := false
	var other []string
	for _, x := range calls {
		if x.Method == "NotarySignAndInvokeTX" && x.TxHash == nr.MainTransaction.Hash().StringLE() {
			if approved {
				other = append(other, "duplicate approval")
			}
			approved = true
		} else if x.Class == "alphabet" {
			other = append(other, x.String())
		}
	}
	why := "tx-invalid"
	if !c.Member {
		why = "not-alphabet"
	} else if txValid {
		why = "validators:" + strings.Join(rej, "+")
	}
	r.Eval(1)
	class := fmt.Sprintf("approved=%v/%s/cfg=%s", approved, why, cfgMenu[c.Cfg])
	classMu.Lock()
	classes[class]++
	classMu.Unlock()
	if c.Member && txValid && len(rej) <= 1 {
		r.Nontrivial("A:" + class + "/" + c.String()) // accepted, or rejected by exactly one validator
	}
	switch {
	case approved && !expected:
		r.Violation("admission-approved-but-should-not/"+why+"/cfg="+cfgMenu[c.Cfg], "approved: "+c.String()+" rejecters="+fmt.Sprint(rej), c)
	case !approved && expected:
		r.Violation("admission-refused-although-all-accept/cfg="+cfgMenu[c.Cfg], "not approved: "+c.String(), c)
	case len(other) > 0:
		r.Violation("admission-unexpected-chain-call", c.String()+": "+strings.Join(other, "; "), c)
	}
	if approved && c.Locode == 1 && c.Key == 1 && c.Addr == 1 {
		r.Sample(map[string]any{"part": "admission", "case": c.String(), "approved": approved})
	}
}

var (
	classMu sync.Mutex
	classes = map[string]int{}
)

// ---------------- Part C: LOCODE-derived attributes against the LOCODE database ----------------

// the six attributes a candidate with UN-LOCODE must expand, in the validator's vocabulary
var locAttrs = []string{"CountryCode", "Country", "Location", "Continent", "SubDivCode", "SubDiv"}

type locRecord struct {
	Locode string
	Want   [6]string // what the LOCODE DB derives (reference data, read with locodedb.Get, not through the validator)
	Shape  string
}

// candidate locations probed in the embedded DB; every shape of record that occurs among them is used
var locCandidates = []string{"RU MOW", "DE BER", "US NYC", "FI HEL", "JP TYO", "SG SIN", "LU LUX", "NL AMS", "HK HKG", "IS REY",
	"MC MON", "MT MLA", "AQ MCM", "GI GIB", "VA VAT", "FR PAR", "GB LON", "AU SYD", "BR RIO", "ZA CPT", "CN SHA", "IN BOM", "AE DXB", "GL GOH"}

func locRecords() ([]locRecord, error) {
	var rs []locRecord
	perShape := map[string]int{}
	for _, lc := range locCandidates {
		rec, err := locodedb.Get(lc)
		if err != nil {
			continue
		}
		w := [6]string{lc[:2], rec.Country, rec.Location, rec.Cont.String(), rec.SubDivCode, rec.SubDivName}
		shape := ""
		for i, v := range w {
			if v == "" {
				shape += "-no" + locAttrs[i]
			}
		}
		if rec.Cont == locodedb.ContinentUnknown {
			shape += "-unknownContinent"
		}
		if shape == "" {
			shape = "full"
		}
		if perShape[shape] >= 2 {
			continue
		}
		perShape[shape]++
		rs = append(rs, locRecord{lc, w, shape})
	}
	if perShape["full"] == 0 || perShape["-noSubDivCode-noSubDiv"] == 0 {
		return nil, fmt.Errorf("LOCODE DB shapes found among the candidates: %v (need records with and without subdivision)", perShape)
	}
	return rs, nil
}

// ccase: Decl[i] = 0 attribute absent, 1 declared with the DB value, 2 declared with another value
// (for an attribute whose DB value is empty only 0 and 2 exist: 2 = "present while the DB derives nothing").
type ccase struct {
	Rec  int
	Decl [6]int
	Cfg  int
}

func checkC(r *ev.Run, aw *aworld, recs []locRecord, c ccase) {
	w := aw.w
	rec := recs[c.Rec]
	_, k := irworld.Node("plain")
	attrs := [][2]string{{"Capacity", "100"}, {"UN-LOCODE", rec.Locode}}
	var wrong, missing []string
	for i, d := range c.Decl {
		switch d {
		case 1:
			attrs = append(attrs, [2]string{locAttrs[i], rec.Want[i]})
		case 2:
			attrs = append(attrs, [2]string{locAttrs[i], rec.Want[i] + "X"})
			if rec.Want[i] == "" {
				wrong = append(wrong, locAttrs[i]+":declared-while-db-empty")
			} else {
				wrong = append(wrong, locAttrs[i]+":differs")
			}
		case 0:
			if rec.Want[i] != "" {
				missing = append(missing, locAttrs[i])
			}
		}
	}
	m := stackitem.NewMap()
	for _, a := range attrs {
		m.Add(stackitem.NewByteArray([]byte(a[0])), stackitem.NewByteArray([]byte(a[1])))
	}
	item := stackitem.NewStruct([]stackitem.Item{stackitem.NewArray([]stackitem.Item{stackitem.NewByteArray([]byte("/dns4/sn.example/tcp/8080"))}),
		m, stackitem.NewByteArray(k.PublicKey().Bytes()), stackitem.NewBigInteger(big.NewInt(1))})
	setMember(w, true)
	w.Lock(func(t *irworld.Tables) { t.ValidScript, t.ValidScriptErr = true, nil })
	aw.nonce++
	nr := w.Request(irworld.Script(irworld.CallSpec{Contract: w.Netmap, Method: "addNode", Args: []any{item}}), irworld.NROpt{Invoker: true, Nonce: aw.nonce})
	w.Notary(nr)
	approved := false
	for _, x := range w.TakeCalls() {
		if x.Method == "NotarySignAndInvokeTX" && x.TxHash == nr.MainTransaction.Hash().StringLE() {
			approved = true
		}
	}
	r.Eval(1)
	verdict := "all-declared-equal-db"
	switch {
	case len(wrong) > 0:
		verdict = "declares-wrong"
	case len(missing) > 0:
		verdict = "omits-derived-attribute"
	}
	classMu.Lock()
	classes[fmt.Sprintf("locode/%s/%s/approved=%v", rec.Shape, verdict, approved)]++
	classMu.Unlock()
	if len(wrong) <= 1 && len(missing) == 0 {
		r.Nontrivial(fmt.Sprintf("C:%s/%v", rec.Locode, c.Decl))
	}
	desc := fmt.Sprintf("UN-LOCODE=%q (db: %v) declared=%v cfg=%s", rec.Locode, rec.Want, attrs[2:], cfgMenu[c.Cfg])
	switch {
	case approved && len(wrong) > 0:
		sort.Strings(wrong)
		kinds := map[string]bool{}
		for _, x := range wrong {
			kinds[x] = true
		}
		var ks []string
		for x := range kinds {
			ks = append(ks, x)
		}
		sort.Strings(ks)
		r.Violation("locode-admitted-with-wrong-derived-attribute/record="+rec.Shape+"/"+strings.Join(ks, "+"), "admitted: "+desc, c)
	case !approved && len(wrong) == 0 && len(missing) == 0:
		r.Violation("locode-refused-although-all-derived-attributes-match/record="+rec.Shape, "refused: "+desc, c)
	}
	if approved && rec.Shape != "full" && r.WantSample() {
		r.Sample(map[string]any{"part": "locode", "locode": rec.Locode, "db": rec.Want, "declared": attrs[2:], "approved": approved})
	}
}

// ---------------- Part D: the declared node state as an arbitrary script integer ----------------

func stateValues() (names []string, vals []*big.Int) {
	p := func(e uint) *big.Int { return new(big.Int).Lsh(big.NewInt(1), e) }
	add := func(n string, v *big.Int) { names = append(names, n); vals = append(vals, v) }
	add("0", big.NewInt(0))
	add("1(online)", big.NewInt(1))
	add("2(offline)", big.NewInt(2))
	add("3(maintenance)", big.NewInt(3))
	add("4", big.NewInt(4))
	add("-1", big.NewInt(-1))
	add("-3", big.NewInt(-3))
	add("2^32+1", new(big.Int).Add(p(32), big.NewInt(1)))
	add("2^63", p(63))
	add("2^63+1", new(big.Int).Add(p(63), big.NewInt(1)))
	add("2^64+1", new(big.Int).Add(p(64), big.NewInt(1)))
	add("2^64+3", new(big.Int).Add(p(64), big.NewInt(3)))
	add("2^65+1", new(big.Int).Add(p(65), big.NewInt(1)))
	add("2^128+1", new(big.Int).Add(p(128), big.NewInt(1)))
	add("2^128+3", new(big.Int).Add(p(128), big.NewInt(3)))
	add("-(2^64)+1", new(big.Int).Add(new(big.Int).Neg(p(64)), big.NewInt(1)))
	add("-(2^64)+3", new(big.Int).Add(new(big.Int).Neg(p(64)), big.NewInt(3)))
	add("2^255-1(max)", new(big.Int).Sub(p(255), big.NewInt(1)))
	add("-(2^255)(min)", new(big.Int).Neg(p(255)))
	return
}

type dcase struct{ State, Cfg int }

func checkD(r *ev.Run, aw *aworld, c dcase) {
	names, vals := stateValues()
	w := aw.w
	_, k := irworld.Node("plain")
	m := stackitem.NewMap()
	m.Add(stackitem.NewByteArray([]byte("Capacity")), stackitem.NewByteArray([]byte("100")))
	item := stackitem.NewStruct([]stackitem.Item{stackitem.NewArray([]stackitem.Item{stackitem.NewByteArray([]byte("/dns4/sn.example/tcp/8080"))}),
		m, stackitem.NewByteArray(k.PublicKey().Bytes()), stackitem.NewBigInteger(vals[c.State])})
	setMember(w, true)
	w.Lock(func(t *irworld.Tables) { t.ValidScript, t.ValidScriptErr = true, nil })
	aw.nonce++
	nr := w.Request(irworld.Script(irworld.CallSpec{Contract: w.Netmap, Method: "addNode", Args: []any{item}}), irworld.NROpt{Invoker: true, Nonce: aw.nonce})
	w.Notary(nr)
	approved := false
	for _, x := range w.TakeCalls() {
		if x.Method == "NotarySignAndInvokeTX" && x.TxHash == nr.MainTransaction.Hash().StringLE() {
			approved = true
		}
	}
	r.Eval(1)
	allowed := vals[c.State].Cmp(big.NewInt(1)) == 0 || vals[c.State].Cmp(big.NewInt(3)) == 0 // exactly ONLINE or MAINTENANCE
	classMu.Lock()
	classes[fmt.Sprintf("state-integer/allowed=%v/approved=%v", allowed, approved)]++
	classMu.Unlock()
	r.Nontrivial("D:" + names[c.State] + "/" + cfgMenu[c.Cfg])
	size := "fits-int64"
	if !vals[c.State].IsInt64() {
		size = "beyond-int64"
	}
	switch {
	case approved && !allowed:
		r.Violation("admitted-with-state-integer-that-is-no-allowed-state/"+size, fmt.Sprintf("node state %s admitted (cfg=%s)", names[c.State], cfgMenu[c.Cfg]), c)
	case !approved && allowed:
		r.Violation("refused-with-allowed-state-integer", fmt.Sprintf("node state %s refused (cfg=%s)", names[c.State], cfgMenu[c.Cfg]), c)
	}
}

// ---------------- Part B ----------------

var opNames = []string{"NewEpoch+1", "NewEpoch=", "NewEpoch+2", "NewEpoch-1", "NewEpoch+1/unknown-tx-height", "block@deadline", "block-early", "flip-membership"}

const baseOps = 8

// fault letters (appended to opNames at start): "NewEpoch+1 while the k-th read named R made by the handling fails".
// They are learnt from the reads the real NewEpoch handling performs (through the client hook).
type faultLetter struct {
	Read string
	Nth  int
}

var faults []faultLetter

func learnFaultLetters() error {
	aw, err := newAWorld("learn", false)
	if err != nil {
		return err
	}
	defer aw.w.Close()
	w := aw.w
	if err := resetB(w, true); err != nil {
		return err
	}
	tx := irworld.Hash256("learn")
	w.Lock(func(t *irworld.Tables) { t.Epoch, t.LastEpochBlock, t.BlockCount = e0+1, h0+1, h0+2; t.TxHeight[tx] = h0 + 1 })
	w.TraceReads = true
	w.TakeReads()
	w.Notify("fs", w.Netmap, "NewEpoch", tx, stackitem.NewBigInteger(big.NewInt(e0+1)))
	seen := map[string]int{}
	for _, rd := range w.TakeReads() {
		if !irworld.FaultableRead(rd) {
			continue // membership lookups (Committee, inner ring list) are C35's dimension; the rest cannot fail in the model
		}
		seen[rd]++
		faults = append(faults, faultLetter{rd, seen[rd]})
	}
	if len(faults) < 4 {
		return fmt.Errorf("NewEpoch handling performed only these faultable reads: %v", faults)
	}
	for _, f := range faults {
		opNames = append(opNames, fmt.Sprintf("NewEpoch+1/fail:%s#%d", f.Read, f.Nth))
	}
	return nil
}

// timerState reads the real epoch timer (next tick timestamp, already fired).
func timerState(w *irworld.World) (next uint64, done bool) {
	if _, err := fmt.Sscanf(w.Srv.VerifTimers(), "e:%d/%t", &next, &done); err != nil {
		panic(err)
	}
	return
}

type bcase struct {
	StartMember bool
	Ops         []int
}

const (
	e0   = 10
	l0   = 50
	h0   = 60
	durS = 100
)

func resetB(w *irworld.World, member bool) error {
	setMember(w, member)
	w.Lock(func(t *irworld.Tables) {
		t.Epoch, t.LastEpochBlock, t.BlockCount, t.EpochDuration = e0, l0, h0, durS
		t.TxHeight = map[util.Uint256]uint32{}
	})
	if err := w.Srv.VerifRestartFSChain(); err != nil {
		return err
	}
	w.Quiesce()
	w.TakeCalls()
	if w.Srv.EpochCounter() != e0 {
		return fmt.Errorf("reset: epoch counter %d", w.Srv.EpochCounter())
	}
	return nil
}

func checkB(r *ev.Run, w *irworld.World, initDump string, c bcase, seq int) {
	if err := resetB(w, c.StartMember); err != nil {
		r.Fatal("%v", err)
	}
	if d := w.Srv.VerifTimers(); d != initDump {
		r.Fatal("reset does not restore the timers: %q vs %q", d, initDump)
	}
	// reference model
	E := uint64(e0)
	deadline := uint64(l0)*1000 + durS*1000
	done := false
	H := uint32(h0)
	member := c.StartMember
	faulted := false // a read failed while handling the last NewEpoch: the timer may legitimately not have been re-armed
	var trace []string
	for step, op := range c.Ops {
		var want []string
		switch {
		case op >= baseOps:
			// NewEpoch(E+1) is delivered while one read of its handling fails. Reference: the epoch IS E+1 from now on.
			fl := faults[op-baseOps]
			n := E + 1
			H++
			tx := irworld.Hash256(fmt.Sprintf("newepoch/%d/%d", seq, step))
			w.Lock(func(t *irworld.Tables) {
				t.Epoch, t.LastEpochBlock, t.BlockCount = n, H, H+1
				t.TxHeight[tx] = H
				t.SetReadFault(fl.Read, fl.Nth)
			})
			w.Notify("fs", w.Netmap, "NewEpoch", tx, stackitem.NewBigInteger(new(big.Int).SetUint64(n)))
			w.Lock(func(t *irworld.Tables) { t.SetReadFault("", 0) })
			E, faulted = n, true
			deadline, done = timerState(w)
		case op <= 4:
			faulted = false
			n := map[int]uint64{0: E + 1, 1: E, 2: E + 2, 3: E - 1, 4: E + 1}[op]
			H++
			tx := irworld.Hash256(fmt.Sprintf("newepoch/%d/%d", seq, step))
			w.Lock(func(t *irworld.Tables) {
				t.Epoch, t.LastEpochBlock, t.BlockCount = n, H, H+1
				if op != 4 {
					t.TxHeight[tx] = H
				}
			})
			w.Notify("fs", w.Netmap, "NewEpoch", tx, stackitem.NewBigInteger(new(big.Int).SetUint64(n)))
			E, deadline, done = n, uint64(H)*1000+durS*1000, false
		case op == 5 || op == 6:
			if faulted {
				// when the timer fires is the timers' business (C40): take it from the real timer
				deadline, done = timerState(w)
			}
			if op == 5 {
				if uint64(H+1)*1000 < deadline {
					H = uint32(deadline / 1000)
				} else {
					H++
				}
			} else {
				H++
			}
			w.Header(H)
			if !done && deadline <= uint64(H)*1000 {
				done = true
				if member {
					want = []string{fmt.Sprintf("[%d]", E+1)}
				}
			}
		case op == 7:
			member = !member
			setMember(w, member)
		}
		var got []string
		for _, x := range w.TakeCalls() {
			if x.Op == "newEpoch" {
				got = append(got, x.Args)
			}
		}
		trace = append(trace, fmt.Sprintf("%s->%v", opNames[op], got))
		r.Transition(1)
		if fmt.Sprint(got) != fmt.Sprint(want) {
			kind := "wrong-epoch-or-count"
			switch {
			case len(want) == 0 && !member && len(got) > 0:
				kind = "non-alphabet-ticks"
			case len(want) == 0:
				kind = "tick-without-timer-fire"
			case len(got) == 0:
				kind = "no-tick-on-timer-fire"
			}
			r.Violation("epoch-tick/"+kind+"/after="+opNames[op], fmt.Sprintf("history %v (start member=%v): step %d got newEpoch%v want %v", trace, c.StartMember, step, got, want), c)
			return
		}
		if len(want) > 0 {
			r.Nontrivial(fmt.Sprintf("B:tick E=%d member-start=%v prefix=%v", E, c.StartMember, c.Ops[:step+1]))
		}
		if w.Srv.EpochCounter() != E {
			r.Violation("epoch-counter-differs-from-last-notification", fmt.Sprintf("history %v: counter %d want %d", trace, w.Srv.EpochCounter(), E), c)
			// keep going: a later tick shows what the node then asks for
		}
	}
	r.Eval(1)
	r.TraceOK(1)
	if len(c.Ops) == 5 && c.Ops[0] == 0 && c.Ops[1] == 5 && c.Ops[2] == 7 && r.WantSample() {
		r.Sample(map[string]any{"part": "epoch-history", "start_member": c.StartMember, "trace": trace})
	}
}

func main() {
	r := ev.Start("C38", ev.Exploration)
	if err := learnLocode(); err != nil {
		r.Fatal("%v", err)
	}
	if err := learnFaultLetters(); err != nil {
		r.Fatal("%v", err)
	}
	if r.Replay != "" {
		var raw map[string]any
		r.LoadReplay(&raw)
		if _, ok := raw["State"]; ok && len(raw) == 2 {
			var c dcase
			r.LoadReplay(&c)
			aw, err := newAWorld("replay", cfgMenu[c.Cfg] == "external")
			if err != nil {
				r.Fatal("%v", err)
			}
			checkD(r, aw, c)
		} else if _, ok := raw["Decl"]; ok {
			var c ccase
			r.LoadReplay(&c)
			recs, err := locRecords()
			if err != nil {
				r.Fatal("%v", err)
			}
			aw, err := newAWorld("replay", cfgMenu[c.Cfg] == "external")
			if err != nil {
				r.Fatal("%v", err)
			}
			checkC(r, aw, recs, c)
		} else if _, ok := raw["Ops"]; ok {
			var c bcase
			r.LoadReplay(&c)
			aw, err := newAWorld("replay", false)
			if err != nil {
				r.Fatal("%v", err)
			}
			if err := resetB(aw.w, true); err != nil {
				r.Fatal("%v", err)
			}
			checkB(r, aw.w, aw.w.Srv.VerifTimers(), c, 0)
		} else {
			var c acase
			r.LoadReplay(&c)
			aw, err := newAWorld("replay", cfgMenu[c.Cfg] == "external")
			if err != nil {
				r.Fatal("%v", err)
			}
			checkA(r, aw, c)
		}
		irworld.CloseAll()
	r.Finish()
	}

	t0 := time.Now()
	// ---- Part A ----
	sizes := []int{len(keyMenu), len(addrMenu), len(stateMenu), len(locodeMenu), len(domainMenu), len(extMenu), len(cfgMenu), len(scriptMenu)}
	var acases []acase
	enumx.Product(sizes, func(i []int) bool {
		acases = append(acases, acase{i[0], i[1], i[2], i[3], i[4], i[5], i[6], i[7], true})
		// the same descriptor seen by a node outside the alphabet: only for the fully valid script
		if i[7] == 0 {
			acases = append(acases, acase{i[0], i[1], i[2], i[3], i[4], i[5], i[6], i[7], false})
		}
		return true
	})
	const shards = 32
	exhaustive := true
	enumx.Parallel(shards, func(s int) {
		ws := map[int]*aworld{}
		for i := s; i < len(acases); i += shards {
			if r.Expired() {
				exhaustive = false
				return
			}
			c := acases[i]
			aw := ws[c.Cfg]
			if aw == nil {
				var err error
				aw, err = newAWorld(fmt.Sprintf("A/%d/%d", s, c.Cfg), cfgMenu[c.Cfg] == "external")
				if err != nil {
					r.Fatal("world: %v", err)
				}
				ws[c.Cfg] = aw
			}
			checkA(r, aw, c)
		}
		for _, aw := range ws {
			aw.w.Close()
		}
	})

	r.Set("part_a_wall_s", time.Since(t0).Seconds())
	// ---- Part C ----
	recs, err := locRecords()
	if err != nil {
		r.Fatal("%v", err)
	}
	var ccases []ccase
	for ri, rec := range recs {
		var sizes []int
		for _, v := range rec.Want {
			if v == "" {
				sizes = append(sizes, 2)
			} else {
				sizes = append(sizes, 3)
			}
		}
		enumx.Product(sizes, func(i []int) bool {
			var d [6]int
			for k, v := range i {
				d[k] = v
				if rec.Want[k] == "" && v == 1 {
					d[k] = 2
				}
			}
			for cfg := range cfgMenu {
				ccases = append(ccases, ccase{ri, d, cfg})
			}
			return true
		})
	}
	enumx.Parallel(shards, func(s int) {
		ws := map[int]*aworld{}
		for i := s; i < len(ccases); i += shards {
			if r.Expired() {
				exhaustive = false
				break
			}
			c := ccases[i]
			if ws[c.Cfg] == nil {
				aw, err := newAWorld(fmt.Sprintf("C/%d/%d", s, c.Cfg), cfgMenu[c.Cfg] == "external")
				if err != nil {
					r.Fatal("world: %v", err)
				}
				ws[c.Cfg] = aw
			}
			checkC(r, ws[c.Cfg], recs, c)
		}
		for _, aw := range ws {
			aw.w.Close()
		}
	})
	r.Set("locode_cases", len(ccases))
	r.Set("locode_records", recs)
	// ---- Part D ----
	{
		names, _ := stateValues()
		for cfg := range cfgMenu {
			aw, err := newAWorld(fmt.Sprintf("D/%d", cfg), cfgMenu[cfg] == "external")
			if err != nil {
				r.Fatal("world: %v", err)
			}
			for si := range names {
				checkD(r, aw, dcase{si, cfg})
			}
			aw.w.Close()
		}
		r.Set("state_integers", names)
	}
	// ---- Part B ----
	// quick: length <= 4, at most one fault letter per history; thorough: length <= 5 over all letters plus
	// length 6 over the 8 fault-free letters
	depth := 5
	if r.Quick() {
		depth = 4
	}
	var bcases []bcase
	for d := 1; d <= depth; d++ {
		enumx.Seqs(len(opNames), d, func(s []int) bool {
			nf := 0
			for _, o := range s {
				if o >= baseOps {
					nf++
				}
			}
			if r.Quick() && nf > 1 {
				return true
			}
			for _, m := range []bool{true, false} {
				bcases = append(bcases, bcase{m, append([]int{}, s...)})
			}
			return true
		})
	}
	if !r.Quick() {
		enumx.Seqs(baseOps, 6, func(s []int) bool {
			for _, m := range []bool{true, false} {
				bcases = append(bcases, bcase{m, append([]int{}, s...)})
			}
			return true
		})
	}
	enumx.Parallel(shards, func(s int) {
		aw, err := newAWorld(fmt.Sprintf("B/%d", s), false)
		if err != nil {
			r.Fatal("world: %v", err)
		}
		defer aw.w.Close()
		if err := resetB(aw.w, true); err != nil {
			r.Fatal("%v", err)
		}
		initDump := aw.w.Srv.VerifTimers()
		for i := s; i < len(bcases); i += shards {
			if r.Expired() {
				exhaustive = false
				return
			}
			checkB(r, aw.w, initDump, bcases[i], i)
		}
	})

	var cl []string
	for k, n := range classes {
		cl = append(cl, fmt.Sprintf("%s x%d", k, n))
	}
	sort.Strings(cl)
	r.Set("outcome_classes", len(cl))
	r.Set("admission_outcome_classes", cl)
	r.Set("admission_cases", len(acases))
	r.Set("epoch_histories", len(bcases))
	r.Set("epoch_history_depth", depth)
	r.Set("epoch_history_letters", opNames)
	r.Rule("A: full product key{plain,NNS-listed,malformed} x endpoints{ok,ok-tls,udp,garbage,unreachable,lying,none,ok+udp} x state{online,maintenance,offline,unknown} x LOCODE{none,good,wrong country,unknown} x verified domain{none,listed domain,other} x external verdict{accept,reject} x external validator configured{no,yes} x chain verdict on script{valid,invalid,error,valid+error} in member state (+ the valid-script half again for a non-member); non-trivial = member, valid tx, and at most one validator rejects. C: for every LOCODE DB record shape found among 24 probed locations (at most 2 records per shape; shapes with and without subdivision required) every declaration vector of the six derived attributes {absent, DB value, other value} (an attribute the DB leaves empty: {absent, declared}) x external validator configured{no,yes}, otherwise flawless candidate; non-trivial = at most one wrong attribute and none omitted. D: the declared node state as a script integer {0,1,2,3,4,-1,-3,2^32+1,2^63,2^63+1,2^64+1,2^64+3,2^65+1,2^128+1,2^128+3,-(2^64)+1,-(2^64)+3,2^255-1,-(2^255)} x external validator configured{no,yes}, otherwise flawless candidate: admitted iff the integer is exactly 1 or 3. B: every operation history over 8 fault-free letters + one letter 'NewEpoch+1 while the k-th read R of its handling fails' per faultable read the real handler performs (learnt through the hook: epoch duration x2, tx height, block header, netmap snapshot), from member and non-member start; quick: length 1..4 with at most one fault letter; thorough: length 1..5 over all letters and length 6 over the fault-free ones; non-trivial = distinct history prefix ending in a timer fire answered by a tick")
	r.Exhaustive(exhaustive)
	r.Assume("C: reference = the LOCODE DB record read with locodedb.Get: a candidate declaring any derived attribute different from the DB (or declaring one the DB leaves empty) must be refused, a candidate declaring exactly the DB values must be admitted; candidates that merely omit a derived attribute are executed and counted but not judged",
		"the availability validator's dial, the external validator's HTTP call and the NNS read are environment: answered as pure functions of the descriptor",
		"the per-validator verdict used by the oracle is the verdict of that validator's own Verify called alone on the descriptor (the composition and the wiring are under test, not each validator's rules)",
		"a malformed public key argument makes the request transaction invalid",
		"B: between histories the server is re-initialised by its own RPC-reconnection routine (restartFSChain); the harness checks epoch counter and timer state equal the initial ones",
		"block i has timestamp i*1000 ms; epoch duration 100 s; the header of the NewEpoch block itself is not delivered")
	irworld.CloseAll()
	r.Finish()
}
