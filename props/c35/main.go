// C35: inner ring nodes outside the alphabet never act with alphabet authority; a member acts at most once.
//
// Every case builds a REAL innerring.Server (innerring.New + Server.Start) over an interposed morph client
// (irworld) in one alphabet state, delivers one well-formed raw event of one registered kind (the kinds are
// read from the listeners' registration tables, so a newly registered handler without a fixture is a harness
// error, not silence), waits deterministically for the worker pools and inspects the recorded chain-mutating
// client calls.
package main

import (
	"errors"
	"flag"
	"fmt"
	"sort"
	"strings"
	"sync"

	"github.com/nspcc-dev/neo-go/pkg/crypto/keys"
	"github.com/nspcc-dev/neo-go/pkg/util"
	"github.com/nspcc-dev/neofs-node/pkg/morph/event"
	"github.com/nspcc-dev/neofs-node/verif/lib/enumx"
	"github.com/nspcc-dev/neofs-node/verif/lib/ev"
	"github.com/nspcc-dev/neofs-node/verif/worlds/irworld"
	"github.com/nspcc-dev/neofs-sdk-go/netmap"
	"go.uber.org/zap"
)

type tcase struct {
	State    string
	Delivery string
}

var verbose = flag.Bool("v", false, "log the inner ring's output (useful with -replay)")

// alphabet states of the node. member=true only for the first.
var states = []string{"member", "ir-nonmember-index-in-range", "ir-nonmember-index-out-of-range", "outsider-index-minus-1", "committee-lookup-error", "irlist-lookup-error"}

func applyState(w *irworld.World, st string) {
	me := w.NodeKey.PublicKey()
	w.Lock(func(t *irworld.Tables) {
		var alpha keys.PublicKeys
		for i := 0; i < len(w.Alphabet); i++ {
			alpha = append(alpha, irworld.AlphabetKey(i).PublicKey())
		}
		t.CommitteeErr, t.IRListErr = nil, nil
		switch st {
		case "member":
			alpha[1] = me
			t.Committee = alpha
			t.IRList = append(alpha.Copy(), irworld.Key("ir-extra").PublicKey())
		case "ir-nonmember-index-in-range":
			t.Committee = alpha
			t.IRList = append(keys.PublicKeys{me}, alpha...)
		case "ir-nonmember-index-out-of-range":
			t.Committee = alpha
			t.IRList = append(alpha.Copy(), me)
		case "outsider-index-minus-1":
			t.Committee = alpha
			t.IRList = alpha.Copy()
		case "committee-lookup-error":
			alpha[1] = me // would be a member, but the committee cannot be read
			t.Committee = alpha
			t.IRList = alpha.Copy()
			t.CommitteeErr = errors.New("verif: committee lookup failed")
		case "irlist-lookup-error":
			alpha[1] = me
			t.Committee = alpha
			t.IRList = alpha.Copy()
			t.IRListErr = errors.New("verif: inner ring list lookup failed")
		default:
			panic("state " + st)
		}
		// main chain wants one alphabet key replaced => governance has work to do
		t.MainAlphabet = t.Committee.Copy()
		t.MainAlphabet[len(t.MainAlphabet)-1] = irworld.Key("new-mainnet-alphabet").PublicKey()
		sort.Sort(t.MainAlphabet)
	})
}

type outcome struct {
	alphabet []irworld.Call // calls needing alphabet authority made by the delivery
	own      int
	redeliv  []irworld.Call // calls made by delivering the same notary request again
	err      error
}

func newWorld(c tcase) (*irworld.World, *irworld.Fixture, error) {
	var f *irworld.Fixture
	o := irworld.Options{StorageEmission: 1000, NoStart: true}
	if *verbose {
		o.Log, _ = zap.NewDevelopment()
	}
	w, err := irworld.New(c.State+"/"+c.Delivery, o, func(w *irworld.World) {
		applyState(w, c.State)
		w.T.CommitteeErr, w.T.IRListErr = nil, nil // lookups start failing after construction, before Start
		f = w.InstallFixture()
		// the network map known at construction has one node only: the first NewEpoch sees a changed map
		w.T.NetMap = new(netmap.NetMap)
		w.T.NetMap.SetNodes(f.Nodes[:1])
	})
	if err != nil {
		return nil, nil, err
	}
	applyState(w, c.State)
	if err := w.Start(); err != nil {
		w.Close()
		return nil, nil, fmt.Errorf("Server.Start: %w", err)
	}
	return w, f, nil
}

func contractByName(w *irworld.World, n string) util.Uint160 {
	for _, h := range append([]util.Uint160{w.Netmap, w.Balance, w.Container, w.Reputation, w.NeoFS, w.Designate}, w.Alphabet...) {
		if w.ContractName(h) == n {
			return h
		}
	}
	panic("contract " + n)
}

func run(c tcase) (out outcome) {
	defer func() {
		if r := recover(); r != nil {
			if hp, ok := r.(irworld.HarnessPanic); ok {
				out.err = hp
				return
			}
			panic(r)
		}
	}()
	w, f, err := newWorld(c)
	if err != nil {
		out.err = err
		return
	}
	defer w.Close()
	split := func(cs []irworld.Call) {
		for _, x := range cs {
			if x.Class == "alphabet" {
				out.alphabet = append(out.alphabet, x)
			} else {
				out.own++
			}
		}
	}
	if c.Delivery == "startup" {
		split(w.TakeCalls())
		return
	}
	w.TakeCalls()
	w.Lock(func(t *irworld.Tables) {
		nm := new(netmap.NetMap)
		nm.SetNodes(f.Nodes)
		t.NetMap = nm
	})
	p := strings.Split(c.Delivery, "/")
	switch p[0] {
	case "reconnect":
		if err := w.Srv.VerifRestartFSChain(); err != nil {
			out.err = err
			return
		}
		w.Quiesce()
	case "timer":
		// after Start: last tick block 50 (t=50000ms), epoch 100s => basic income at t=100000, new epoch at t=150000
		w.Header(100)
		if p[1] == "new-epoch" {
			w.TakeCalls()
			w.Header(150)
		}
	case "fs-notification", "main-notification":
		chain := strings.TrimSuffix(p[0], "-notification")
		h := contractByName(w, p[1])
		items, ok := w.CanonicalNotification(chain, h, p[2])
		if !ok {
			out.err = fmt.Errorf("no well-formed event fixture for registered notification %s", c.Delivery)
			return
		}
		w.Notify(chain, h, p[2], irworld.Hash256("trigger-tx"), items...)
	case "fs-notary":
		h := contractByName(w, p[1])
		sc, ok := w.CanonicalNotaryScript(f, h, p[2])
		if !ok {
			out.err = fmt.Errorf("no well-formed request fixture for registered notary type %s", c.Delivery)
			return
		}
		nr := w.Request(sc, irworld.NROpt{Invoker: p[1] != "container"})
		w.Notary(nr)
		split(w.TakeCalls())
		w.Notary(nr)
		out.redeliv = w.TakeCalls()
		return
	default:
		out.err = fmt.Errorf("unknown delivery %s", c.Delivery)
		return
	}
	split(w.TakeCalls())
	return
}

func sig(c irworld.Call) string {
	n := c.Contract
	if strings.HasPrefix(n, "alphabet") {
		n = "alphabetN"
	}
	return c.Chain + "." + c.Method + ":" + n + "." + c.Op
}

func main() {
	r := ev.Start("C35", ev.Exploration)
	if r.Replay != "" {
		var c tcase
		r.LoadReplay(&c)
		*verbose = true
		o := run(c)
		fmt.Printf("replay %+v: err=%v own=%d\n", c, o.err, o.own)
		for _, x := range o.alphabet {
			fmt.Println("  alphabet-authority call:", x)
		}
		if c.State != "member" && len(o.alphabet) > 0 {
			r.Violation("replay:nonmember-acts", fmt.Sprintf("%+v made %d calls", c, len(o.alphabet)), c)
		}
		irworld.CloseAll()
	r.Finish()
	}

	// 1. enumerate what the real server registered
	cat, _, err := newWorld(tcase{"member", "catalog"})
	if err != nil {
		r.Fatal("catalog world: %v", err)
	}
	deliveries := []string{"startup", "reconnect", "timer/basic-income", "timer/new-epoch"}
	registered := 0
	unhandled := []string{}
	add := func(prefix string, ks []event.VerifKey) {
		for _, k := range ks {
			registered++
			n := prefix + "/" + cat.ContractName(k.Contract) + "/" + k.Type
			if k.Handlers == 0 {
				unhandled = append(unhandled, n)
				continue
			}
			deliveries = append(deliveries, n)
		}
	}
	add("fs-notification", event.VerifNotificationKeys(cat.Srv.VerifFSListener()))
	add("fs-notary", event.VerifNotaryKeys(cat.Srv.VerifFSListener()))
	add("main-notification", event.VerifNotificationKeys(cat.Srv.VerifMainListener()))
	if n := len(event.VerifNotaryKeys(cat.Srv.VerifMainListener())); n != 0 {
		r.Fatal("main chain listener has %d notary registrations, no fixture", n)
	}
	cat.Close()

	// 2. run the product
	var cases []tcase
	for _, d := range deliveries {
		for _, s := range states {
			cases = append(cases, tcase{s, d})
		}
	}
	outs := make([]outcome, len(cases))
	enumx.Parallel(len(cases), func(i int) {
		outs[i] = run(cases[i])
		r.Eval(1)
	})

	// 3. judge
	type vkey struct{ delivery, call string }
	nonmember := map[vkey][]string{}
	firstCase := map[vkey]tcase{}
	classes := map[string]bool{}
	var mu sync.Mutex
	_ = &mu
	for i, c := range cases {
		o := outs[i]
		if o.err != nil {
			r.Fatal("%+v: %v", c, o.err)
		}
		if c.State == "member" {
			if len(o.alphabet) == 0 && c.Delivery != "reconnect" {
				r.Fatal("fixture for %s is vacuous: an alphabet member made no chain call for it", c.Delivery)
			}
			seen := map[string]bool{}
			for _, x := range o.alphabet {
				k := x.String()
				if seen[k] {
					r.Violation("member-repeats-call/"+c.Delivery+"/"+sig(x), fmt.Sprintf("one delivery of %s made the identical call twice: %s", c.Delivery, k), c)
				}
				seen[k] = true
			}
			for _, x := range o.redeliv {
				if x.Class == "alphabet" {
					r.Violation("member-acts-again-on-redelivery/"+c.Delivery+"/"+sig(x), fmt.Sprintf("the same notary request delivered twice was acted upon twice: %s", x), c)
				}
			}
			var ss []string
			for _, x := range o.alphabet {
				ss = append(ss, sig(x))
			}
			r.Nontrivial(c.Delivery)
			classes["member:"+c.Delivery+"="+strings.Join(ss, "+")] = true
			r.Sample(map[string]any{"case": c, "alphabet_authority_calls": ss, "own_account_calls": o.own})
			continue
		}
		classes[fmt.Sprintf("%s:%s=%d", c.State, c.Delivery, len(o.alphabet))] = true
		dedup := map[string]bool{}
		for _, x := range append(append([]irworld.Call{}, o.alphabet...), o.redeliv...) {
			if x.Class != "alphabet" || dedup[sig(x)] {
				continue
			}
			dedup[sig(x)] = true
			k := vkey{c.Delivery, sig(x)}
			nonmember[k] = append(nonmember[k], c.State)
			if _, ok := firstCase[k]; !ok {
				firstCase[k] = c
			}
		}
	}
	var vks []vkey
	for k := range nonmember {
		vks = append(vks, k)
	}
	sort.Slice(vks, func(i, j int) bool { return vks[i].delivery+vks[i].call < vks[j].delivery+vks[j].call })
	for _, k := range vks {
		sts := nonmember[k]
		sort.Strings(sts)
		r.Violation("nonmember-acts/"+k.delivery+"/"+k.call+"/states="+strings.Join(sts, ","),
			fmt.Sprintf("a node that is not an alphabet member made the alphabet-authority call %s on %s, in states %v", k.call, k.delivery, sts), firstCase[k])
	}
	r.Set("outcome_classes", len(classes))
	r.Set("registered_event_kinds", registered)
	r.Set("registered_without_handler", unhandled)
	r.Set("deliveries", deliveries)
	r.Set("states", states)
	r.Rule("deliveries = {startup (innerring.New+Server.Start), RPC reconnect, basic-income timer, new-epoch timer} + every (contract,type) with a handler in the FS/main chain listeners' registration tables of the real server (read at run time); x 6 alphabet states; one well-formed raw event each (notary requests are also delivered a second time); non-trivial = delivery for which the member run produced >=1 alphabet-authority call (required for every delivery except reconnect, else harness error)")
	r.Exhaustive(true)
	r.Assume("chain reads are answered from tables and every chain-mutating morph client call succeeds (no RPC faults)",
		"worker pools have capacity 1 and are never saturated (one event in flight)",
		"N3-witness (contract account) owners are not modelled: owners and token issuers sign with ECDSA keys",
		"calls classified as needing alphabet authority: Invoke, NotaryInvoke, NotaryInvokeNotAlpha, CallWithAlphabetWitness, NotarySignAndInvokeTX, TransferGas, UpdateNotaryList, UpdateNeoFSAlphabetList, runAlphabetNotaryScript; notary deposits of the node's own GAS are recorded but not judged")
	irworld.CloseAll()
	r.Finish()
}
