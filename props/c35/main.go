package main

import (
	"fmt"

	"github.com/nspcc-dev/neofs-node/pkg/morph/event"
	"github.com/nspcc-dev/neofs-node/verif/worlds/irworld"
	"go.uber.org/zap"
)

func main() {
	l, _ := zap.NewDevelopment()
	w, err := irworld.New("probe", irworld.Options{Log: l}, nil)
	if err != nil {
		panic(err)
	}
	fmt.Println("start err:", w.StartErr)
	for _, c := range w.TakeCalls() {
		fmt.Println("CALL", c)
	}
	for _, k := range event.VerifNotificationKeys(w.Srv.VerifFSListener()) {
		fmt.Println("fs notif", w.ContractName(k.Contract), k.Type, k.Handlers)
	}
	for _, k := range event.VerifNotaryKeys(w.Srv.VerifFSListener()) {
		fmt.Println("fs notary", w.ContractName(k.Contract), k.Type, k.Handlers)
	}
	for _, k := range event.VerifNotificationKeys(w.Srv.VerifMainListener()) {
		fmt.Println("main notif", w.ContractName(k.Contract), k.Type, k.Handlers)
	}
	w.Close()
}
