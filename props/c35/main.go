// C35: inner ring nodes outside the alphabet never act with alphabet authority; a member acts at most once.
//
// Every case builds a REAL innerring.Server (innerring.New + Server.Start) over an interposed morph client
// (irworld) in one alphabet state, delivers one well-formed raw event of one registered kind (the kinds are
// read from the listeners' registration tables, so a newly registered handler without a fixture is a harness
// error, not silence), waits deterministically for the worker pools and inspects the recorded chain-mutating
// client calls.
package main

import (
	"errors"
	"flag"
	"fmt"
	"sort"
	"strings"
	"sync"
	"time"

	"github.com/nspcc-dev/neo-go/pkg/crypto/keys"
	"github.com/nspcc-dev/neo-go/pkg/util"
	"github.com/nspcc-dev/neofs-node/pkg/morph/event"
	"github.com/nspcc-dev/neofs-node/verif/lib/enumx"
	"github.com/nspcc-dev/neofs-node/verif/lib/ev"
	"github.com/nspcc-dev/neofs-node/verif/worlds/irworld"
	"github.com/nspcc-dev/neofs-sdk-go/netmap"
	"go.uber.org/zap"
)

type tcase struct {
	State    string
	Delivery string
}

var verbose = flag.Bool("v", false, "log the inner ring's output (useful with -replay)")

// alphabet states of the node. member=true only for the first.
var states = []string{"member", "ir-nonmember-index-in-range", "ir-nonmember-index-out-of-range", "outsider-index-minus-1", "committee-lookup-error", "irlist-lookup-error"}

func applyState(w *irworld.World, st string) {
	me := w.NodeKey.PublicKey()
	w.Lock(func(t *irworld.Tables) {
		var alpha keys.PublicKeys
		for i := 0; i < len(w.Alphabet); i++ {
			alpha = append(alpha, irworld.AlphabetKey(i).PublicKey())
		}
		t.CommitteeErr, t.IRListErr = nil, nil
		switch st {
		case "member":
			alpha[1] = me
			t.Committee = alpha
			t.IRList = append(alpha.Copy(), irworld.Key("ir-extra").PublicKey())
		case "ir-nonmember-index-in-range":
			t.Committee = alpha
			t.IRList = append(keys.PublicKeys{me}, alpha...)
		case "ir-nonmember-index-out-of-range":
			t.Committee = alpha
			t.IRList = append(alpha.Copy(), me)
		case "outsider-index-minus-1":
			t.Committee = alpha
			t.IRList = alpha.Copy()
		case "committee-lookup-error":
			alpha[1] = me // would be a member, but the committee cannot be read
			t.Committee = alpha
			t.IRList = alpha.Copy()
			t.CommitteeErr = errors.New("verif: committee lookup failed")
		case "irlist-lookup-error":
			alpha[1] = me
			t.Committee = alpha
			t.IRList = alpha.Copy()
			t.IRListErr = errors.New("verif: inner ring list lookup failed")
		default:
			panic("state " + st)
		}
		// main chain wants one alphabet key replaced => governance has work to do
		t.MainAlphabet = t.Committee.Copy()
		t.MainAlphabet[len(t.MainAlphabet)-1] = irworld.Key("new-mainnet-alphabet").PublicKey()
		sort.Sort(t.MainAlphabet)
	})
}

type outcome struct {
	alphabet []irworld.Call // calls needing alphabet authority made by the delivery
	own      int
	redeliv  []irworld.Call // calls made by delivering the same notary request again
	err      error
}

func newWorld(c tcase) (*irworld.World, *irworld.Fixture, error) {
	var f *irworld.Fixture
	o := irworld.Options{StorageEmission: 1000, NoStart: true}
	if *verbose {
		o.Log, _ = zap.NewDevelopment()
	}
	w, err := irworld.New(c.State+"/"+c.Delivery, o, func(w *irworld.World) {
		applyState(w, c.State)
		w.T.CommitteeErr, w.T.IRListErr = nil, nil // lookups start failing after construction, before Start
		f = w.InstallFixture()
		// the network map known at construction has one node only: the first NewEpoch sees a changed map
		w.T.NetMap = new(netmap.NetMap)
		w.T.NetMap.SetNodes(f.Nodes[:1])
	})
	if err != nil {
		return nil, nil, err
	}
	applyState(w, c.State)
	if err := w.Start(); err != nil {
		w.Close()
		return nil, nil, fmt.Errorf("Server.Start: %w", err)
	}
	return w, f, nil
}

func contractByName(w *irworld.World, n string) util.Uint160 {
	for _, h := range append([]util.Uint160{w.Netmap, w.Balance, w.Container, w.Reputation, w.NeoFS, w.Designate}, w.Alphabet...) {
		if w.ContractName(h) == n {
			return h
		}
	}
	panic("contract " + n)
}

func run(c tcase) (out outcome) {
	defer func() {
		if r := recover(); r != nil {
			if hp, ok := r.(irworld.HarnessPanic); ok {
				out.err = hp
				return
			}
			panic(r)
		}
	}()
	w, f, err := newWorld(c)
	if err != nil {
		out.err = err
		return
	}
	defer w.Close()
	split := func(cs []irworld.Call) {
		for _, x := range cs {
			if x.Class == "alphabet" {
				out.alphabet = append(out.alphabet, x)
			} else {
				out.own++
			}
		}
	}
	if c.Delivery == "startup" {
		split(w.TakeCalls())
		return
	}
	w.TakeCalls()
	w.Lock(func(t *irworld.Tables) {
		nm := new(netmap.NetMap)
		nm.SetNodes(f.Nodes)
		t.NetMap = nm
	})
	p := strings.Split(c.Delivery, "/")
	switch p[0] {
	case "reconnect":
		if err := w.Srv.VerifRestartFSChain(); err != nil {
			out.err = err
			return
		}
		w.Quiesce()
	case "timer":
		// after Start: last tick block 50 (t=50000ms), epoch 100s => basic income at t=100000, new epoch at t=150000
		w.Header(100)
		if p[1] == "new-epoch" {
			w.TakeCalls()
			w.Header(150)
		}
	case "fs-notification", "main-notification":
		chain := strings.TrimSuffix(p[0], "-notification")
		h := contractByName(w, p[1])
		items, ok := w.CanonicalNotification(chain, h, p[2])
		if !ok {
			out.err = fmt.Errorf("no well-formed event fixture for registered notification %s", c.Delivery)
			return
		}
		w.Notify(chain, h, p[2], irworld.Hash256("trigger-tx"), items...)
	case "fs-notary":
		h := contractByName(w, p[1])
		sc, ok := w.CanonicalNotaryScript(f, h, p[2])
		if !ok {
			out.err = fmt.Errorf("no well-formed request fixture for registered notary type %s", c.Delivery)
			return
		}
		nr := w.Request(sc, irworld.NROpt{Invoker: p[1] != "container"})
		w.Notary(nr)
		split(w.TakeCalls())
		w.Notary(nr)
		out.redeliv = w.TakeCalls()
		return
	default:
		out.err = fmt.Errorf("unknown delivery %s", c.Delivery)
		return
	}
	split(w.TakeCalls())
	return
}

// ---------- part 2: histories of the membership lookup environment on ONE server ----------

var hstates = []string{"member", "non-member", "committee-lookup-error", "irlist-lookup-error"}

// applyH sets the lookup environment. In the two error states the node is NOT a member (and cannot learn anything).
func applyH(w *irworld.World, st string) {
	me := w.NodeKey.PublicKey()
	w.Lock(func(t *irworld.Tables) {
		var alpha keys.PublicKeys
		for i := 0; i < len(w.Alphabet); i++ {
			alpha = append(alpha, irworld.AlphabetKey(i).PublicKey())
		}
		t.CommitteeErr, t.IRListErr = nil, nil
		if st == "member" {
			alpha[1] = me
			t.Committee = alpha
			t.IRList = append(alpha.Copy(), irworld.Key("ir-extra").PublicKey())
		} else {
			t.Committee = alpha
			t.IRList = append(keys.PublicKeys{me}, alpha...)
		}
		switch st {
		case "committee-lookup-error":
			t.CommitteeErr = errors.New("verif: committee lookup failed")
		case "irlist-lookup-error":
			t.IRListErr = errors.New("verif: inner ring list lookup failed")
		}
		t.MainAlphabet = t.Committee.Copy()
		t.MainAlphabet[len(t.MainAlphabet)-1] = irworld.Key("new-mainnet-alphabet").PublicKey()
		sort.Sort(t.MainAlphabet)
	})
}

type hcase struct {
	S1, S2   string
	Prime    bool // one plain IsAlphabet() query is made right after the cache expired, before the event
	Delivery string
}

// deliverRound delivers a fresh well-formed event of the kind (round makes transactions distinct).
func deliverRound(w *irworld.World, f *irworld.Fixture, delivery string, round int) error {
	p := strings.Split(delivery, "/")
	switch p[0] {
	case "reconnect":
		if err := w.Srv.VerifRestartFSChain(); err != nil {
			return err
		}
		w.Quiesce()
	case "timer":
		if round == 0 {
			w.Header(100)
			if p[1] == "new-epoch" {
				w.TakeCalls()
				w.Header(150)
			}
		} else {
			w.Header(uint32(150 + round))
		}
	case "fs-notification", "main-notification":
		chain := strings.TrimSuffix(p[0], "-notification")
		h := contractByName(w, p[1])
		items, ok := w.CanonicalNotification(chain, h, p[2])
		if !ok {
			return fmt.Errorf("no fixture for %s", delivery)
		}
		w.Notify(chain, h, p[2], irworld.Hash256(fmt.Sprintf("trigger-tx-%d", round)), items...)
	case "fs-notary":
		h := contractByName(w, p[1])
		sc, ok := w.CanonicalNotaryScript(f, h, p[2])
		if !ok {
			return fmt.Errorf("no fixture for %s", delivery)
		}
		w.Notary(w.Request(sc, irworld.NROpt{Invoker: p[1] != "container", Nonce: uint32(100 + round)}))
	default:
		return fmt.Errorf("unknown delivery %s", delivery)
	}
	return nil
}

// runH: server started in environment S1 (real cache timeout of one hour), environment becomes S2, the index
// cache expires (innerRingIndexer.reset, as the timeout or an RPC reconnect do), then the event arrives twice.
func runH(c hcase) (calls [2][]irworld.Call, err error) {
	defer func() {
		if r := recover(); r != nil {
			if hp, ok := r.(irworld.HarnessPanic); ok {
				err = hp
				return
			}
			panic(r)
		}
	}()
	var f *irworld.Fixture
	o := irworld.Options{StorageEmission: 1000, NoStart: true, IndexerCacheTimeout: time.Hour}
	if *verbose {
		o.Log, _ = zap.NewDevelopment()
	}
	w, err := irworld.New(fmt.Sprintf("h/%s/%s/%v/%s", c.S1, c.S2, c.Prime, c.Delivery), o, func(w *irworld.World) {
		applyH(w, c.S1)
		w.T.CommitteeErr, w.T.IRListErr = nil, nil
		f = w.InstallFixture()
		w.T.NetMap = new(netmap.NetMap)
		w.T.NetMap.SetNodes(f.Nodes[:1])
	})
	if err != nil {
		return calls, err
	}
	defer w.Close()
	applyH(w, c.S1)
	if err = w.Start(); err != nil {
		return calls, fmt.Errorf("Server.Start: %w", err)
	}
	w.TakeCalls()
	w.Lock(func(t *irworld.Tables) {
		nm := new(netmap.NetMap)
		nm.SetNodes(f.Nodes)
		t.NetMap = nm
	})
	applyH(w, c.S2)
	w.Srv.VerifExpireIndexerCache()
	if c.Prime {
		w.Srv.IsAlphabet()
	}
	for round := 0; round < 2; round++ {
		if err = deliverRound(w, f, c.Delivery, round); err != nil {
			return calls, err
		}
		for _, x := range w.TakeCalls() {
			if x.Class == "alphabet" {
				calls[round] = append(calls[round], x)
			}
		}
	}
	return calls, nil
}

func sig(c irworld.Call) string {
	n := c.Contract
	if strings.HasPrefix(n, "alphabet") {
		n = "alphabetN"
	}
	return c.Chain + "." + c.Method + ":" + n + "." + c.Op
}

func main() {
	r := ev.Start("C35", ev.Exploration)
	if r.Replay != "" {
		var raw map[string]any
		r.LoadReplay(&raw)
		if _, ok := raw["S2"]; ok {
			var c hcase
			r.LoadReplay(&c)
			*verbose = true
			calls, err := runH(c)
			fmt.Printf("replay %+v: err=%v\n  first delivery: %v\n  second delivery: %v\n", c, err, calls[0], calls[1])
			if c.S2 != "member" && len(calls[0])+len(calls[1]) > 0 {
				r.Violation("replay:nonmember-acts-after-lookup-history", fmt.Sprintf("%+v", c), c)
			}
			irworld.CloseAll()
			r.Finish()
		}
		var c tcase
		r.LoadReplay(&c)
		*verbose = true
		o := run(c)
		fmt.Printf("replay %+v: err=%v own=%d\n", c, o.err, o.own)
		for _, x := range o.alphabet {
			fmt.Println("  alphabet-authority call:", x)
		}
		if c.State != "member" && len(o.alphabet) > 0 {
			r.Violation("replay:nonmember-acts", fmt.Sprintf("%+v made %d calls", c, len(o.alphabet)), c)
		}
		irworld.CloseAll()
	r.Finish()
	}

	// 1. enumerate what the real server registered
	cat, _, err := newWorld(tcase{"member", "catalog"})
	if err != nil {
		r.Fatal("catalog world: %v", err)
	}
	deliveries := []string{"startup", "reconnect", "timer/basic-income", "timer/new-epoch"}
	registered := 0
	unhandled := []string{}
	add := func(prefix string, ks []event.VerifKey) {
		for _, k := range ks {
			registered++
			n := prefix + "/" + cat.ContractName(k.Contract) + "/" + k.Type
			if k.Handlers == 0 {
				unhandled = append(unhandled, n)
				continue
			}
			deliveries = append(deliveries, n)
		}
	}
	add("fs-notification", event.VerifNotificationKeys(cat.Srv.VerifFSListener()))
	add("fs-notary", event.VerifNotaryKeys(cat.Srv.VerifFSListener()))
	add("main-notification", event.VerifNotificationKeys(cat.Srv.VerifMainListener()))
	if n := len(event.VerifNotaryKeys(cat.Srv.VerifMainListener())); n != 0 {
		r.Fatal("main chain listener has %d notary registrations, no fixture", n)
	}
	cat.Close()

	// 2. run the product
	var cases []tcase
	for _, d := range deliveries {
		for _, s := range states {
			cases = append(cases, tcase{s, d})
		}
	}
	outs := make([]outcome, len(cases))
	enumx.Parallel(len(cases), func(i int) {
		outs[i] = run(cases[i])
		r.Eval(1)
	})

	// 3. judge
	type vkey struct{ delivery, call string }
	nonmember := map[vkey][]string{}
	firstCase := map[vkey]tcase{}
	classes := map[string]bool{}
	var mu sync.Mutex
	_ = &mu
	for i, c := range cases {
		o := outs[i]
		if o.err != nil {
			r.Fatal("%+v: %v", c, o.err)
		}
		if c.State == "member" {
			if len(o.alphabet) == 0 && c.Delivery != "reconnect" {
				r.Fatal("fixture for %s is vacuous: an alphabet member made no chain call for it", c.Delivery)
			}
			seen := map[string]bool{}
			for _, x := range o.alphabet {
				k := x.String()
				if seen[k] {
					r.Violation("member-repeats-call/"+c.Delivery+"/"+sig(x), fmt.Sprintf("one delivery of %s made the identical call twice: %s", c.Delivery, k), c)
				}
				seen[k] = true
			}
			for _, x := range o.redeliv {
				if x.Class == "alphabet" {
					r.Violation("member-acts-again-on-redelivery/"+c.Delivery+"/"+sig(x), fmt.Sprintf("the same notary request delivered twice was acted upon twice: %s", x), c)
				}
			}
			var ss []string
			for _, x := range o.alphabet {
				ss = append(ss, sig(x))
			}
			r.Nontrivial(c.Delivery)
			classes["member:"+c.Delivery+"="+strings.Join(ss, "+")] = true
			r.Sample(map[string]any{"case": c, "alphabet_authority_calls": ss, "own_account_calls": o.own})
			continue
		}
		classes[fmt.Sprintf("%s:%s=%d", c.State, c.Delivery, len(o.alphabet))] = true
		dedup := map[string]bool{}
		for _, x := range append(append([]irworld.Call{}, o.alphabet...), o.redeliv...) {
			if x.Class != "alphabet" || dedup[sig(x)] {
				continue
			}
			dedup[sig(x)] = true
			k := vkey{c.Delivery, sig(x)}
			nonmember[k] = append(nonmember[k], c.State)
			if _, ok := firstCase[k]; !ok {
				firstCase[k] = c
			}
		}
	}
	var vks []vkey
	for k := range nonmember {
		vks = append(vks, k)
	}
	sort.Slice(vks, func(i, j int) bool { return vks[i].delivery+vks[i].call < vks[j].delivery+vks[j].call })
	for _, k := range vks {
		sts := nonmember[k]
		sort.Strings(sts)
		r.Violation("nonmember-acts/"+k.delivery+"/"+k.call+"/states="+strings.Join(sts, ","),
			fmt.Sprintf("a node that is not an alphabet member made the alphabet-authority call %s on %s, in states %v", k.call, k.delivery, sts), firstCase[k])
	}
	// 4. part 2: lookup-environment histories
	var hcases []hcase
	for _, d := range deliveries {
		if d == "startup" {
			continue
		}
		for _, s1 := range hstates {
			for _, s2 := range hstates {
				for _, pr := range []bool{false, true} {
					hcases = append(hcases, hcase{s1, s2, pr, d})
				}
			}
		}
	}
	type hout struct {
		calls [2][]irworld.Call
		err   error
	}
	houts := make([]hout, len(hcases))
	enumx.Parallel(len(hcases), func(i int) {
		houts[i].calls, houts[i].err = runH(hcases[i])
		r.Eval(1)
	})
	hviol := map[vkey][]string{}
	hfirst := map[vkey]hcase{}
	for i, c := range hcases {
		o := houts[i]
		if o.err != nil {
			r.Fatal("%+v: %v", c, o.err)
		}
		classes[fmt.Sprintf("history:%s>%s/prime=%v:%s=%d+%d", c.S1, c.S2, c.Prime, c.Delivery, len(o.calls[0]), len(o.calls[1]))] = true
		if c.S2 == "member" {
			if len(o.calls[0])+len(o.calls[1]) > 0 {
				r.Nontrivial("history-member:" + c.S1 + "/" + c.Delivery)
			}
			continue
		}
		r.Nontrivial(fmt.Sprintf("history:%s>%s/%v/%s", c.S1, c.S2, c.Prime, c.Delivery))
		for round := 0; round < 2; round++ {
			dd := map[string]bool{}
			for _, x := range o.calls[round] {
				if dd[sig(x)] {
					continue
				}
				dd[sig(x)] = true
				k := vkey{c.Delivery, sig(x)}
				hviol[k] = append(hviol[k], fmt.Sprintf("%s>%s%s#%d", c.S1, c.S2, map[bool]string{true: "+query", false: ""}[c.Prime], round+1))
				if _, ok := hfirst[k]; !ok {
					hfirst[k] = c
				}
			}
		}
	}
	var hks []vkey
	for k := range hviol {
		hks = append(hks, k)
	}
	sort.Slice(hks, func(i, j int) bool { return hks[i].delivery+hks[i].call < hks[j].delivery+hks[j].call })
	for _, k := range hks {
		hs := hviol[k]
		sort.Strings(hs)
		r.Violation("nonmember-acts-after-lookup-history/"+k.delivery+"/"+k.call+"/histories="+strings.Join(hs, ","),
			fmt.Sprintf("a node that is not an alphabet member at delivery time made the alphabet-authority call %s on %s; histories (state at start > state at delivery [+query = one IsAlphabet query after cache expiry] #delivery): %v", k.call, k.delivery, hs), hfirst[k])
	}
	r.Set("lookup_histories", len(hcases))
	r.Set("outcome_classes", len(classes))
	r.Set("registered_event_kinds", registered)
	r.Set("registered_without_handler", unhandled)
	r.Set("deliveries", deliveries)
	r.Set("membership_states", states)
	r.Rule("deliveries = {startup (innerring.New+Server.Start), RPC reconnect, basic-income timer, new-epoch timer} + every (contract,type) with a handler in the FS/main chain listeners' registration tables of the real server (read at run time); x 6 alphabet states; one well-formed raw event each (notary requests are also delivered a second time); non-trivial = delivery for which the member run produced >=1 alphabet-authority call (required for every delivery except reconnect, else harness error). Part 2 (lookup histories, real index cache with 1 h timeout): every delivery except start-up x environment at start {member, non-member, committee lookup error, inner ring list lookup error} x environment at delivery (same 4) x {no, one} plain IsAlphabet() query after the cache expired (innerRingIndexer.reset) x the event delivered twice (fresh transactions); judged at both deliveries against the environment at delivery time; non-trivial = history ending in a non-member environment, or in member with calls")
	r.Exhaustive(true)
	r.Assume("chain reads are answered from tables and every chain-mutating morph client call succeeds (no RPC faults)",
		"worker pools have capacity 1 and are never saturated (one event in flight)",
		"N3-witness (contract account) owners are not modelled: owners and token issuers sign with ECDSA keys",
		"calls classified as needing alphabet authority: Invoke, NotaryInvoke, NotaryInvokeNotAlpha, CallWithAlphabetWitness, NotarySignAndInvokeTX, TransferGas, UpdateNotaryList, UpdateNeoFSAlphabetList, runAlphabetNotaryScript; notary deposits of the node's own GAS are recorded but not judged")
	irworld.CloseAll()
	r.Finish()
}
