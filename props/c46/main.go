// C46: restoring a shard dump reproduces exactly the dumped objects, however the reader splits the
// stream; corrupted records are reported or skipped as requested.
//
// Real Shard.Dump output of real shards (0..4 objects, with / without write-cache, cached and flushed
// objects mixed) is restored into a fresh real shard through an io.Reader that
//   - returns everything asked (baseline),
//   - stops short at ONE split point, for every split point of the stream,
//   - never returns more than k bytes, k = 1..16,
//   - stops short at every subset of the positions of a window (= every composition of chunk sizes
//     inside the window), for windows at the stream head, a record head, a record boundary, the tail,
//   - returns the final bytes together with io.EOF (allowed by the io.Reader contract),
//
// and, for every byte of every record of a 3-object dump, with that byte corrupted (3 xor masks),
// ignoreErrors off and on. The restored shard is read back raw from its FSTrees and via the metabase.
package main

import (
	"bytes"
	"crypto/sha256"
	"encoding/binary"
	"encoding/hex"
	"errors"
	"fmt"
	"io"
	"os"
	"path/filepath"
	"sort"

	"github.com/nspcc-dev/neofs-node/pkg/local_object_storage/shard/mode"
	"github.com/nspcc-dev/neofs-node/verif/lib/ev"
	"github.com/nspcc-dev/neofs-node/verif/props/c46/vbinary"
	sw "github.com/nspcc-dev/neofs-node/verif/worlds/shardworld"
	"github.com/nspcc-dev/neofs-node/verif/worlds/shardworld/procpool"
	"github.com/nspcc-dev/neofs-sdk-go/object"
)

// ---------- dumps ----------

type content struct {
	Name    string
	N       int  // objects o1..oN
	WC      bool // source (and target) shard has a write-cache
	Flushed int  // with WC: the first Flushed objects are flushed to the blobstor before the dump
}

type record struct {
	Off  int // offset of the 4-byte size field in the dump
	Data []byte
	Addr string
}

type dump struct {
	C     content
	Bytes []byte
	Recs  []record
	Sum   string
}

var universe = []sw.ObjSpec{
	{Cnr: "A", Label: "o1", Size: 0},
	{Cnr: "A", Label: "o2", Size: 7, Attrs: [][2]string{{"FileName", "x"}}},
	{Cnr: "B", Label: "o3", Size: 64},
	{Cnr: "A", Label: "o4", Size: 130, Attrs: [][2]string{{"k", "v"}, {"k2", "v2"}}},
}

var (
	scratch string
	seq     int
	dumps   []*dump
	emptyWC = map[bool]string{} // closed empty shard images (target templates)
)

func newDir(name string) string {
	seq++
	return filepath.Join(scratch, fmt.Sprintf("%s-%d", name, seq))
}

func parseDump(b []byte) ([]record, error) {
	if len(b) < 4 || string(b[:4]) != "NEOF" {
		return nil, errors.New("bad magic")
	}
	var recs []record
	for off := 4; off < len(b); {
		if off+4 > len(b) {
			return nil, errors.New("truncated size")
		}
		sz := int(binary.LittleEndian.Uint32(b[off:]))
		if off+4+sz > len(b) {
			return nil, errors.New("truncated record")
		}
		d := b[off+4 : off+4+sz]
		var o object.Object
		if err := o.Unmarshal(d); err != nil {
			return nil, fmt.Errorf("record at %d: %w", off, err)
		}
		recs = append(recs, record{Off: off, Data: d, Addr: o.Address().EncodeToString()})
		off += 4 + sz
	}
	return recs, nil
}

func buildDump(c content) (*dump, error) {
	dir := newDir("src")
	defer os.RemoveAll(dir)
	w, err := sw.Open(sw.Config{Dir: dir, WriteCache: c.WC})
	if err != nil {
		return nil, err
	}
	defer w.Close()
	want := map[string][]byte{}
	for i := 0; i < c.N; i++ {
		o := sw.NewObject(universe[i])
		if err := w.Sh.Put(o, nil); err != nil {
			return nil, fmt.Errorf("put: %w", err)
		}
		want[o.Address().EncodeToString()] = o.Marshal()
		if c.WC && i+1 == c.Flushed {
			if !w.Tick() {
				return nil, errors.New("virtual flush ticker not available")
			}
		}
	}
	if err := w.SetMode(mode.ReadOnly); err != nil {
		return nil, err
	}
	var buf bytes.Buffer
	n, err := w.Sh.Dump(&buf, false)
	if err != nil {
		return nil, fmt.Errorf("dump: %w", err)
	}
	d := &dump{C: c, Bytes: buf.Bytes()}
	if d.Recs, err = parseDump(d.Bytes); err != nil {
		return nil, fmt.Errorf("dump of %s does not parse: %w", c.Name, err)
	}
	// the dump side of the property: exactly the stored objects, byte-identical
	if n != c.N || len(d.Recs) != c.N {
		return nil, fmt.Errorf("dump of %s: count %d, %d records, want %d", c.Name, n, len(d.Recs), c.N)
	}
	for _, r := range d.Recs {
		if !bytes.Equal(want[r.Addr], r.Data) {
			return nil, fmt.Errorf("dump of %s: record %s differs from the stored object", c.Name, r.Addr)
		}
	}
	if c.WC {
		blob, wc, err := sw.RawObjects(dir)
		if err != nil {
			return nil, err
		}
		if len(blob) != c.Flushed || len(wc) != c.N-c.Flushed {
			return nil, fmt.Errorf("image %s: %d flushed + %d cached objects, want %d + %d", c.Name, len(blob), len(wc), c.Flushed, c.N-c.Flushed)
		}
	}
	s := sha256.Sum256(d.Bytes)
	d.Sum = hex.EncodeToString(s[:])
	return d, nil
}

// ---------- reader ----------

type readerSpec struct {
	Cuts    []int `json:",omitempty"` // absolute stream offsets at which a Read stops short
	Chunk   int   `json:",omitempty"` // max bytes per Read (0 = unlimited)
	EOFData bool  `json:",omitempty"` // deliver the final bytes together with io.EOF
	// FailAt >= 0 (stored +1 so that the zero value means "no failure"): the reader delivers exactly the
	// first FailAt-1 bytes of the stream and from then on answers every Read with a non-EOF error
	// (I/O error, reset connection, pipe closed with error). ErrWithData: the error already
	// accompanies the Read that delivers the last of those bytes.
	FailAt      int  `json:",omitempty"`
	ErrWithData bool `json:",omitempty"`
	Class       string
}

// sizeLimit: no record of the harness's dumps is anywhere near this; see vbinary.
const sizeLimit = 1 << 16

var errIO = errors.New("injected reader failure: connection reset")

type splitReader struct {
	data  []byte
	pos   int
	sp    readerSpec
	short int // reads that returned less than asked although more data followed
}

func (r *splitReader) Read(p []byte) (int, error) {
	if len(p) == 0 {
		return 0, nil
	}
	limit := len(r.data)
	if r.sp.FailAt > 0 {
		limit = r.sp.FailAt - 1
		if r.pos >= limit {
			return 0, errIO
		}
	}
	if r.pos == len(r.data) {
		return 0, io.EOF
	}
	n := min(len(p), limit-r.pos)
	if r.sp.Chunk > 0 && n > r.sp.Chunk {
		n = r.sp.Chunk
	}
	for _, c := range r.sp.Cuts {
		if c > r.pos && c < r.pos+n {
			n = c - r.pos
			break
		}
	}
	if n < len(p) && r.pos+n < len(r.data) {
		r.short++
	}
	copy(p, r.data[r.pos:r.pos+n])
	r.pos += n
	if r.sp.FailAt > 0 && r.sp.ErrWithData && r.pos == limit {
		return n, errIO
	}
	if r.sp.EOFData && r.pos == len(r.data) {
		return n, io.EOF
	}
	return n, nil
}

// ---------- jobs ----------

type job struct {
	Dump    int
	DumpSum string
	Reader  readerSpec
	CorrOff int // -1 = none; absolute offset of the corrupted byte
	CorrXor byte
	Ignore  []bool // ignoreErrors values to run
}

type restoreRes struct {
	Ran         bool
	Count, Fail int
	Err         string
	Blob, WC    map[string]string // address -> sha256 of stored bytes (raw FSTree read-back)
	Meta        []string          // addresses the metabase lists as physically stored
	ShortReads  int
	Guard       uint32 // != 0: Restore decoded this record size (> sizeLimit) and was stopped by the guard
	Harness     string
}

type jobRes struct {
	R []restoreRes // parallel to job.Ignore
}

func sha(b []byte) string { s := sha256.Sum256(b); return hex.EncodeToString(s[:]) }

// target shards: thorough builds a pristine shard for every restore; quick keeps one shard per
// worker and write-cache flavour and empties it in place (World.ResetEmpty, verified) between restores.
var (
	reuse   bool
	targets = map[bool]*sw.World{}
)

func target(wc bool) (*sw.World, error) {
	if reuse {
		if w := targets[wc]; w != nil {
			if err := w.ResetEmpty(); err != nil {
				return nil, err
			}
			return w, nil
		}
	}
	dir := newDir("dst")
	if err := sw.CopyTree(emptyWC[wc], dir); err != nil {
		return nil, err
	}
	w, err := sw.Open(sw.Config{Dir: dir, WriteCache: wc})
	if err == nil && reuse {
		targets[wc] = w
	}
	return w, err
}

func restoreOnce(d *dump, stream []byte, sp readerSpec, ignore bool) (res restoreRes) {
	res.Ran = true
	w, err := target(d.C.WC)
	if err != nil {
		res.Harness = err.Error()
		return
	}
	dir := w.Cfg.Dir
	if !reuse {
		defer os.RemoveAll(dir)
	}
	rd := &splitReader{data: stream, sp: sp}
	func() {
		defer func() {
			if x := recover(); x != nil {
				g, ok := x.(vbinary.TooLarge)
				if !ok {
					panic(x)
				}
				res.Guard, res.Count, res.Fail = g.V, -1, -1
				res.Err = fmt.Sprintf("harness size guard: Restore decoded a record size of %d bytes from a %d-byte stream", g.V, len(stream))
			}
		}()
		var rerr error
		res.Count, res.Fail, rerr = w.Sh.Restore(rd, ignore)
		if rerr != nil {
			res.Err = rerr.Error()
		}
	}()
	res.ShortReads = rd.short
	if lst, err := w.Sh.List(); err != nil {
		res.Harness = "list: " + err.Error()
	} else {
		for _, a := range lst {
			res.Meta = append(res.Meta, a.EncodeToString())
		}
		sort.Strings(res.Meta)
	}
	if !reuse {
		if err := w.Close(); err != nil {
			res.Harness = "close: " + err.Error()
		}
	}
	blob, wc, err := sw.RawObjects(dir)
	if err != nil {
		res.Harness = err.Error()
		return
	}
	res.Blob, res.WC = map[string]string{}, map[string]string{}
	for a, b := range blob {
		res.Blob[a] = sha(b)
	}
	for a, b := range wc {
		res.WC[a] = sha(b)
	}
	return
}

func corrupt(d *dump, j job) []byte {
	if j.CorrOff < 0 {
		return d.Bytes
	}
	b := append([]byte(nil), d.Bytes...)
	b[j.CorrOff] ^= j.CorrXor
	return b
}

func runJob(j job) jobRes {
	d := dumps[j.Dump]
	if d.Sum != j.DumpSum {
		return jobRes{R: []restoreRes{{Ran: true, Harness: "worker built a different dump than the parent"}}}
	}
	stream := corrupt(d, j)
	out := jobRes{R: make([]restoreRes, len(j.Ignore))}
	for i, ig := range j.Ignore {
		out.R[i] = restoreOnce(d, stream, j.Reader, ig)
	}
	return out
}

func stored(r restoreRes) map[string]string {
	m := map[string]string{}
	for a, s := range r.Blob {
		m[a] = s
	}
	for a, s := range r.WC {
		m[a] = s // same address in both trees: compared below via counts
	}
	return m
}

func judgeIntact(d *dump, r restoreRes) []string {
	var bad []string
	if r.Err != "" {
		bad = append(bad, "error returned: "+r.Err)
	}
	if r.Count != len(d.Recs) || r.Fail != 0 {
		bad = append(bad, fmt.Sprintf("counts (%d restored, %d failed), want (%d, 0)", r.Count, r.Fail, len(d.Recs)))
	}
	bad = append(bad, compareSet(d.Recs, nil, r)...)
	return bad
}

// compareSet: the shard holds exactly recs (minus the indices in skip), byte-identical, and the
// metabase lists exactly those.
func compareSet(recs []record, skip map[int]bool, r restoreRes) []string {
	var bad []string
	st := stored(r)
	want := map[string]bool{}
	for i, rc := range recs {
		if skip[i] {
			continue
		}
		want[rc.Addr] = true
		switch got, ok := st[rc.Addr]; {
		case !ok:
			bad = append(bad, "object missing: "+rc.Addr[:8])
		case got != sha(rc.Data):
			bad = append(bad, "object bytes differ: "+rc.Addr[:8])
		}
	}
	for a := range st {
		if !want[a] {
			bad = append(bad, "unexpected object stored: "+a[:8])
		}
	}
	if len(r.Blob)+len(r.WC) != len(st) {
		bad = append(bad, "object stored in both write-cache and blobstor")
	}
	ml := map[string]bool{}
	for _, a := range r.Meta {
		ml[a] = true
		if !want[a] {
			bad = append(bad, "metabase lists unexpected object: "+a[:8])
		}
	}
	for a := range want {
		if !ml[a] {
			bad = append(bad, "metabase does not list: "+a[:8])
		}
	}
	sort.Strings(bad)
	return bad
}

// ---------- main ----------

func main() {
	r := ev.Start("C46", ev.Exploration)
	vbinary.Limit.Store(sizeLimit)
	reuse = r.Quick()
	scratch = procpool.Scratch("verif-c46-")
	finish := func() { os.RemoveAll(scratch); r.Finish() }
	fatal := func(f string, a ...any) { os.RemoveAll(scratch); r.Fatal(f, a...) }

	contents := []content{
		{"0obj", 0, false, 0}, {"1obj", 1, false, 0}, {"2obj", 2, false, 0}, {"3obj", 3, false, 0}, {"4obj", 4, false, 0},
		{"1obj-wc-cached", 1, true, 0}, {"2obj-wc-cached", 2, true, 0}, {"4obj-wc-2flushed", 4, true, 2}, {"3obj-wc-1flushed", 3, true, 1},
	}
	for _, c := range contents {
		d, err := buildDump(c)
		if err != nil {
			fatal("%v", err)
		}
		dumps = append(dumps, d)
	}
	for _, wc := range []bool{false, true} {
		dir := newDir("empty")
		w, err := sw.Open(sw.Config{Dir: dir, WriteCache: wc})
		if err != nil {
			fatal("empty image: %v", err)
		}
		if err := w.Close(); err != nil {
			fatal("empty image: %v", err)
		}
		emptyWC[wc] = dir
	}

	classes := map[string]int{}
	undetected := 0
	check := func(j job, jr jobRes) {
		d := dumps[j.Dump]
		for i, res := range jr.R {
			r.Eval(1)
			if res.Harness != "" {
				fatal("%+v: %s", j, res.Harness)
			}
			ig := j.Ignore[i]
			rp := map[string]any{"job": j, "ignoreErrors": ig}
			if j.Reader.FailAt > 0 {
				// A failing reader is not a corrupted record: with ignoreErrors off and on alike,
				// Restore must either report an error or have stored the whole dump. Whatever it
				// stored must be objects of the dump, byte-identical and known to the metabase.
				k := j.Reader.FailAt - 1
				var bad []string
				full := len(judgeIntact(d, restoreRes{Count: len(d.Recs), Blob: res.Blob, WC: res.WC, Meta: res.Meta})) == 0
				cls := "error-reported"
				switch {
				case res.Err == "" && !full:
					cls = "nil-error-with-missing-objects"
					bad = append(bad, fmt.Sprintf("returned nil (restored %d, failed %d) but the shard does not hold the whole dump", res.Count, res.Fail))
				case res.Err == "":
					cls = "nil-error-everything-stored"
					if res.Count != len(d.Recs) || res.Fail != 0 {
						bad = append(bad, fmt.Sprintf("counts (%d,%d), want (%d,0)", res.Count, res.Fail, len(d.Recs)))
					}
				}
				var got []record
				for _, rc := range d.Recs {
					if _, ok := stored(res)[rc.Addr]; ok {
						got = append(got, rc)
					}
				}
				for _, b := range compareSet(got, nil, res) {
					bad = append(bad, "stored content: "+b)
				}
				if len(bad) > 0 {
					fp := "failing-reader:" + cls
					if cls != "nil-error-with-missing-objects" {
						fp = "failing-reader:stored-content-or-counts-wrong"
					}
					r.Violation(fp, fmt.Sprintf("dump %s (%d bytes, %d objects), reader delivers %d bytes then fails (%+v), ignoreErrors=%v -> restored %d, failed %d, err %q: %v", d.C.Name, len(d.Bytes), len(d.Recs), k, j.Reader, ig, res.Count, res.Fail, res.Err, bad), rp)
				}
				classes["failing-reader/"+cls]++
				r.Nontrivial(fmt.Sprintf("%d/%v/%v", j.Dump, j.Reader, ig))
				onBoundary := k == len(d.Bytes)
				for _, rc := range d.Recs {
					onBoundary = onBoundary || k == rc.Off
				}
				if onBoundary && len(d.Recs) == 3 {
					r.Sample(map[string]any{"dump": d.C.Name, "reader_fails_after_bytes": k, "on_record_boundary": true, "ignoreErrors": ig, "restored": res.Count, "err": res.Err})
				}
				continue
			}
			if j.CorrOff < 0 {
				bad := judgeIntact(d, res)
				cls := "exact"
				if len(bad) > 0 {
					cls = "not-exact"
					fp := "intact-dump:" + j.Reader.Class + ":restore-not-exact"
					r.Violation(fp, fmt.Sprintf("dump %s (%d bytes, %d objects), reader %+v, ignoreErrors=%v: %v [short reads delivered: %d]", d.C.Name, len(d.Bytes), len(d.Recs), j.Reader, ig, bad, res.ShortReads), rp)
				}
				classes[j.Reader.Class+"/"+cls]++
				if res.ShortReads > 0 || j.Reader.EOFData {
					r.Nontrivial(fmt.Sprintf("%d/%v/%v", j.Dump, j.Reader, ig))
				}
				if res.ShortReads > 1 && len(d.Recs) >= 2 {
					r.Sample(map[string]any{"dump": d.C.Name, "dump_bytes": len(d.Bytes), "reader": j.Reader, "ignoreErrors": ig, "restored": res.Count, "failed": res.Fail, "err": res.Err, "short_reads": res.ShortReads})
				}
				continue
			}
			// corrupted record k
			k := -1
			for x, rc := range d.Recs {
				if j.CorrOff >= rc.Off && j.CorrOff < rc.Off+4+len(rc.Data) {
					k = x
				}
			}
			inSize := j.CorrOff < d.Recs[k].Off+4
			cdata := append([]byte(nil), d.Recs[k].Data...)
			detectable := false
			if !inSize {
				cdata[j.CorrOff-d.Recs[k].Off-4] ^= j.CorrXor
				detectable = new(object.Object).Unmarshal(cdata) != nil
			}
			before := map[int]bool{}
			for x := k; x < len(d.Recs); x++ {
				before[x] = true
			}
			allButK := map[int]bool{k: true}
			var bad []string
			cls := ""
			switch {
			case inSize:
				// framing is lost from here on; demand only: no false claim of full success, and the
				// records before the damaged one are intact
				cls = "size-field"
				if res.Err == "" && res.Fail == 0 && res.Count == len(d.Recs) {
					bad = append(bad, "claims full success")
				}
				for _, b := range compareSet(d.Recs[:k], nil, restoreRes{Blob: pick(res.Blob, d.Recs[:k]), WC: pick(res.WC, d.Recs[:k]), Meta: pickList(res.Meta, d.Recs[:k])}) {
					bad = append(bad, "before damaged record: "+b)
				}
			case detectable && !ig:
				cls = "undecodable/report"
				if res.Err == "" {
					bad = append(bad, "no error reported")
				}
				if res.Count != k || res.Fail != 0 {
					bad = append(bad, fmt.Sprintf("counts (%d,%d), want (%d,0)", res.Count, res.Fail, k))
				}
				bad = append(bad, compareSet(d.Recs, before, res)...)
			case detectable && ig:
				cls = "undecodable/skip"
				if res.Err != "" {
					bad = append(bad, "error returned although asked to skip: "+res.Err)
				}
				if res.Count != len(d.Recs)-1 || res.Fail != 1 {
					bad = append(bad, fmt.Sprintf("counts (%d,%d), want (%d,1)", res.Count, res.Fail, len(d.Recs)-1))
				}
				bad = append(bad, compareSet(d.Recs, allButK, res)...)
			default:
				// still decodes as some object: Restore has no means to notice. Only the untouched
				// records are judged (all of them if no error, those before k otherwise).
				cls = "still-decodable"
				undetected++
				others := d.Recs[:k]
				if res.Err == "" {
					others = append(append([]record(nil), d.Recs[:k]...), d.Recs[k+1:]...)
					if res.Count+res.Fail != len(d.Recs) {
						bad = append(bad, fmt.Sprintf("counts (%d,%d) do not add up to %d", res.Count, res.Fail, len(d.Recs)))
					}
				}
				for _, b := range compareSet(others, nil, restoreRes{Blob: pick(res.Blob, others), WC: pick(res.WC, others), Meta: pickList(res.Meta, others)}) {
					bad = append(bad, "untouched record: "+b)
				}
			}
			if len(bad) > 0 {
				r.Violation("corrupted-record:"+cls+":"+j.Reader.Class, fmt.Sprintf("dump %s, byte %d (record %d) xor %#x, reader %+v, ignoreErrors=%v -> restored %d, failed %d, err %q: %v", d.C.Name, j.CorrOff, k, j.CorrXor, j.Reader, ig, res.Count, res.Fail, res.Err, bad), rp)
				cls += "/VIOLATED"
			}
			classes["corrupt:"+cls]++
			r.Nontrivial(fmt.Sprintf("%d/%d/%d/%v", j.Dump, j.CorrOff, j.CorrXor, ig))
			if detectable && k == 1 {
				r.Sample(map[string]any{"dump": d.C.Name, "corrupted_offset": j.CorrOff, "xor": j.CorrXor, "record": k, "ignoreErrors": ig, "restored": res.Count, "failed": res.Fail, "err": res.Err})
			}
		}
	}

	if r.Replay != "" {
		var rp struct {
			Job          job
			IgnoreErrors bool
		}
		r.LoadReplay(&rp)
		rp.Job.Ignore = []bool{rp.IgnoreErrors}
		check(rp.Job, runJob(rp.Job))
		finish()
	}

	// ----- enumerate -----
	both := []bool{false, true}
	var jobs []job
	add := func(di int, sp readerSpec, off int, x byte, ig []bool) {
		jobs = append(jobs, job{Dump: di, DumpSum: dumps[di].Sum, Reader: sp, CorrOff: off, CorrXor: x, Ignore: ig})
	}
	for di, d := range dumps {
		L := len(d.Bytes)
		add(di, readerSpec{Class: "full-reads"}, -1, 0, both)
		add(di, readerSpec{Class: "final-bytes-with-EOF", EOFData: true}, -1, 0, both)
		for p := 1; p < L; p++ { // every single split point
			add(di, readerSpec{Class: "short-reads", Cuts: []int{p}}, -1, 0, both)
		}
		for k := 1; k <= 16; k++ {
			add(di, readerSpec{Class: "short-reads", Chunk: k}, -1, 0, both)
		}
		for _, k := range []int{1, 3, 64} {
			add(di, readerSpec{Class: "final-bytes-with-EOF", Chunk: k, EOFData: true}, -1, 0, both)
		}
	}
	// failing reader: exactly k bytes, then a non-EOF error, for every k in [0, len]
	for di, d := range dumps {
		L := len(d.Bytes)
		near := map[int]bool{}
		for _, rc := range d.Recs {
			for x := -4; x <= 8; x++ {
				near[rc.Off+x] = true
			}
		}
		for k := 0; k <= L; k++ {
			add(di, readerSpec{Class: "failing-reader", FailAt: k + 1}, -1, 0, both)
			add(di, readerSpec{Class: "failing-reader", FailAt: k + 1, ErrWithData: true}, -1, 0, both)
			if near[k] || k >= L-8 { // chunked delivery around every record boundary and the tail
				add(di, readerSpec{Class: "failing-reader", FailAt: k + 1, Chunk: 1}, -1, 0, both)
				add(di, readerSpec{Class: "failing-reader", FailAt: k + 1, Chunk: 3, ErrWithData: true}, -1, 0, both)
			}
		}
	}
	// every composition of chunk sizes inside a window
	win := 9
	winDumps := []int{2}
	if r.Thorough() {
		win = 13
		winDumps = []int{2, 7}
	}
	for _, di := range winDumps {
		d := dumps[di]
		L := len(d.Bytes)
		b1 := d.Recs[1].Off // boundary between record 0 and record 1
		for _, start := range []int{0, 6, b1 - win/2, L - win} {
			for m := 1; m < 1<<uint(win); m++ { // m=0 is the full read
				var cuts []int
				for b := 0; b < win; b++ {
					if m&(1<<uint(b)) != 0 && start+b+1 < L {
						cuts = append(cuts, start+b+1)
					}
				}
				add(di, readerSpec{Class: "short-reads", Cuts: cuts}, -1, 0, both)
			}
		}
	}
	// single-byte corruption of every byte of every record of the 3-object dump
	cd := 3
	masks := []byte{0x01, 0x80, 0xff}
	for _, rc := range dumps[cd].Recs {
		for off := rc.Off; off < rc.Off+4+len(rc.Data); off++ {
			for _, x := range masks {
				add(cd, readerSpec{Class: "full-reads"}, off, x, both)
			}
		}
	}

	pool := procpool.Start(runJob)
	res, done := pool.Map(jobs, r.Expired)
	pool.Close()
	complete := true
	for i := range jobs {
		if !done[i] {
			complete = false
			continue
		}
		check(jobs[i], res[i])
	}
	for k, v := range classes {
		r.Set("class:"+k, v)
	}
	r.Set("outcome_classes", len(classes))
	r.Set("corruptions_that_still_decode_as_an_object", undetected)
	var sizes []int
	for _, d := range dumps {
		sizes = append(sizes, len(d.Bytes))
	}
	r.Set("dump_sizes", sizes)
	r.Rule(fmt.Sprintf("9 real dumps (0..4 objects, no write-cache / all cached / part flushed), each restored with ignoreErrors off and on through: full reads; final bytes with EOF; EVERY single split point; max chunk 1..16; plus every subset of split points inside %d-byte windows (stream head, offset 6, record boundary, tail) of %d dump(s); plus a FAILING reader: for every dump and every k in [0,len] exactly k bytes are delivered and then a non-EOF error (also delivered together with the last bytes; also chunked 1 and 3 around every record boundary and the tail) - Restore must return an error or have stored the whole dump, ignoreErrors off and on; plus every byte of every record of the 3-object dump xor {01,80,ff} (size fields included). Non-trivial = the reader really delivered a short read / EOF with data, or a byte was corrupted", win, len(winDumps)))
	r.Exhaustive(complete)
	r.Assume("a failing reader is not a corrupted record: ignoreErrors (documented as 'corrupted objects are just skipped') gives no licence to return nil after a reader error with objects missing",
		"a corrupted record is 'detectable' iff the SDK cannot decode it as an object; payload/ID flips that still decode are stored as decoded and only the untouched records are judged",
		"after a damaged size field the format cannot resynchronise: only 'no false claim of full success' and 'records before the damaged one intact' are demanded there",
		"restore.go's binary.LittleEndian.Uint32 is routed through props/c46/vbinary: same value, but a decoded record size above 64 KiB (the dumps are < 1 KiB) stops the Restore call with a recoverable panic instead of a multi-GiB allocation; such a stop on an intact dump is judged like any other failed restore")
	finish()
}

func pick(m map[string]string, recs []record) map[string]string {
	out := map[string]string{}
	for _, rc := range recs {
		if s, ok := m[rc.Addr]; ok {
			out[rc.Addr] = s
		}
	}
	return out
}

func pickList(l []string, recs []record) []string {
	var out []string
	for _, a := range l {
		for _, rc := range recs {
			if rc.Addr == a {
				out = append(out, a)
			}
		}
	}
	return out
}
