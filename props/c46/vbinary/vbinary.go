// Package vbinary replaces "encoding/binary" in pkg/local_object_storage/shard/restore.go (the only
// thing that file uses is binary.LittleEndian.Uint32, to decode a record size). It is a safety
// guard for the C46 harness, not a model: the decoded value is returned unchanged, but when it
// exceeds Limit (the harness sets it far above every record of its dumps) the call panics with
// TooLarge instead of letting Restore allocate up to 4 GiB for a "record" of a 1 KB stream. The
// harness recovers the panic and records "Restore decoded a record size of V".
package vbinary

import (
	"encoding/binary"
	"sync/atomic"
)

// Limit is the largest record size Restore may decode without tripping the guard (0 = no guard).
var Limit atomic.Uint32

// TooLarge is the panic value of a tripped guard.
type TooLarge struct{ V uint32 }

type littleEndian struct{}

// LittleEndian mimics binary.LittleEndian for the one method restore.go needs.
var LittleEndian littleEndian

func (littleEndian) Uint32(b []byte) uint32 {
	v := binary.LittleEndian.Uint32(b)
	if l := Limit.Load(); l != 0 && v > l {
		panic(TooLarge{v})
	}
	return v
}
