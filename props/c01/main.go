// C01: object visibility follows tombstone / garbage / expiry / lock rules in all views.
//
// Explicit-state BFS (lib/seqx) over the real metabase (worlds/metaworld): every operation sequence
// up to the depth bound; in every reached state every address of the universe is asked through every
// read view (Exists, Exists(ignoreExpiration), Get, Get(raw), Select unfiltered/ROOT/PHY/attribute/
// type, ListWithCursor full and paged, IterateExpired, IsLocked, ResolveECPart, GetGarbage) and the
// answers are compared with (1) the reference model's status projected on the view's vocabulary
// and (2) a model-free cross-view consistency oracle.
package main

import (
	"fmt"
	"os"
	"sort"
	"strings"
	"sync"
	"time"

	"github.com/nspcc-dev/neofs-node/verif/lib/ev"
	"github.com/nspcc-dev/neofs-node/verif/lib/seqx"
	mw "github.com/nspcc-dev/neofs-node/verif/worlds/metaworld"
)

var (
	outcomeMu sync.Mutex
	outcomes  = map[string]struct{}{}
	debug     = os.Getenv("VERIF_DEBUG") != ""
	dbgFails  = map[string]string{}
)

func outcome(view string, c fmt.Stringer) {
	k := view + "=" + c.String()
	outcomeMu.Lock()
	outcomes[k] = struct{}{}
	outcomeMu.Unlock()
}

// ctx renders the structural situation of x in the model (no concrete IDs): part of fingerprints.
func ctx(m *mw.Model, x string) string {
	s := mw.ByName[x]
	stored, phys := m.Stored(x)
	mk, unsure := m.MarkOf(x)
	var p []string
	p = append(p, "kind="+s.Kind.String())
	switch {
	case !stored:
		p = append(p, "unstored")
	case phys:
		p = append(p, "phys")
	default:
		p = append(p, "header-only")
	}
	if m.C[s.Cnr].Removed {
		p = append(p, "container-removed")
	}
	switch mk {
	case mw.MarkDefault:
		p = append(p, "marked")
	case mw.MarkRedundant:
		p = append(p, "marked-redundant")
	}
	if unsure {
		p = append(p, "mark-unsure")
	}
	if m.Tombstoned(x) {
		p = append(p, "tombstoned")
	}
	if ls, ll := m.LockInfo(x); ls > 0 {
		p = append(p, fmt.Sprintf("locks(live=%d,stored=%d)", ll, ls))
	}
	if m.Locked(x) == mw.Either {
		p = append(p, "lock-unsure")
	}
	if m.OwnExpiredUnlocked(x) == mw.Yes {
		p = append(p, "own-expired")
	}
	if par, hdr := m.ParentOf(x); par != "" {
		how := "first-part"
		if hdr {
			how = "header"
			if mw.ByName[x].Parent == "" {
				how = "chain-ref" // bound by first-part ID / split ID, parent revealed by a sibling
			}
		}
		p = append(p, fmt.Sprintf("parent(%s)=%s", how, m.Status(par, false)))
	}
	return strings.Join(p, ",")
}

func isRoot(s *mw.Spec) bool {
	switch s.Kind {
	case mw.KRegular, mw.KVirtSplit:
		return true
	case mw.KVirtEC:
		return s.Parent == ""
	}
	return false
}

// absentAdjust: "available" for an address that is not indexed means plain absence, which every
// view reports as not found.
func absentAdjust(st mw.St, stored bool) mw.St {
	if st&mw.Avail != 0 && !stored {
		st = st&^mw.Avail | mw.NotFound
	}
	return st
}

type failure struct{ fp, what string }

func oracle(s *mw.Sys) (string, string) {
	m := s.M
	o := s.W.Observe()
	var fails []failure
	fail := func(fp, what string) { fails = append(fails, failure{fp, what}) }

	if len(o.Foreign) > 0 {
		fail("view:foreign-or-error", strings.Join(o.Foreign, "; "))
	}
	for _, sp := range mw.Specs {
		x := sp.Name
		a := o.A[x]
		firstFail := len(fails)
		stored, phys := m.Stored(x)
		st := m.Status(x, false)
		removedCnr := m.C[sp.Cnr].Removed
		if a.Errs != "" {
			fail("view:unexpected-error:"+ctx(m, x), x+": "+a.Errs)
		}
		outcome("Exists", a.Exists)
		outcome("Get", a.Get)
		outcome("GetRaw", a.GetRaw)
		outcome("EC", a.EC)

		// ---- status views against the model ----
		if st != 0 {
			want := absentAdjust(st, stored)
			for _, v := range []struct {
				name string
				got  mw.Cls
			}{{"Exists", a.Exists}, {"Get", a.Get}, {"Get(raw)", a.GetRaw}} {
				if v.got == mw.ClsOther {
					continue // reported above
				}
				if v.got.St()&want == 0 {
					fail(fmt.Sprintf("status:%s:want=%s:got=%s:%s", v.name, want, v.got, ctx(m, x)),
						fmt.Sprintf("%s(%s) reports %s, rules allow {%s}", v.name, x, v.got, want))
				}
			}
			if a.Get == mw.ClsPresent && !a.GetHdrOK {
				fail("status:Get:wrong-header:"+ctx(m, x), "Get("+x+") returned a header with wrong id/type/size")
			}
			// ResolveECPart on an arbitrary address: a removal verdict must be one the rules allow
			// (EC parents are judged together with the resolved part further below)
			if sp.Kind != mw.KVirtEC && (a.EC == mw.ClsRemoved || a.EC == mw.ClsExpired) && a.EC.St()&want == 0 {
				fail(fmt.Sprintf("status:ResolveECPart:want=%s:got=%s:%s", want, a.EC, ctx(m, x)),
					fmt.Sprintf("ResolveECPart(%s) reports %s, rules allow {%s}", x, a.EC, want))
			}
		}
		if a.EC == mw.ClsOther {
			fail("view:ResolveECPart:other-error:"+ctx(m, x), "ResolveECPart("+x+") failed unexpectedly")
		}
		// Exists ignoring expiration (only judged while no lock of the container is itself expired:
		// the text does not say whether an expired lock still counts there)
		if stn := m.Status(x, true); stn != 0 && !m.HasExpiredLock(sp.Cnr) && a.ExistsNoExp != mw.ClsOther {
			want := absentAdjust(stn, stored)
			if a.ExistsNoExp.St()&want == 0 {
				fail(fmt.Sprintf("status:Exists(ignoreExpiration):want=%s:got=%s:%s", want, a.ExistsNoExp, ctx(m, x)),
					fmt.Sprintf("Exists(%s, ignoreExpiration) reports %s, rules allow {%s}", x, a.ExistsNoExp, want))
			}
		}

		// ---- search ----
		if st != 0 {
			must := stored && st == mw.Avail
			mustNot := !stored || st&mw.Avail == 0
			for _, v := range []struct {
				name string
				got  bool
				sel  bool
			}{{"Search", a.InAll, true}, {"Search(ROOT)", a.InRoot, isRoot(sp)}, {"Search(PHY)", a.InPhy, phys},
				{"Search(attr)", a.InAttr, sp.Attr == "doc"}, {"Search(type)", a.InType, sp.Type.String() == "REGULAR"}} {
				if v.got && (mustNot || !v.sel) {
					fail(fmt.Sprintf("search:%s:unexpected-hit:status=%s:%s", v.name, st, ctx(m, x)),
						fmt.Sprintf("%s returns %s whose status is {%s} (selected by filter: %v)", v.name, x, st, v.sel))
				}
				if !v.got && must && v.sel {
					fail(fmt.Sprintf("search:%s:missing:%s", v.name, ctx(m, x)),
						fmt.Sprintf("%s omits available object %s", v.name, x))
				}
			}
		}

		// ---- listing: omits exactly the objects marked for removal ----
		{
			mk, unsure := m.MarkOf(x)
			par, _ := m.ParentOf(x)
			parBad := par != "" && m.Status(par, true) != mw.Avail
			switch {
			case !stored || !phys || removedCnr || mk == mw.MarkDefault || m.Tombstoned(x):
				if a.InList {
					fail("list:unexpected:"+ctx(m, x), "ListWithCursor returns "+x+" which is not a stored physical object or is marked for removal")
				}
			case mk == mw.MarkNone && !unsure && !parBad:
				if !a.InList {
					fail("list:missing:"+ctx(m, x), "ListWithCursor omits "+x+" which is stored, physical and not marked for removal")
				}
			}
		}

		// ---- expired iteration: exactly the expired, unlocked objects of live containers ----
		{
			t := m.OwnExpiredUnlocked(x)
			if removedCnr {
				t = mw.No
			}
			inherits := false
			if par, _ := m.ParentOf(x); par != "" && !removedCnr {
				inherits = m.Status(par, false)&mw.Expired != 0
			}
			if t == mw.Yes && !a.InExpired {
				fail("expired-iter:missing:"+ctx(m, x), "IterateExpired omits "+x+" which is expired and not locked")
			}
			if t == mw.No && a.InExpired && !inherits {
				fail("expired-iter:unexpected:"+ctx(m, x), "IterateExpired yields "+x+" which is not expired, or locked, or in a removed container")
			}
		}

		// ---- lock view ----
		if !removedCnr {
			t := m.Locked(x)
			if (t == mw.Yes && !a.Locked) || (t == mw.No && a.Locked) {
				fail(fmt.Sprintf("lock:IsLocked=%v:%s", a.Locked, ctx(m, x)), fmt.Sprintf("IsLocked(%s)=%v, the rules say %v", x, a.Locked, t == mw.Yes))
			}
		}

		// ---- garbage iteration ----
		{
			mk, unsure := m.MarkOf(x)
			switch {
			case removedCnr:
				// every physical object of a removed container is garbage, nothing that is not indexed
				// is; whether header-only parents are listed is not specified (they go with their children)
				if (phys && !a.InGarbage) || (!stored && a.InGarbage) {
					fail(fmt.Sprintf("garbage:removed-container:listed=%v:%s", a.InGarbage, ctx(m, x)), fmt.Sprintf("GetGarbage lists %s of a removed container: %v, indexed: %v, physical: %v", x, a.InGarbage, stored, phys))
				}
			case unsure:
			case (mk != mw.MarkNone) != a.InGarbage:
				fail(fmt.Sprintf("garbage:listed=%v:%s", a.InGarbage, ctx(m, x)), fmt.Sprintf("GetGarbage lists %s: %v, marked in the model: %v", x, a.InGarbage, mk != mw.MarkNone))
			}
		}

		// ---- cross-view consistency (no model) ----
		if a.Exists != mw.ClsOther && a.Get != mw.ClsOther {
			if a.Exists.St() != a.Get.St() || a.Get.St() != a.GetRaw.St() {
				fail(fmt.Sprintf("cross:Exists=%s:Get=%s:GetRaw=%s:kind=%s", a.Exists, a.Get, a.GetRaw, sp.Kind), fmt.Sprintf("views disagree on %s: Exists=%s Get=%s Get(raw)=%s", x, a.Exists, a.Get, a.GetRaw))
			}
			if a.InAll != (a.Exists == mw.ClsPresent || a.Exists == mw.ClsVirtual) {
				fail(fmt.Sprintf("cross:Search=%v:Exists=%s:kind=%s", a.InAll, a.Exists, sp.Kind), fmt.Sprintf("unfiltered search contains %s: %v but Exists says %s", x, a.InAll, a.Exists))
			}
			if (a.InRoot || a.InPhy || a.InAttr || a.InType) && !a.InAll {
				fail("cross:filtered-search-not-subset-of-unfiltered:kind="+sp.Kind.String(), "a filtered search returns "+x+" which the unfiltered one omits")
			}
			if a.InExpired && a.Exists != mw.ClsExpired {
				fail(fmt.Sprintf("cross:IterateExpired-yields:Exists=%s:kind=%s", a.Exists, sp.Kind), fmt.Sprintf("IterateExpired yields %s but Exists says %s", x, a.Exists))
			}
			if a.Locked && sp.Chain == "" && a.Exists == mw.ClsExpired {
				fail("cross:IsLocked-but-expired:kind="+sp.Kind.String(), "IsLocked("+x+") is true but Exists says expired")
			}
			if (a.Exists == mw.ClsPresent || a.Exists == mw.ClsVirtual) && a.ExistsNoExp != a.Exists {
				fail(fmt.Sprintf("cross:Exists=%s:ExistsIgnoringExpiration=%s:kind=%s", a.Exists, a.ExistsNoExp, sp.Kind), "ignoring expiration makes "+x+" less available")
			}
		}
		// One structural class for every view failure on an object protected by several locks of
		// which some, but not all, are live (expired / garbage-marked ones next to a live one).
		if ls, ll := m.LockInfo(x); len(fails) > firstFail && ls >= 2 && ll >= 1 && ll < ls {
			what := fails[firstFail].what
			fails = append(fails[:firstFail], failure{"lock:several-locks-on-one-object:some-not-live-but-one-live:treated-as-unlocked",
				fmt.Sprintf("%s (%d lock objects target %s, %d of them live)", what, ls, x, ll)})
		}
	}

	// ---- EC part resolution for the EC families ----
	ecCheck := func(parent, part string, got mw.Cls, gotPart string) {
		outcome("ECpart", got)
		pstored, _ := m.Stored(part)
		var want mw.St
		if pstored {
			want = m.Status(part, false) // includes what the part inherits from its parent
		} else {
			want = absentAdjust(m.Status(parent, false), false)
		}
		if want == 0 || got == mw.ClsOther {
			return
		}
		if got == mw.ClsPresent && gotPart != part {
			fail("ec:wrong-part", fmt.Sprintf("ResolveECPart(%s, idx of %s) returned %s", parent, part, gotPart))
			return
		}
		partUnavailable := got == mw.ClsPresent && o.A[part].Exists != mw.ClsPresent
		switch {
		case got == mw.ClsPresent && pstored && m.Status(parent, false)&mw.Avail != 0 && (got.St()&want == 0 || partUnavailable):
			// the parent is fine, the resolved part itself is not (model verdict and/or the part's own
			// Exists answer): one structural class per observed status of the part
			fail(fmt.Sprintf("ec:resolved-part-is-not-available:Exists(part)=%s", o.A[part].Exists),
				fmt.Sprintf("ResolveECPart(%s, index of %s) returns %s although the rules give the part status {%s} and Exists(%s) = %s", parent, part, gotPart, want, part, o.A[part].Exists))
		case got.St()&want == 0:
			fail(fmt.Sprintf("ec:want=%s:got=%s:part[%s]:parent[%s]", want, got, ctx(m, part), ctx(m, parent)),
				fmt.Sprintf("ResolveECPart(%s -> %s) reports %s, rules allow {%s}", parent, part, got, want))
		case partUnavailable:
			fail(fmt.Sprintf("cross:ResolveECPart-returns-part:Exists(part)=%s", o.A[part].Exists), fmt.Sprintf("ResolveECPart(%s) resolves %s which Exists reports as %s", parent, gotPart, o.A[part].Exists))
		}
	}
	ecCheck("E", "E0", o.A["E"].EC, o.A["E"].ECPart)
	ecCheck("E", "E1", o.EC1, o.EC1Part)
	ecCheck("D", "D0", o.A["D"].EC, o.A["D"].ECPart)

	if strings.Join(o.ListFull, ",") != strings.Join(o.ListPaged, ",") {
		fail("cross:list-paged-differs-from-full", fmt.Sprintf("ListWithCursor pages of 2 give %v, one page gives %v", o.ListPaged, o.ListFull))
	}
	for c := 0; c < mw.NCnr; c++ {
		empty, anyPhys := len(m.C[c].Objs) == 0, false
		for _, rec := range m.C[c].Objs {
			anyPhys = anyPhys || rec.Phys
		}
		// removable iff removed and nothing left; with only header-only parents left either answer is fine
		must, mustNot := m.C[c].Removed && empty, !m.C[c].Removed || anyPhys
		if (must && !o.CnrGarbage[c]) || (mustNot && o.CnrGarbage[c]) {
			fail(fmt.Sprintf("garbage:container-removable=%v:removed=%v:empty=%v:physical-left=%v", o.CnrGarbage[c], m.C[c].Removed, empty, anyPhys), "GetGarbage container verdict for "+mw.CnrNames[c])
		}
	}

	if len(fails) == 0 {
		return "", ""
	}
	if debug {
		outcomeMu.Lock()
		for _, f := range fails {
			if _, ok := dbgFails[f.fp]; !ok {
				dbgFails[f.fp] = fmt.Sprintf("%v: %s", s.HistNames(), f.what)
			}
		}
		outcomeMu.Unlock()
	}
	return fails[0].fp, fails[0].what + fmt.Sprintf(" [epoch %d, %d oracle failures in this state]", m.Epoch, len(fails))
}

func main() {
	r := ev.Start("C01", ev.ModelChecking)
	if r.Quick() && r.Budget == 90*time.Second { // the default; an explicit -budget is respected
		r.Budget = 70 * time.Second // leave room for the build inside the 90 s quick-tier envelope
	}
	scratch := mw.MkScratch("verif-c01")
	defer os.RemoveAll(scratch)

	full := append(mw.FullAlphabet(), mw.MacroOps()...)
	// reduced alphabet for the deeper run: the letters that change a status (locks incl. the second
	// lock on R1, marks on objects and on a lock, tombstones, revivals, epoch ticks, the split chain,
	// the EC and the two-level family, container removal) plus the scripted prefixes
	statusNames := []string{"Put(R1)", "Put(L1)", "Put(L4)", "Put(T1)", "Put(C1)", "Put(C2)", "Put(T2)", "Put(E0)", "Put(D0)", "Epoch+1",
		"MarkGarbage(R1)", "MarkGarbage(L1)", "MarkGarbage(P)", "MarkGarbage(E)", "MarkRedundant(R1)",
		"Delete(T1)", "Delete(C2)", "Revive(R1)", "Revive(C2)", "Revive(P)", "InhumeContainer(cA)"}
	status := append(mw.OpsByName(statusNames...), mw.MacroOps()...)
	// chain-shape alphabet: a v2 chain with three middle parts (no parent header, IDs before /
	// between / after the last part and the link) and a v1 chain with two non-last parts (IDs before /
	// after the last part), every subset and put order, parent expiry, tombstone or mark on the parent
	chain := append(mw.ChainAlphabet(), mw.ChainMacroOps()...)
	fullDepth, statusDepth, chainDepth := 2, 3, 3
	if r.Thorough() {
		fullDepth, statusDepth, chainDepth = 3, 4, 4
	}
	// replays resolve names over the union of the alphabets
	var all []mw.Op
	seenOp := map[string]bool{}
	for _, o := range append(append(append([]mw.Op{}, full...), status...), chain...) {
		if !seenOp[o.String()] {
			seenOp[o.String()] = true
			all = append(all, o)
		}
	}
	mk := func(ops []mw.Op, depth int) seqx.Config {
		return seqx.Config{NumOps: len(ops), MaxDepth: depth, CheckInit: true,
			OpName: func(i int) string { return ops[i].String() },
			New:    func() seqx.Sys { return mw.NewSys(ops, oracle) }}
	}

	if r.Replay != "" {
		var rp struct{ Ops []string }
		r.LoadReplay(&rp)
		fp, what, err := seqx.Replay(mk(all, 0), rp.Ops)
		if err != nil {
			os.RemoveAll(scratch)
			r.Fatal("%v", err)
		}
		if fp != "" {
			r.Violation(fp, what, rp)
		}
		os.RemoveAll(scratch)
		r.Finish()
	}

	res := seqx.Run(r, mk(full, fullDepth))
	var res2, res3 seqx.Result
	if !r.Expired() {
		res3 = seqx.Run(r, mk(chain, chainDepth))
	}
	if !r.Expired() {
		res2 = seqx.Run(r, mk(status, statusDepth))
	}
	if debug {
		var ks []string
		for k := range dbgFails {
			ks = append(ks, k)
		}
		sort.Strings(ks)
		for _, k := range ks {
			fmt.Printf("DBG %s\n      %s\n", k, dbgFails[k])
		}
	}
	r.Exhaustive(res.Exhaustive && res2.Exhaustive && res3.Exhaustive)
	r.Set("depth_completed", fmt.Sprintf("full alphabet: %d, chain alphabet: %d, status alphabet: %d", res.DepthCompleted, res3.DepthCompleted, res2.DepthCompleted))
	r.Set("outcome_classes", len(outcomes))
	r.Set("alphabet_size", fmt.Sprintf("full %d (incl. %d macros), chain %d (incl. %d macros), status %d", len(full), len(mw.MacroOps()), len(chain), len(mw.ChainMacroOps()), len(status)))
	r.Set("universe_addresses", len(mw.Specs))
	r.Rule(fmt.Sprintf("three BFS runs with state dedup from the empty metabase: (1) all sequences of <= %d letters over the main alphabet = %d elementary operations (Put of every physical member of the main universe, Epoch+1, MarkGarbage default/redundant, Delete, Revive, InhumeContainer, DeleteContainer on hand-picked targets) + %d scripted prefixes (macros, enabled in the initial state only) that seed dense situations; (2) all sequences of <= %d letters over the %d-letter chain-shape alphabet: a v2 split chain with first part, three middle parts without parent header whose IDs sort before / between / after the last part and the link, last part and link, and a v1 chain with two non-last parts sorting before / after the last part -- every subset and order of puts (so the ID order among the stored siblings is explored), expiry of the parent, tombstone or garbage mark on the parent, revival and deletion of parts, plus 3 chain prefixes; (3) all sequences of <= %d letters over a reduced %d-letter status alphabet (locks incl. two locks on one object, marks on objects and on a lock, tombstones, revivals, epoch ticks, split chain, EC and two-level families, container removal, same prefixes); state key = raw bbolt dump + epoch + reference model; a case is non-trivial when it reaches a state not seen before; after every transition all %d addresses are queried through every view (depths completed: %d, %d and %d)", fullDepth, len(mw.FullAlphabet()), len(mw.MacroOps()), chainDepth, len(chain), statusDepth, len(status), len(mw.Specs), res.DepthCompleted, res3.DepthCompleted, res2.DepthCompleted))
	r.Assume("single-threaded histories on one metabase; acceptance of each operation is taken from the implementation's return value",
		"where the property text is silent (precedence between several removal reasons, tombstone vs live lock, garbage mark requested for an address that is not stored, first part of a v2 split chain (it carries neither a parent header nor a chain reference), redundant marks in listing, Exists(ignoreExpiration) with an expired lock) any of the plausible answers is accepted")
	os.RemoveAll(scratch)
	r.Finish()
}
