// C08: an object locked through the engine stays retrievable until the lock expires.
//
// Explicit-state BFS (lib/seqx) over a real StorageEngine with 2 (thorough: also 3) real shards.
// Universe: one regular object O (two alternative versions with the same ID: without expiration, or
// expiring at epoch 0, i.e. before its lock), a LOCK object L -> O expiring at epoch 1, a second lock
// L2 -> O with the smaller object ID expiring at epoch 0 (quick: put by macros only), a TOMBSTONE
// object T -> O.
//
// Alphabet: engine Put of O / of L / of T (the lock and tombstone broadcasts with every visiting
// order of the shard map as separate letters), SetShardMode per shard, failing the next blob put of
// a shard, a synchronous GC pass of a shard (expired collection through the engine callback with
// both visiting orders, then garbage removal), Epoch+1 delivered to all shards, Evacuate(shard).
// Root-only "macro" letters run scripted prefixes made of the same letters (with the oracle after
// each step) so that the bounded search starts from the interesting lock placements.
//
// Oracle (history monitor riding in the seqx.Sys): the engine ACCEPTED a lock when Put(L) returned
// nil while Get(O) was succeeding and the lock was not expired. From then on and until
// epoch > expiration(L), after EVERY transition engine.Get(O) must return O with identical bytes,
// unless no shard that has held a copy of O since then could serve an unlocked, never removed object
// stored the same way (its blob reads are failing, or the copy was put while the shard had no
// metabase and the metabase, now open, has never listed it). Nothing else is
// demanded: tombstones may be accepted or rejected, the lock state of single shards is not judged.
package main

import (
	"context"
	"errors"
	"flag"
	"fmt"
	"os"
	"sort"
	"strconv"
	"strings"
	"sync"
	"sync/atomic"
	"time"

	"github.com/nspcc-dev/neofs-node/pkg/local_object_storage/blobstor/common"
	meta "github.com/nspcc-dev/neofs-node/pkg/local_object_storage/metabase"
	"github.com/nspcc-dev/neofs-node/pkg/local_object_storage/shard"
	"github.com/nspcc-dev/neofs-node/pkg/local_object_storage/shard/mode"
	"github.com/nspcc-dev/neofs-node/verif/lib/enumx"
	"github.com/nspcc-dev/neofs-node/verif/lib/ev"
	"github.com/nspcc-dev/neofs-node/verif/lib/seqx"
	"github.com/nspcc-dev/neofs-node/verif/shim/vmaps"
	ew "github.com/nspcc-dev/neofs-node/verif/worlds/engineworld"
	apistatus "github.com/nspcc-dev/neofs-sdk-go/client/status"
	"github.com/nspcc-dev/neofs-sdk-go/object"
	oid "github.com/nspcc-dev/neofs-sdk-go/object/id"
)

const (
	lockExp  = 1 // expiration epoch of L: the lock is live in epochs 0 and 1
	lock2Exp = 0 // expiration epoch of L2 (smaller ID than L; quick: macros only)
	objExp   = 0 // expiration epoch of the expiring version of O (< lockExp)
	tombExp  = 9 // never reached
	maxEpoch = lockExp + 1
	errThr   = 2
)

var cnr = ew.CID("c08")

type opKind int

const (
	opPutO opKind = iota
	opPutL
	opPutT
	opSetMode
	opFailNextPut
	opToggleFailReads
	opGC
	opEpoch
	opEvacuate
	opMacro
)

type op struct {
	kind  opKind
	v     int       // opPutO: version of O (0 plain, 1 expiring); opPutL: lock index
	s     int       // shard index
	m     mode.Mode // opSetMode
	order []int     // visiting order of the engine's shard map during the op
	sub   []op      // opMacro: letters it runs
	name  string
}

type lockObj struct {
	obj *object.Object
	exp uint64
}

type universe struct {
	shards int
	prefix string
	o      [2]*object.Object // same ID; [1] carries the expiration attribute
	locks  []lockObj
	tomb   *object.Object
	sys    []*object.Object // locks + tombstone
	ops    []op
	idx    map[string]int
}

func modeName(m mode.Mode) string {
	switch m {
	case mode.ReadWrite:
		return "RW"
	case mode.ReadOnly:
		return "RO"
	case mode.DegradedReadOnly:
		return "DEGRADED_RO"
	case mode.Degraded:
		return "DEGRADED_RW"
	}
	return m.String()
}

func permName(p []int) string {
	s := make([]string, len(p))
	for i, x := range p {
		s[i] = strconv.Itoa(x)
	}
	return "visit-" + strings.Join(s, "-")
}

func expAttr(e uint64) [][2]string {
	return [][2]string{{object.AttributeExpirationEpoch, strconv.FormatUint(e, 10)}}
}

func buildUniverse(shards int, thorough bool) *universe {
	scratch, err := ew.New(ew.Config{NumShards: 3})
	if err != nil {
		panic(err)
	}
	defer scratch.Close()
	own := ew.Owner("c08")
	u := &universe{shards: shards, idx: map[string]int{}}
	if shards == 3 {
		u.prefix = "s3/"
	}
	// O: HRW visits shard 0, then 1, then 2
	idO := scratch.OIDForHRW("c08-O", []int{0, 1, 2})
	u.o[0] = ew.Build(ew.ObjSpec{Cnr: cnr, ID: idO, Owner: own, Payload: []byte("payload of the locked object"), Type: object.TypeRegular})
	u.o[1] = ew.Build(ew.ObjSpec{Cnr: cnr, ID: idO, Owner: own, Payload: []byte("payload of the locked object"), Type: object.TypeRegular, Attrs: expAttr(objExp)})
	u.locks = append(u.locks, lockObj{ew.Build(ew.ObjSpec{Cnr: cnr, ID: ew.OID("c08-L"), Owner: own, Type: object.TypeLock, Associate: idO, Attrs: expAttr(lockExp)}), lockExp})
	// L2 expires before L and has the SMALLER object ID: the metabase meets it first when it walks the
	// locks of O. Quick tier: L2 is put by macros only (no plain letter).
	idL2 := ew.OIDWithPrefix("c08-L2", 0x00)
	if string(idL2[:]) >= string(u.locks[0].obj.GetID().Marshal()) {
		panic("L2 must sort before L")
	}
	u.locks = append(u.locks, lockObj{ew.Build(ew.ObjSpec{Cnr: cnr, ID: idL2, Owner: own, Type: object.TypeLock, Associate: idO, Attrs: expAttr(lock2Exp)}), lock2Exp})
	u.tomb = ew.Build(ew.ObjSpec{Cnr: cnr, ID: ew.OID("c08-T"), Owner: own, Type: object.TypeTombstone, Associate: idO, Attrs: expAttr(tombExp)})
	for _, l := range u.locks {
		u.sys = append(u.sys, l.obj)
	}
	u.sys = append(u.sys, u.tomb)

	add := func(o op) int {
		o.name = u.prefix + o.name
		u.idx[o.name] = len(u.ops)
		u.ops = append(u.ops, o)
		return len(u.ops) - 1
	}
	var perms [][]int
	enumx.Perms(shards, func(p []int) bool { perms = append(perms, append([]int(nil), p...)); return true })
	add(op{kind: opPutO, v: 0, name: "Put(O)"})
	add(op{kind: opPutO, v: 1, name: "Put(O:expires@0)"})
	lnames := []string{"L", "L2"}
	hidden := map[string]op{} // letters that only macros use
	for li := range u.locks {
		for _, p := range perms {
			o := op{kind: opPutL, v: li, order: p, name: "Put(" + lnames[li] + ")/" + permName(p)}
			if li == 0 || thorough {
				add(o)
			} else {
				o.name = u.prefix + o.name
				hidden[o.name] = o
			}
		}
	}
	for _, p := range perms {
		add(op{kind: opPutT, order: p, name: "Put(T)/" + permName(p)})
	}
	modes := []mode.Mode{mode.ReadOnly, mode.DegradedReadOnly, mode.ReadWrite}
	if thorough {
		modes = append(modes, mode.Degraded)
	}
	for s := 0; s < shards; s++ {
		for _, m := range modes {
			add(op{kind: opSetMode, s: s, m: m, name: fmt.Sprintf("SetMode(%d,%s)", s, modeName(m))})
		}
	}
	for s := 0; s < shards; s++ {
		add(op{kind: opFailNextPut, s: s, name: fmt.Sprintf("FailNextPut(%d)", s)})
	}
	if thorough {
		for s := 0; s < shards; s++ {
			add(op{kind: opToggleFailReads, s: s, name: fmt.Sprintf("ToggleFailReads(%d)", s)})
		}
	}
	for s := 0; s < shards; s++ {
		// the expired-objects callback asks the engine's shards for locks in shard-map order: the shard
		// itself first, or each other shard first (these only differ once something can be expired)
		self := []int{s}
		for x := 0; x < shards; x++ {
			if x != s {
				self = append(self, x)
			}
		}
		add(op{kind: opGC, s: s, order: self, name: fmt.Sprintf("GCPass(%d)/%s", s, permName(self))})
		for x := 0; x < shards; x++ {
			if x == s {
				continue
			}
			p := []int{x, s}
			for y := 0; y < shards; y++ {
				if y != x && y != s {
					p = append(p, y)
				}
			}
			add(op{kind: opGC, s: s, order: p, name: fmt.Sprintf("GCPass(%d)/%s", s, permName(p))})
		}
	}
	add(op{kind: opEpoch, name: "Epoch+1"})
	for s := 0; s < shards; s++ {
		add(op{kind: opEvacuate, s: s, name: fmt.Sprintf("Evacuate(%d)", s)})
	}
	// macros: scripted prefixes, enabled in the initial state only
	id := permName(perms[0])
	macro := func(name string, sub ...string) {
		var ix []op
		for _, n := range sub {
			if i, ok := u.idx[u.prefix+n]; ok {
				ix = append(ix, u.ops[i])
			} else if h, ok := hidden[u.prefix+n]; ok {
				ix = append(ix, h)
			} else {
				panic("macro: unknown letter " + n)
			}
		}
		add(op{kind: opMacro, sub: ix, name: "MACRO[" + name + ": " + strings.Join(sub, "; ") + "]"})
	}
	for _, pv := range []string{"Put(O)", "Put(O:expires@0)"} {
		macro("lock on every shard", pv, "Put(L)/"+id)
		macro("holder read-only during the lock broadcast", pv, "SetMode(0,RO)", "Put(L)/"+id, "SetMode(0,RW)")
	}
	macro("lock put fails on the holder", "Put(O)", "FailNextPut(0)", "Put(L)/"+id)
	// the object is protected by the later lock L while the earlier lock L2 (smaller ID) has expired
	macro("two locks on every shard, epoch 1: the earlier one has expired", "Put(O)", "Put(L2)/"+id, "Put(L)/"+id, "Epoch+1")
	macro("two locks on every shard, epoch 1: the earlier one and the object have expired", "Put(O:expires@0)", "Put(L2)/"+id, "Put(L)/"+id, "Epoch+1")
	macro("lock arrives before the object while the future holder is read-only, then is put again", "SetMode(0,RO)", "Put(L)/"+id, "SetMode(0,RW)", "Put(O)", "Put(L)/"+id)
	macro("locked object evacuated from its shard", "Put(O)", "Put(L)/"+id, "SetMode(0,RO)", "Evacuate(0)")
	if len(u.ops) > 255 {
		panic("alphabet too large for seqx")
	}
	return u
}

// ---------------------------------------------------------------------------------------------

type sys struct {
	u     *universe
	w     *ew.World
	epoch uint64
	steps int
	hist  []string
	oVer  int // version of O put first (-1: none)

	// reference model (history monitor)
	protected bool   // a lock was accepted while O was retrievable
	until     uint64 // protection lasts while epoch <= until
	copies    []bool // shards that have held O's blob since the protection began
	indexed   []bool // shards whose metabase has ever listed O (a blob put in degraded mode is never indexed)
	tomb      string // result of the last tombstone broadcast: "", "accepted", "rejected"
	lastGetOK bool
	dead      bool // O is physically gone from every shard while protected: nothing left to explore

	shadow map[string]string // last metabase view per shard/object (a degraded shard's metabase is closed)
	fp     string
	what   string
	obs    string
}

var (
	classMu sync.Mutex
	classes = map[string][]string{}

	cntJudged, cntJudgedOK, cntProtStart, cntProtEnd, cntExcused, cntRejectedTomb atomic.Int64
)

func newSys(u *universe) *sys {
	w, err := ew.New(ew.Config{NumShards: u.shards, ErrorThreshold: errThr})
	if err != nil {
		panic(err)
	}
	s := &sys{u: u, w: w, oVer: -1, copies: make([]bool, u.shards), indexed: make([]bool, u.shards), shadow: map[string]string{}}
	s.observe()
	return s
}

func (s *sys) Close() { s.w.Close() }

func addrOf(o *object.Object) oid.Address { return oid.NewAddress(cnr, o.GetID()) }

func (s *sys) holders(o *object.Object) []int {
	var r []int
	for i, sh := range s.w.Shards {
		ok, err := sh.Stor.Inner().Exists(addrOf(o))
		if err != nil {
			panic(fmt.Sprintf("ground truth lookup failed: %v", err))
		}
		if ok {
			r = append(r, i)
		}
	}
	return r
}

func errClass(err error) string {
	var si *object.SplitInfoError
	switch {
	case err == nil:
		return "ok"
	case errors.Is(err, apistatus.ErrObjectLocked):
		return "locked"
	case errors.Is(err, apistatus.ErrObjectAlreadyRemoved):
		return "removed"
	case errors.Is(err, apistatus.ErrLockNonRegularObject):
		return "lock-non-regular"
	case errors.Is(err, meta.ErrLockObjectRemoval):
		return "lock-removal"
	case errors.Is(err, apistatus.ErrObjectNotFound):
		return "404"
	case errors.Is(err, ew.ErrInjectedRead), errors.Is(err, ew.ErrInjectedWrite):
		return "injected"
	case errors.Is(err, shard.ErrReadOnlyMode), errors.Is(err, common.ErrReadOnly), errors.Is(err, meta.ErrReadOnlyMode):
		return "read-only"
	case errors.Is(err, shard.ErrDegradedMode), errors.Is(err, meta.ErrDegradedMode):
		return "degraded"
	case errors.Is(err, shard.ErrMustBeReadOnly):
		return "must-be-read-only"
	case errors.As(err, &si):
		return "splitinfo"
	}
	return "err"
}

// guard turns a hanging engine call into a harness error (never into a verdict).
func (s *sys) guard(name string, f func()) {
	done := make(chan struct{})
	go func() { f(); close(done) }()
	select {
	case <-done:
	case <-time.After(120 * time.Second):
		fmt.Printf("HARNESS-ERROR property=C08: %s did not return within 120 s after %v\n", name, s.hist)
		os.Exit(2)
	}
}

func (s *sys) Apply(i int) (string, bool) {
	if s.dead {
		return "", false
	}
	o := s.u.ops[i]
	if o.kind == opMacro {
		if s.steps != 0 {
			return "", false
		}
		s.steps++
		s.fp, s.what = "", ""
		s.hist = append(s.hist, o.name)
		var rs []string
		for _, j := range o.sub {
			if res, ok := s.applyOp(j); ok {
				rs = append(rs, res)
			} else {
				rs = append(rs, "disabled")
			}
		}
		return strings.Join(rs, ";") + "|" + s.obs, true
	}
	fp0, what0 := s.fp, s.what
	s.fp, s.what = "", ""
	s.hist = append(s.hist, o.name)
	res, ok := s.applyOp(o)
	if !ok {
		s.fp, s.what = fp0, what0
		s.hist = s.hist[:len(s.hist)-1]
		return "", false
	}
	s.steps++
	return res + "|" + s.obs, true
}

// applyOp runs one plain letter and the observation round after it.
func (s *sys) applyOp(o op) (string, bool) {
	w := s.w
	ctx := context.Background()
	var res, rejectedTomb string
	switch o.kind {
	case opPutO:
		if s.oVer >= 0 && s.oVer != o.v {
			return "", false // the other version of O is in the history already
		}
		var err error
		s.guard(o.name, func() { err = w.Eng.Put(ctx, s.u.o[o.v], nil) })
		if s.oVer < 0 {
			s.oVer = o.v
		}
		res = errClass(err)
	case opPutL:
		l := s.u.locks[o.v]
		var err error
		s.guard(o.name, func() {
			w.SetOrder(o.order)
			err = w.Eng.Put(ctx, l.obj, nil)
			w.SetOrder(nil)
		})
		res = errClass(err)
		if err == nil && s.lastGetOK && s.epoch <= l.exp {
			// the engine accepted a live lock for an object it stores (and serves)
			if !s.protected || s.epoch > s.until {
				cntProtStart.Add(1)
				s.copies = make([]bool, s.u.shards)
			}
			s.protected = true
			s.until = max(s.until, l.exp)
		}
	case opPutT:
		var err error
		tombBefore := len(s.holders(s.u.tomb)) > 0
		s.guard(o.name, func() {
			w.SetOrder(o.order)
			err = w.Eng.Put(ctx, s.u.tomb, nil)
			w.SetOrder(nil)
		})
		res = errClass(err)
		if err == nil {
			s.tomb = "accepted"
		} else {
			s.tomb = "rejected"
			if !tombBefore {
				rejectedTomb = res
			}
		}
	case opSetMode:
		if w.Mode(o.s) == o.m {
			return "", false
		}
		var err error
		s.guard(o.name, func() { err = w.SetMode(o.s, o.m) })
		res = errClass(err)
	case opFailNextPut:
		st := w.Shards[o.s].Stor
		if st.PendingPutFaults() != 0 {
			return "", false
		}
		st.FailPuts(1)
		res = "armed"
	case opToggleFailReads:
		st := w.Shards[o.s].Stor
		st.FailReads(!st.ReadsFailing())
		res = fmt.Sprint(st.ReadsFailing())
	case opGC:
		if w.Mode(o.s) != mode.ReadWrite {
			return "", false // removeGarbage returns at once
		}
		if o.order[0] != o.s && !s.mayHaveExpired() {
			return "", false // the engine callback (the only user of the order) cannot be reached
		}
		s.guard(o.name, func() {
			w.SetOrder(o.order)
			w.Shards[o.s].Sh.VerifC08GCPass()
			w.SetOrder(nil)
		})
		res = "done"
	case opEpoch:
		if s.epoch >= maxEpoch {
			return "", false
		}
		wasJudged := s.judged()
		s.epoch++
		w.Epoch.Set(s.epoch)
		for _, sh := range w.Shards {
			sh.Sh.VerifC08NewEpoch(s.epoch)
		}
		if wasJudged && !s.judged() {
			cntProtEnd.Add(1)
		}
		res = fmt.Sprint(s.epoch)
	case opEvacuate:
		if !w.Mode(o.s).ReadOnly() {
			return "", false
		}
		var n int
		var err error
		s.guard(o.name, func() { n, err = w.Eng.Evacuate(ctx, []common.ID{w.Shards[o.s].ID}, false, nil) })
		res = fmt.Sprintf("%d/%s", n, errClass(err))
	}
	s.observe()
	if rejectedTomb != "" {
		s.checkNoTombstoneTrace(rejectedTomb)
	}
	return res, true
}

// checkNoTombstoneTrace: a tombstone broadcast that the engine answered with an error (rejected by
// a shard that knows a lock, then rolled back; or stored nowhere) must not leave the tombstone object
// on any shard, whatever the visiting order and whichever shards failed non-fatally.
func (s *sys) checkNoTombstoneTrace(answer string) {
	cntRejectedTomb.Add(1)
	var kept []string
	kind := "unindexed-blob-on-a-shard-without-metabase"
	for i, sh := range s.w.Shards {
		blob, _ := sh.Stor.Inner().Exists(addrOf(s.u.tomb))
		idx := !s.w.Mode(i).NoMetabase() && has(s.shadow[s.shadowKey(i, s.u.tomb)], "INDEXED")
		if idx {
			kind = "tombstone-indexed"
		}
		if blob || idx {
			kept = append(kept, fmt.Sprintf("shard %d [%s] (blob=%v, indexed=%v, live lock indexed=%v)", i, shardDesc(s.w, i), blob, idx, s.lockOn(i)))
		}
	}
	if len(kept) > 0 {
		s.fail("rejected-tombstone-left-on-a-shard:engine-answer="+answer+":"+kind,
			fmt.Sprintf("engine.Put(tombstone) returned an error (%s) and the tombstone was on no shard before the call, but afterwards it is kept by %s", answer, strings.Join(kept, ", ")))
	}
}

// lockOn: the (last seen) metabase of shard i lists a lock that is live in the current epoch.
func (s *sys) lockOn(i int) bool {
	for _, l := range s.u.locks {
		if s.epoch <= l.exp && has(s.shadow[s.shadowKey(i, l.obj)], "INDEXED") {
			return true
		}
	}
	return false
}

// mayHaveExpired: some object of the universe that was put can be past its expiration epoch.
func (s *sys) mayHaveExpired() bool {
	return s.epoch > objExp || s.epoch > lock2Exp || s.epoch > lockExp
}

func (s *sys) judged() bool { return s.protected && s.epoch <= s.until }

func shardDesc(w *ew.World, i int) string {
	d := map[mode.Mode]string{mode.ReadWrite: "W", mode.ReadOnly: "R", mode.DegradedReadOnly: "D", mode.Degraded: "d"}[w.Mode(i)]
	if w.Shards[i].Stor.ReadsFailing() {
		d += "f"
	}
	return d
}

func (s *sys) shadowKey(i int, o *object.Object) string { return fmt.Sprintf("%d/%s", i, o.GetID()) }

func has(st, flag string) bool { return strings.Contains(st, "["+flag+"]") }

// observe refreshes the metabase shadows, reads O through the engine and evaluates the oracle.
func (s *sys) observe() {
	w := s.w
	obj := s.u.o[max(s.oVer, 0)]
	for i, sh := range w.Shards {
		if w.Mode(i).NoMetabase() {
			continue
		}
		for _, o := range append([]*object.Object{obj}, s.u.sys...) {
			st, err := sh.Sh.VerifC08Meta().ObjectStatus(addrOf(o))
			if err != nil {
				panic(fmt.Sprintf("metabase status: %v", err))
			}
			v := ""
			if len(st.HeaderIndex) > 0 {
				v = "[INDEXED]"
			}
			for _, f := range st.State {
				v += "[" + f + "]"
			}
			s.shadow[s.shadowKey(i, o)] = v
			if o == obj && len(st.HeaderIndex) > 0 {
				s.indexed[i] = true
			}
		}
	}
	var got *object.Object
	var err error
	s.guard("Get(O)", func() { got, err = w.Eng.Get(context.Background(), addrOf(obj)) })
	s.lastGetOK = err == nil
	s.obs = "get=" + errClass(err)
	hs := s.holders(obj)
	if !s.judged() {
		return
	}
	cntJudged.Add(1)
	for _, h := range hs {
		s.copies[h] = true
	}
	// could some shard serve an unlocked, never removed object stored the way O is stored there?
	readable := false
	for h, c := range s.copies {
		readable = readable || (c && !w.Shards[h].Stor.ReadsFailing() && (s.indexed[h] || w.Mode(h).NoMetabase()))
	}
	switch {
	case err == nil && string(got.Marshal()) != string(obj.Marshal()):
		s.fail("locked-object-served-with-different-bytes", "Get(O) returned a different object")
	case err == nil:
		cntJudgedOK.Add(1)
	case !readable:
		cntExcused.Add(1) // no shard that has held O can serve anything stored like O (blob reads fail, or O was never indexed there)
	default:
		fp, what := s.diagnose(obj, hs, err)
		s.fail(fp, what)
	}
	if len(hs) == 0 {
		s.dead = true
	}
}

// diagnose names the mechanism that hides the locked object (normalised class of the failure).
func (s *sys) diagnose(obj *object.Object, hs []int, gerr error) (string, string) {
	w := s.w
	isHolder := map[int]bool{}
	for _, h := range hs {
		isHolder[h] = true
	}
	lockOn := s.lockOn
	lockAnywhere := false
	for i := range w.Shards {
		lockAnywhere = lockAnywhere || lockOn(i)
	}
	var causes, detail []string
	for h, c := range s.copies {
		if !c {
			continue
		}
		st := s.shadow[s.shadowKey(h, obj)]
		var cause string
		switch {
		case !isHolder[h]:
			cause = "copy-deleted-from-holder"
		case w.Shards[h].Stor.ReadsFailing():
			cause = "holder-reads-failing"
		case has(st, "IN GRAVEYARD"):
			cause = "tombstone-recorded-on-holder"
		case has(st, "GC MARKED"):
			cause = "garbage-mark-without-tombstone-on-holder"
		case s.oVer == 1 && s.epoch > objExp && !has(st, "LOCKED"):
			cause = "object-expired-on-holder"
		default:
			cause = "copy-available-on-holder-but-not-served"
		}
		if lockOn(h) {
			cause += "(holder-knows-the-lock)"
		} else {
			cause += "(lock-missing-on-holder)"
		}
		causes = append(causes, cause)
		detail = append(detail, fmt.Sprintf("shard %d [%s]: blob present=%v, metabase view of O=%q", h, shardDesc(w, h), isHolder[h], st))
	}
	sort.Strings(causes)
	causes = dedup(causes)
	fp := "locked-object-unretrievable:" + strings.Join(causes, "+")
	if !lockAnywhere {
		fp += ":lock-object-on-no-shard"
	}
	if t := s.tomb; t != "" && strings.Join(causes, "+") != "object-expired-on-holder(lock-missing-on-holder)" {
		fp += ":last-tombstone-broadcast=" + t
	}
	if s.tomb == "accepted" && strings.Contains(fp, "copy-available-on-holder-but-not-served") {
		// O's own shards do not list the tombstone: it is recorded on a shard without a copy that reads visit first
		for _, i := range s.holders(s.u.tomb) {
			if !s.copies[i] {
				fp += ":tombstone-on-a-shard-without-a-copy"
				break
			}
		}
	}
	if s.tomb == "rejected" && len(s.holders(s.u.tomb)) > 0 {
		// not the garbage mark of a rolled back tombstone: the rejected tombstone itself is still stored
		fp += ":rejected-tombstone-still-stored-on-a-shard"
	}
	if s.tomb == "" && s.oVer == 1 && s.epoch > objExp && strings.Contains(fp, "copy-deleted-from-holder") {
		// removed by the expiry handling; could the engine-wide lock check have seen a live lock?
		for i := range w.Shards {
			if !w.Mode(i).NoMetabase() && lockOn(i) {
				fp += ":expired-copy-deleted-although-a-live-lock-is-readable-on-another-shard"
				break
			}
		}
	}
	var others []string
	for i := range w.Shards {
		if !s.copies[i] {
			others = append(others, fmt.Sprintf("shard %d [%s]: live lock indexed=%v", i, shardDesc(w, i), lockOn(i)))
		}
	}
	what := fmt.Sprintf("epoch %d <= lock expiration %d, lock accepted by the engine, Get(O) -> %s (%v); shards that have held O: %s; other shards: %s (W/R/D/d = read-write/read-only/degraded-read-only/degraded, f = reads failing)",
		s.epoch, s.until, errClass(gerr), gerr, strings.Join(detail, "; "), strings.Join(others, "; "))
	return fp, what
}

func dedup(a []string) []string {
	var r []string
	for i, x := range a {
		if i == 0 || x != a[i-1] {
			r = append(r, x)
		}
	}
	return r
}

func (s *sys) fail(fp, what string) {
	if s.fp == "" {
		s.fp, s.what = fp, what
	}
	classMu.Lock()
	if h, ok := classes[fp]; !ok || len(s.hist) < len(h) || (len(s.hist) == len(h) && strings.Join(s.hist, ";") < strings.Join(h, ";")) {
		classes[fp] = append([]string(nil), s.hist...)
	}
	classMu.Unlock()
}

func (s *sys) Check() (string, string) { return s.fp, s.what }

func (s *sys) Key() string {
	var sb strings.Builder
	w := s.w
	obj := s.u.o[max(s.oVer, 0)]
	fmt.Fprintf(&sb, "e%d/v%d;", s.epoch, s.oVer)
	for i, sh := range w.Shards {
		cur, proc := sh.Sh.VerifC08GCEpochs()
		fmt.Fprintf(&sb, "s%d:%s/p%d/e%d/g%d.%d;", i, shardDesc(w, i), sh.Stor.PendingPutFaults(), w.ErrorCount(i), cur, proc)
		for _, o := range append([]*object.Object{obj}, s.u.sys...) {
			ok, _ := sh.Stor.Inner().Exists(addrOf(o))
			fmt.Fprintf(&sb, "%v/%s,", ok, s.shadow[s.shadowKey(i, o)])
		}
	}
	fmt.Fprintf(&sb, "|%v/%d/%v/%v/%s/%v/%v", s.protected, s.until, s.copies, s.indexed, s.tomb, s.lastGetOK, s.dead)
	return sb.String()
}

// ---------------------------------------------------------------------------------------------

func main() {
	depth := flag.Int("depth", 0, "override BFS depth")
	shardsFlag := flag.Int("shards", 0, "explore only the world with this many shards (2|3)")
	familyOnly := flag.Bool("family", false, "run only the 3-shard tombstone-broadcast family (development aid)")
	r := ev.Start("C08", ev.ModelChecking)
	if !ew.Instrumented {
		r.Fatal("built without the verif overlay")
	}
	type plan struct {
		u     *universe
		depth int
	}
	var plans []plan
	if r.Thorough() {
		plans = []plan{{buildUniverse(3, false), 3}, {buildUniverse(2, true), 4}}
	} else {
		plans = []plan{{buildUniverse(2, false), 3}}
	}
	mkcfg := func(p plan) seqx.Config {
		u := p.u
		c := seqx.Config{NumOps: len(u.ops), OpName: func(i int) string { return u.ops[i].name },
			New: func() seqx.Sys { return newSys(u) }, MaxDepth: p.depth, CheckInit: true}
		if *depth > 0 {
			c.MaxDepth = *depth
		}
		return c
	}
	if r.Replay != "" {
		var rp struct{ Ops []string }
		r.LoadReplay(&rp)
		p := plans[len(plans)-1] // the 2-shard world
		for _, n := range rp.Ops {
			if strings.HasPrefix(n, "s3/") {
				p = plan{buildUniverse(3, false), 0}
			}
		}
		fp, what, err := seqx.Replay(mkcfg(p), rp.Ops)
		if err != nil {
			r.Fatal("%v", err)
		}
		if fp != "" {
			r.Violation(fp, what, rp)
		}
		r.Finish()
	}
	exhaustive := true
	var rule []string
	var alphabets = map[string][]string{}
	totalObs := 0
	for _, p := range plans {
		if *familyOnly || (*shardsFlag != 0 && p.u.shards != *shardsFlag) {
			continue
		}
		cfg := mkcfg(p)
		t0 := time.Now()
		res := seqx.Run(r, cfg)
		exhaustive = exhaustive && res.Exhaustive
		totalObs += res.ObsClasses
		var names []string
		for _, o := range p.u.ops {
			names = append(names, o.name)
		}
		alphabets[fmt.Sprintf("%d-shards", p.u.shards)] = names
		rule = append(rule, fmt.Sprintf("%d shards: %d letters (incl. %d root-only macros), depth bound %d (completed %d), %d states, %d transitions, %.0f s",
			p.u.shards, len(p.u.ops), countMacros(p.u), cfg.MaxDepth, res.DepthCompleted, res.States, res.Transitions, time.Since(t0).Seconds()))
	}
	if *shardsFlag == 0 || *shardsFlag == 3 {
		t0 := time.Now()
		fr := runFamily(r, buildUniverse(3, false), r.Thorough())
		exhaustive = exhaustive && fr.complete
		rule = append(rule, fmt.Sprintf("3-shard tombstone-broadcast family (exhaustive product, every case a scripted history of plain letters with the oracle after each step): %d cases = O placed on its first or second HRW shard x lock broadcast with %s x tombstone broadcast with %s x all 6 visiting orders of the tombstone broadcast, each followed by a GC pass on every shard; %d steps, %d distinct states, tombstone rejected in %d cases and accepted in %d, lock accepted in %d, %.0f s",
			fr.cases, fr.lockDesc, fr.tombDesc, fr.steps, fr.states, fr.rejected, fr.accepted, fr.protected, time.Since(t0).Seconds()))
		if r.Violations() == 0 && (fr.rejected == 0 || fr.protected == 0) {
			r.Fatal("vacuous family: rejected=%d protected=%d", fr.rejected, fr.protected)
		}
	}
	if vmaps.Calls() == 0 {
		r.Fatal("vmaps shim was never called")
	}
	r.Set("rejected_tombstone_broadcasts_checked_for_traces", cntRejectedTomb.Load())
	r.Exhaustive(exhaustive)
	r.Set("alphabet", alphabets)
	var cls []string
	for fp, h := range classes {
		cls = append(cls, fp+"  <=  "+strings.Join(h, " ; "))
	}
	sort.Strings(cls)
	r.Set("violation_classes", cls)
	for _, c := range cls {
		fmt.Println("  class+history:", c)
	}
	r.Set("outcome_classes", totalObs)
	r.Set("judged_observations", cntJudged.Load())
	r.Set("judged_observations_object_served", cntJudgedOK.Load())
	r.Set("judged_observations_excused_by_unservable_shards", cntExcused.Load())
	r.Set("protection_started", cntProtStart.Load())
	r.Set("protection_ended_by_lock_expiration", cntProtEnd.Load())
	if !*familyOnly && r.Violations() == 0 && (cntJudged.Load() == 0 || cntJudgedOK.Load() == 0 || cntProtEnd.Load() == 0) {
		r.Fatal("vacuous run: judged=%d served=%d expirations=%d", cntJudged.Load(), cntJudgedOK.Load(), cntProtEnd.Load())
	}
	fmt.Printf("  judged observations: %d (object served: %d, excused (no shard able to serve even an unlocked object): %d); protection started %d times, ended by lock expiration %d times (counted over all replays)\n",
		cntJudged.Load(), cntJudgedOK.Load(), cntExcused.Load(), cntProtStart.Load(), cntProtEnd.Load())
	r.Rule("BFS over operation sequences on a real engine (error threshold " + strconv.Itoa(errThr) + "): " + strings.Join(rule, "; ") +
		". In the BFS, root-only macro letters are scripted prefixes of plain letters (oracle evaluated after each of their steps) and count as one step of the depth bound. States are deduplicated by (epoch; per shard: mode, fault plan, error counter, GC epochs, per object blob presence and metabase status; model: protection flag and end, shards that held O, last tombstone result, last Get result); engine.Get(O) is judged after every transition while an accepted lock is live; after every tombstone broadcast that the engine answered with an error (tombstone on no shard before) no shard may keep the tombstone object; non-trivial = newly reached state")
	r.Assume(
		"single-threaded histories: concurrent lock/tombstone broadcasts are not explored; background GC never runs by itself (remover interval 24h), GC passes and new-epoch handlers are invoked synchronously through injected accessors, epochs are delivered to all shards at once",
		"write faults fail a blob put before it touches the disk (thorough: read faults fail every blob read of a shard); metabase-level faults are not injected; no write-cache",
		"a lock counts as accepted when engine.Put(lock) returned nil while engine.Get(O) was succeeding and the lock was not expired; a shard 'has held O' when O's file was seen in its FSTree after some transition since then; a copy put while the shard was in degraded read-write mode is never indexed by the metabase and is only demanded while that shard serves without metabase",
		"HRW order for O is shard 0, 1, 2 (fixed by the choice of the object ID); the shard-map order of lock/tombstone broadcasts and of the expired-objects callback is an explicit choice in the alphabet; Evacuate sorts by HRW, so its map order is irrelevant",
		"forced removals (engine.Delete / Drop / container removal), which override locks by contract, are not in the alphabet; the tombstone expires at epoch 9 (never reached)",
	)
	r.Finish()
}

type familyResult struct {
	cases, steps, states          int
	rejected, accepted, protected int
	lockDesc, tombDesc            string
	complete                      bool
}

// runFamily enumerates the focused 3-shard family around the tombstone broadcast: every visiting
// order x shards failing non-fatally at tombstone time x shards that missed the lock x placement of
// O. Each case is a history of plain letters of the 3-shard alphabet run on a fresh engine through
// the same Apply/oracle as the BFS.
func runFamily(r *ev.Run, u *universe, thorough bool) familyResult {
	// per-shard condition: 0 fine, 1 read-only during the broadcast, 2 its next blob put fails
	var lockSets, tombSets [][]int
	enumx.Product([]int{3, 3, 3}, func(c []int) bool {
		bad, fine := 0, 0
		for _, x := range c {
			if x != 0 {
				bad++
			} else {
				fine++
			}
		}
		cc := append([]int(nil), c...)
		if fine > 0 && (thorough || bad <= 1) {
			lockSets = append(lockSets, cc) // some shard must store the lock
		}
		if thorough || bad <= 1 {
			tombSets = append(tombSets, cc)
		}
		return true
	})
	var perms [][]int
	enumx.Perms(3, func(p []int) bool { perms = append(perms, append([]int(nil), p...)); return true })
	type fcase struct{ ops []string }
	var cases []fcase
	cond := func(c []int, ops *[]string, pre bool) {
		for s, x := range c {
			switch {
			case pre && x == 1:
				*ops = append(*ops, fmt.Sprintf("SetMode(%d,RO)", s))
			case pre && x == 2:
				*ops = append(*ops, fmt.Sprintf("FailNextPut(%d)", s))
			case !pre && x == 1:
				*ops = append(*ops, fmt.Sprintf("SetMode(%d,RW)", s))
			}
		}
	}
	for place := 0; place < 2; place++ {
		for _, lc := range lockSets {
			for _, tc := range tombSets {
				for _, p := range perms {
					var ops []string
					if place == 1 {
						ops = append(ops, "SetMode(0,RO)", "Put(O)", "SetMode(0,RW)") // O lands on its second shard
					} else {
						ops = append(ops, "Put(O)")
					}
					cond(lc, &ops, true)
					ops = append(ops, "Put(L)/visit-0-1-2")
					cond(lc, &ops, false)
					cond(tc, &ops, true)
					ops = append(ops, "Put(T)/"+permName(p))
					cond(tc, &ops, false)
					ops = append(ops, "GCPass(0)/visit-0-1-2", "GCPass(1)/visit-1-0-2", "GCPass(2)/visit-2-0-1")
					for i := range ops {
						ops[i] = u.prefix + ops[i]
					}
					cases = append(cases, fcase{ops})
				}
			}
		}
	}
	var mu sync.Mutex
	res := familyResult{cases: len(cases), complete: true}
	if thorough {
		res.lockDesc, res.tombDesc = "every subset of shards read-only or failing their put (one shard at least storing the lock)", "every subset of shards read-only or failing their put"
	} else {
		res.lockDesc, res.tombDesc = "no or one shard read-only or failing its put", "no or one shard read-only or failing its put"
	}
	seen := map[string]bool{}
	enumx.Parallel(len(cases), func(ci int) {
		if r.Expired() {
			mu.Lock()
			res.complete = false
			mu.Unlock()
			return
		}
		c := cases[ci]
		s := newSys(u)
		defer s.Close()
		var done []string
		reported := map[string]bool{}
		for _, n := range c.ops {
			i, ok := u.idx[n]
			if !ok {
				panic("family: unknown letter " + n)
			}
			if _, ok := s.Apply(i); !ok {
				continue
			}
			done = append(done, n)
			r.Eval(1)
			r.Transition(1)
			r.TraceOK(1)
			key := s.Key()
			mu.Lock()
			res.steps++
			if !seen[key] {
				seen[key] = true
				res.states++
				r.State(1)
				r.Nontrivial(key)
			}
			mu.Unlock()
			if fp, what := s.Check(); fp != "" && !reported[fp] {
				reported[fp] = true
				r.Violation(fp, what, map[string]any{"ops": append([]string(nil), done...)})
			}
		}
		mu.Lock()
		switch s.tomb {
		case "rejected":
			res.rejected++
		case "accepted":
			res.accepted++
		}
		if s.protected {
			res.protected++
		}
		mu.Unlock()
		if ci%97 == 0 && r.WantSample() {
			r.Sample(map[string]any{"ops": done, "last_observation": s.obs})
		}
	})
	return res
}

func countMacros(u *universe) int {
	n := 0
	for _, o := range u.ops {
		if o.kind == opMacro {
			n++
		}
	}
	return n
}
