// C06: listing physical objects page by page with the returned cursor yields every available physical object exactly
// once (any page size, any starting cursor) and then reports the end of the listing; objects held by several shards
// are listed once with all holder shards; objects marked for removal and objects of removed containers are never listed.
//
// enumx, three levels on real storage (/dev/shm, bbolt NoSync, batch size 1):
//
//	metabase: universe of 6 physical addresses in 3 containers (+ a virtual split parent, + tombstone objects):
//	          every subset stored x {no mark, each stored object garbage-marked, each stored object tombstoned,
//	          each container inhumed, each container deleted} x page sizes 1..7 x start cursor {nil, every universe
//	          address, an address between two stored ones, before the first / after the last container, past the end};
//	shard:    the same states through Shard.ListWithCursor for a reduced product;
//	engine:   4 addresses in 2 containers, every assignment of each address to {-, s0, s1, both} (256) x {no mark,
//	          engine.Delete of each stored address, InhumeContainer of each container} x page sizes 1..5 x both shard
//	          visiting orders x start cursor {nil, every address} (thorough: 3 shards, 8^4 assignments).
//
// Oracle (from the property text): the concatenated pages equal the sorted set of available physical addresses after
// the cursor, without duplicates; the end is reported exactly after the last one; ShardIDs = holder set.
package main

import (
	"bytes"
	"context"
	"errors"
	"fmt"
	"os"
	"path/filepath"
	"sort"
	"strings"
	"sync"
	"sync/atomic"
	"time"

	"github.com/nspcc-dev/bbolt"
	objectcore "github.com/nspcc-dev/neofs-node/pkg/core/object"
	"github.com/nspcc-dev/neofs-node/pkg/local_object_storage/blobstor/common"
	"github.com/nspcc-dev/neofs-node/pkg/local_object_storage/blobstor/fstree"
	"github.com/nspcc-dev/neofs-node/pkg/local_object_storage/engine"
	meta "github.com/nspcc-dev/neofs-node/pkg/local_object_storage/metabase"
	"github.com/nspcc-dev/neofs-node/pkg/local_object_storage/shard"
	"github.com/nspcc-dev/neofs-node/verif/lib/enumx"
	"github.com/nspcc-dev/neofs-node/verif/lib/ev"
	"github.com/nspcc-dev/neofs-node/verif/shim/vmaps"
	ew "github.com/nspcc-dev/neofs-node/verif/worlds/engineworld"
	cid "github.com/nspcc-dev/neofs-sdk-go/container/id"
	"github.com/nspcc-dev/neofs-sdk-go/object"
	oid "github.com/nspcc-dev/neofs-sdk-go/object/id"
	"go.uber.org/zap"
)

var (
	r       *ev.Run
	tmpDir  string
	expired atomic.Bool

	violMu      sync.Mutex
	violClasses = map[string]int{}
	outcomes    sync.Map
	listings    atomic.Int64
	calls       atomic.Int64
)

func viol(fp, what string, replay any) {
	violMu.Lock()
	violClasses[fp]++
	violMu.Unlock()
	r.Violation(fp, what, replay)
}

type epochState struct{}

func (epochState) CurrentEpoch() uint64 { return 1 }

// ---------- universe ----------

type uobj struct {
	Label string
	Cnr   int // container index
	addr  oid.Address
}

var (
	cnrs  []cid.ID // sorted
	univ  []uobj   // 6 physical addresses, sorted by address
	tsFor map[string]oid.ID
)

func sortedIDs(prefix string, n int) []oid.ID {
	ids := make([]oid.ID, n)
	for i := range ids {
		ids[i] = ew.OID(fmt.Sprintf("c06-%s-%d", prefix, i))
	}
	sort.Slice(ids, func(i, j int) bool { return bytes.Compare(ids[i][:], ids[j][:]) < 0 })
	return ids
}

func initUniverse() {
	for i := 0; i < 3; i++ {
		cnrs = append(cnrs, ew.CID(fmt.Sprintf("c06-%d", i)))
	}
	sort.Slice(cnrs, func(i, j int) bool { return bytes.Compare(cnrs[i][:], cnrs[j][:]) < 0 })
	layout := []int{3, 1, 2} // objects per container: container boundaries at different offsets
	n := 0
	for c, k := range layout {
		ids := sortedIDs(fmt.Sprintf("cnr%d", c), k)
		for i := 0; i < k; i++ {
			univ = append(univ, uobj{Label: fmt.Sprintf("%c%d", 'a'+c, i+1), Cnr: c, addr: oid.NewAddress(cnrs[c], ids[i])})
			n++
		}
	}
	tsFor = map[string]oid.ID{}
	for _, u := range univ {
		tsFor[u.Label] = ew.OID("c06-ts-" + u.Label)
	}
}

func addrLess(a, b oid.Address) bool {
	ca, cb := a.Container(), b.Container()
	if c := bytes.Compare(ca[:], cb[:]); c != 0 {
		return c < 0
	}
	oa, ob := a.Object(), b.Object()
	return bytes.Compare(oa[:], ob[:]) < 0
}

func label(a oid.Address) string {
	for _, u := range univ {
		if u.addr == a {
			return u.Label
		}
		if a.Container() == u.addr.Container() && a.Object() == tsFor[u.Label] {
			return "ts(" + u.Label + ")"
		}
	}
	for _, u := range engUniv {
		if u.addr == a {
			return u.Label
		}
	}
	c := a.Container()
	o := a.Object()
	return fmt.Sprintf("?%x/%x", c[:3], o[:3])
}

func build(cnr cid.ID, id oid.ID, lbl string, parent *object.Object) *object.Object {
	return ew.Build(ew.ObjSpec{Cnr: cnr, ID: id, Owner: ew.Owner("c06"), Payload: []byte(lbl), Type: object.TypeRegular, Parent: parent})
}

// ---------- metabase / shard level ----------

// state of a single store: which universe objects are stored and one optional removal action.
type mstate struct {
	Subset uint64 `json:"subset"`
	Mark   string `json:"mark"`   // "", "garbage", "tomb", "inhume-container", "delete-container"
	Target int    `json:"target"` // universe index (garbage/tomb) or container index
}

func (s mstate) String() string {
	var l []string
	for i, u := range univ {
		if s.Subset&(1<<uint(i)) != 0 {
			l = append(l, u.Label)
		}
	}
	m := "no mark"
	switch s.Mark {
	case "garbage", "tomb":
		m = s.Mark + " " + univ[s.Target].Label
	case "inhume-container", "delete-container":
		m = fmt.Sprintf("%s #%d", s.Mark, s.Target)
	}
	return fmt.Sprintf("stored {%s}, %s", strings.Join(l, " "), m)
}

// expected available physical addresses of a state, sorted.
func (s mstate) expected() []oid.Address {
	var out []oid.Address
	for i, u := range univ {
		if s.Subset&(1<<uint(i)) == 0 {
			continue
		}
		switch s.Mark {
		case "garbage", "tomb":
			if s.Target == i {
				continue
			}
		case "inhume-container", "delete-container":
			if u.Cnr == s.Target {
				continue
			}
		}
		out = append(out, u.addr)
	}
	if s.Mark == "tomb" { // the tombstone is itself a stored physical object
		out = append(out, oid.NewAddress(univ[s.Target].addr.Container(), tsFor[univ[s.Target].Label]))
	}
	sort.Slice(out, func(i, j int) bool { return addrLess(out[i], out[j]) })
	return out
}

type lister interface {
	ListWithCursor(count int, cursor *meta.Cursor, attrs ...string) ([]objectcore.AddressWithAttributes, *meta.Cursor, error)
}

type store interface {
	lister
	put(*object.Object) error
	markGarbage(cid.ID, oid.ID) error
	inhumeContainer(cid.ID) error
	deleteContainer(cid.ID) error
	close()
}

type dbStore struct{ *meta.DB }

func (d dbStore) put(o *object.Object) error { return d.DB.Put(o) }
func (d dbStore) markGarbage(c cid.ID, o oid.ID) error {
	_, err := d.DB.MarkGarbage(c, []oid.ID{o}, meta.GarbageMarkDefault)
	return err
}
func (d dbStore) inhumeContainer(c cid.ID) error { _, err := d.DB.InhumeContainer(c); return err }
func (d dbStore) deleteContainer(c cid.ID) error { return d.DB.DeleteContainer(c) }
func (d dbStore) close()                         { d.DB.Close() }

type shStore struct{ *shard.Shard }

func (d shStore) put(o *object.Object) error { return d.Shard.Put(o, nil) }
func (d shStore) markGarbage(c cid.ID, o oid.ID) error {
	return d.Shard.MarkGarbage(c, []oid.ID{o}, meta.GarbageMarkDefault)
}
func (d shStore) inhumeContainer(c cid.ID) error { return d.Shard.InhumeContainer(c) }
func (d shStore) deleteContainer(c cid.ID) error {
	return d.Shard.DeleteContainer(context.Background(), c)
}
func (d shStore) close() { d.Shard.Close() }

var dirSeq atomic.Int64

func metaOpts(path string) []meta.Option {
	return []meta.Option{meta.WithPath(path), meta.WithEpochState(epochState{}), meta.WithLogger(zap.NewNop()),
		meta.WithBoltDBOptions(&bbolt.Options{NoSync: true, NoFreelistSync: true, NoGrowSync: true, Timeout: time.Second}),
		meta.WithMaxBatchSize(1), meta.WithMaxBatchDelay(time.Microsecond)}
}

func openStore(kind string) (store, string, error) {
	dir := filepath.Join(tmpDir, fmt.Sprintf("%s-%d", kind, dirSeq.Add(1)))
	if err := os.MkdirAll(dir, 0o755); err != nil {
		return nil, dir, err
	}
	if kind == "metabase" {
		db := meta.New(metaOpts(filepath.Join(dir, "meta.db"))...)
		if err := db.Open(false); err != nil {
			return nil, dir, err
		}
		if err := db.Init(ew.ShardID(0)); err != nil {
			return nil, dir, err
		}
		return dbStore{db}, dir, nil
	}
	fst := fstree.New(fstree.WithPath(filepath.Join(dir, "fstree")), fstree.WithNoSync(true), fstree.WithLogger(zap.NewNop()))
	sh := shard.New(shard.WithLogger(zap.NewNop()), shard.WithBlobstor(pinnedID{fst, ew.ShardID(0)}), shard.WithWriteCache(false),
		shard.WithGCRemoverSleepInterval(24*time.Hour), shard.WithMetaBaseOptions(metaOpts(filepath.Join(dir, "meta.db"))...))
	if err := sh.Open(); err != nil {
		return nil, dir, err
	}
	if err := sh.Init(); err != nil {
		return nil, dir, err
	}
	return shStore{sh}, dir, nil
}

// pinnedID fixes the shard identity (the shard takes it from its blob storage).
type pinnedID struct {
	common.Storage
	id common.ID
}

func (p pinnedID) Init(common.ID) error { return p.Storage.Init(p.id) }

func populate(st store, s mstate) error {
	// a virtual parent for a2 (embedded header): must never be listed
	par := build(cnrs[0], ew.OID("c06-virtual-parent"), "P", nil)
	for i, u := range univ {
		if s.Subset&(1<<uint(i)) == 0 {
			continue
		}
		var p *object.Object
		if u.Label == "a2" {
			p = par
		}
		if err := st.put(build(u.addr.Container(), u.addr.Object(), u.Label, p)); err != nil {
			return fmt.Errorf("put %s: %w", u.Label, err)
		}
	}
	switch s.Mark {
	case "garbage":
		return st.markGarbage(univ[s.Target].addr.Container(), univ[s.Target].addr.Object())
	case "tomb":
		u := univ[s.Target]
		ts := ew.Build(ew.ObjSpec{Cnr: u.addr.Container(), ID: tsFor[u.Label], Owner: ew.Owner("c06"), Type: object.TypeTombstone,
			Associate: u.addr.Object(), Attrs: [][2]string{{"__NEOFS__EXPIRATION_EPOCH", "100"}}})
		return st.put(ts)
	case "inhume-container":
		return st.inhumeContainer(cnrs[s.Target])
	case "delete-container":
		return st.deleteContainer(cnrs[s.Target])
	}
	return nil
}

// start cursors: label -> (cnr, obj); nil cursor under "".
type startCursor struct {
	Name string
	cnr  cid.ID
	obj  oid.ID
	nil_ bool
}

func between(a, b oid.ID) oid.ID { // an ID strictly between a and b when a+1 < b (first differing byte), else a with last byte bumped
	x := a
	for i := len(x) - 1; i >= 0; i-- {
		x[i]++
		if x[i] != 0 {
			break
		}
	}
	return x
}

func startCursors(all bool) []startCursor {
	cs := []startCursor{{Name: "nil", nil_: true}}
	for _, u := range univ {
		cs = append(cs, startCursor{Name: "at " + u.Label, cnr: u.addr.Container(), obj: u.addr.Object()})
	}
	if !all {
		return cs
	}
	// an address that is never stored, right after a1 (between a1 and a2)
	cs = append(cs, startCursor{Name: "unstored after a1", cnr: cnrs[0], obj: between(univ[0].addr.Object(), univ[1].addr.Object())})
	// zero object ID inside an existing container = its beginning
	cs = append(cs, startCursor{Name: "start of container #1", cnr: cnrs[1]})
	// a container that is never stored, between #0 and #1, with a large object ID
	var mid cid.ID = cnrs[0]
	for i := len(mid) - 1; i >= 0; i-- {
		mid[i]++
		if mid[i] != 0 {
			break
		}
	}
	var ff oid.ID
	for i := range ff {
		ff[i] = 0xff
	}
	cs = append(cs, startCursor{Name: "unstored container after #0", cnr: mid, obj: ff})
	cs = append(cs, startCursor{Name: "last id of container #0", cnr: cnrs[0], obj: ff})
	var ffc cid.ID
	for i := range ffc {
		ffc[i] = 0xff
	}
	cs = append(cs, startCursor{Name: "past the end", cnr: ffc, obj: ff})
	return cs
}

func after(exp []oid.Address, c startCursor) []oid.Address {
	if c.nil_ {
		return exp
	}
	cur := oid.NewAddress(c.cnr, c.obj)
	var out []oid.Address
	for _, a := range exp {
		if addrLess(cur, a) {
			out = append(out, a)
		}
	}
	return out
}

type mcase struct {
	Level  string `json:"level"`
	State  mstate `json:"state"`
	Page   int    `json:"page"`
	Cursor string `json:"cursor"`
}

func fmtAddrs(as []oid.Address) string {
	var l []string
	for _, a := range as {
		l = append(l, label(a))
	}
	return "[" + strings.Join(l, " ") + "]"
}

// listAll pages through a lister. Returns the concatenation, and a protocol error description ("" if fine).
func listAll(l lister, page int, c startCursor, bound int) ([]oid.Address, string) {
	var cur *meta.Cursor
	if !c.nil_ {
		cur = meta.NewCursor(c.cnr, c.obj)
	}
	var got []oid.Address
	for n := 0; ; n++ {
		res, next, err := l.ListWithCursor(page, cur)
		calls.Add(1)
		if err != nil {
			if errors.Is(err, meta.ErrEndOfListing) {
				if len(res) != 0 {
					return got, "end-with-items"
				}
				return got, ""
			}
			return got, "error:" + err.Error()
		}
		if len(res) == 0 {
			return got, "empty-page-without-end"
		}
		if len(res) > page {
			return got, "page-too-long"
		}
		for _, x := range res {
			got = append(got, x.Address)
		}
		if next == nil {
			return got, "nil-cursor-without-end"
		}
		if n > bound {
			return got, "no-termination"
		}
		cur = next
	}
}

func compareAddrs(got, want []oid.Address) string {
	seen := map[oid.Address]int{}
	for _, a := range got {
		seen[a]++
		if seen[a] > 1 {
			return "duplicate"
		}
	}
	ws := map[oid.Address]bool{}
	for _, a := range want {
		ws[a] = true
		if seen[a] == 0 {
			return "missing"
		}
	}
	for _, a := range got {
		if !ws[a] {
			return "extra"
		}
	}
	for i := range want {
		if got[i] != want[i] {
			return "order"
		}
	}
	return ""
}

func stateClass(s mstate) string {
	if s.Mark == "" {
		return "no-mark"
	}
	return s.Mark
}

func cursorClass(c startCursor) string {
	switch {
	case c.nil_:
		return "from-start"
	case strings.HasPrefix(c.Name, "at "):
		return "from-stored-or-universe-address"
	}
	return "from-" + strings.ReplaceAll(c.Name, " ", "-")
}

func checkListing(level string, l lister, s mstate, exp []oid.Address, page int, c startCursor) {
	r.Eval(1)
	listings.Add(1)
	want := after(exp, c)
	got, perr := listAll(l, page, c, len(univ)+4)
	mc := mcase{level, s, page, c.Name}
	pclass := "multi-page"
	if page > len(want) {
		pclass = "single-page"
	}
	if perr != "" {
		viol(fmt.Sprintf("%s:protocol:%s:%s:%s", level, strings.SplitN(perr, ":", 2)[0], stateClass(s), cursorClass(c)),
			fmt.Sprintf("%s, %s, page size %d, cursor %s: %s; got %s want %s", level, s, page, c.Name, perr, fmtAddrs(got), fmtAddrs(want)), mc)
		return
	}
	if d := compareAddrs(got, want); d != "" {
		viol(fmt.Sprintf("%s:%s:%s:%s:%s", level, d, stateClass(s), cursorClass(c), pclass),
			fmt.Sprintf("%s, %s, page size %d, cursor %s: got %s want %s", level, s, page, c.Name, fmtAddrs(got), fmtAddrs(want)), mc)
		return
	}
	if len(want) > 0 {
		r.Nontrivial(fmt.Sprint(level, s, c.Name))
		if page <= len(want) {
			outcomes.Store("multi-page", true)
		} else {
			outcomes.Store("single-page", true)
		}
	} else {
		outcomes.Store("empty", true)
	}
	if len(want) < len(exp) {
		outcomes.Store("resumed-in-the-middle", true)
	}
}

func runState(level string, s mstate, pages []int, cursors []startCursor) {
	st, dir, err := openStore(level)
	if err != nil {
		r.Fatal("open %s: %v", level, err)
	}
	defer os.RemoveAll(dir)
	defer st.close()
	if err := populate(st, s); err != nil {
		r.Fatal("populate %s (%s): %v", level, s, err)
	}
	exp := s.expected()
	for _, p := range pages {
		for _, c := range cursors {
			checkListing(level, st, s, exp, p, c)
		}
	}
	// count = 0: "Returns ErrEndOfListing if ... count parameter set to zero"
	if res, _, err := st.ListWithCursor(0, nil); !errors.Is(err, meta.ErrEndOfListing) || len(res) != 0 {
		viol(level+":protocol:zero-count-not-end", fmt.Sprintf("%s, %s: ListWithCursor(0) = %d items, %v", level, s, len(res), err), mcase{level, s, 0, "nil"})
	}
}

func allStates() []mstate {
	var out []mstate
	enumx.Subsets(len(univ), func(m uint64) bool {
		out = append(out, mstate{Subset: m})
		for i := range univ {
			if m&(1<<uint(i)) != 0 {
				out = append(out, mstate{m, "garbage", i}, mstate{m, "tomb", i})
			}
		}
		for c := range cnrs {
			has := false
			for i, u := range univ {
				if u.Cnr == c && m&(1<<uint(i)) != 0 {
					has = true
				}
			}
			if has {
				out = append(out, mstate{m, "inhume-container", c}, mstate{m, "delete-container", c})
			}
		}
		return true
	})
	return out
}

// ---------- engine level ----------

var engUniv []uobj // 4 addresses in 2 containers (sorted)

func initEngineUniverse() {
	ids0 := sortedIDs("eng0", 2)
	ids1 := sortedIDs("eng1", 2)
	engUniv = []uobj{
		{Label: "x1", Cnr: 0, addr: oid.NewAddress(cnrs[0], ids0[0])},
		{Label: "x2", Cnr: 0, addr: oid.NewAddress(cnrs[0], ids0[1])},
		{Label: "y1", Cnr: 1, addr: oid.NewAddress(cnrs[1], ids1[0])},
		{Label: "y2", Cnr: 1, addr: oid.NewAddress(cnrs[1], ids1[1])},
	}
}

type estate struct {
	Shards int    `json:"shards"`
	Assign []int  `json:"assign"` // per engine-universe object: bit mask of holder shards
	Mark   string `json:"mark"`   // "", "delete", "inhume-container"
	Target int    `json:"target"`
}

func (s estate) String() string {
	var l []string
	for i, u := range engUniv {
		l = append(l, fmt.Sprintf("%s@%s", u.Label, maskStr(s.Assign[i])))
	}
	m := "no mark"
	switch s.Mark {
	case "delete":
		m = "engine.Delete " + engUniv[s.Target].Label
	case "inhume-container":
		m = fmt.Sprintf("engine.InhumeContainer #%d", s.Target)
	}
	return fmt.Sprintf("%d shards, %s, %s", s.Shards, strings.Join(l, " "), m)
}

func maskStr(m int) string {
	if m == 0 {
		return "-"
	}
	var l []string
	for i := 0; m != 0; i, m = i+1, m>>1 {
		if m&1 != 0 {
			l = append(l, fmt.Sprintf("s%d", i))
		}
	}
	return strings.Join(l, "+")
}

type ecase struct {
	State  estate `json:"state"`
	Page   int    `json:"page"`
	Order  []int  `json:"order"`
	Cursor string `json:"cursor"`
}

type eitem struct {
	addr    oid.Address
	holders int // mask
}

func (s estate) expected() []eitem {
	var out []eitem
	for i, u := range engUniv {
		if s.Assign[i] == 0 {
			continue
		}
		if s.Mark == "delete" && s.Target == i {
			continue
		}
		if s.Mark == "inhume-container" && s.Target == u.Cnr {
			continue
		}
		out = append(out, eitem{u.addr, s.Assign[i]})
	}
	return out
}

func fmtItems(it []eitem) string {
	var l []string
	for _, x := range it {
		l = append(l, label(x.addr)+"@"+maskStr(x.holders))
	}
	return "[" + strings.Join(l, " ") + "]"
}

func runEngineState(s estate, pages []int, orders [][]int) {
	w, err := ew.New(ew.Config{NumShards: s.Shards, BaseDir: tmpDir})
	if err != nil {
		r.Fatal("engineworld: %v", err)
	}
	defer w.Close()
	for i, u := range engUniv {
		for sh := 0; sh < s.Shards; sh++ {
			if s.Assign[i]&(1<<uint(sh)) != 0 {
				if err := w.Shards[sh].Sh.Put(build(u.addr.Container(), u.addr.Object(), u.Label, nil), nil); err != nil {
					r.Fatal("put %s on shard %d: %v", u.Label, sh, err)
				}
			}
		}
	}
	switch s.Mark {
	case "delete":
		if err := w.Eng.Delete(context.Background(), engUniv[s.Target].addr, engine.GarbageMarkDefault); err != nil {
			r.Fatal("engine.Delete: %v", err)
		}
	case "inhume-container":
		if err := w.Eng.InhumeContainer(context.Background(), cnrs[s.Target]); err != nil {
			r.Fatal("engine.InhumeContainer: %v", err)
		}
	}
	exp := s.expected()
	idMask := map[string]int{}
	for i, sh := range w.Shards {
		idMask[sh.ID.String()] = 1 << uint(i)
	}
	cursors := []startCursor{{Name: "nil", nil_: true}}
	for _, u := range engUniv {
		cursors = append(cursors, startCursor{Name: "at " + u.Label, cnr: u.addr.Container(), obj: u.addr.Object()})
	}
	mclass := "no-mark"
	if s.Mark != "" {
		mclass = s.Mark
	}
	for _, ord := range orders {
		w.SetOrder(ord)
		for _, p := range pages {
			for _, c := range cursors {
				r.Eval(1)
				listings.Add(1)
				var want []eitem
				for _, x := range exp {
					if c.nil_ || addrLess(oid.NewAddress(c.cnr, c.obj), x.addr) {
						want = append(want, x)
					}
				}
				ec := ecase{s, p, ord, c.Name}
				var cur *engine.Cursor
				if !c.nil_ {
					cur = engine.NewCursor(c.cnr, c.obj)
				}
				var got []eitem
				perr := ""
				for n := 0; ; n++ {
					res, next, err := w.Eng.ListWithCursor(context.Background(), uint32(p), cur)
					calls.Add(1)
					if err != nil {
						if !errors.Is(err, engine.ErrEndOfListing) {
							perr = "error:" + err.Error()
						} else if len(res) != 0 {
							perr = "end-with-items"
						}
						break
					}
					if len(res) == 0 {
						perr = "empty-page-without-end"
						break
					}
					if len(res) > p {
						perr = "page-too-long"
						break
					}
					for _, x := range res {
						m := 0
						for _, id := range x.ShardIDs {
							b, ok := idMask[id]
							if !ok || m&b != 0 {
								perr = "bad-shard-ids"
							}
							m |= b
						}
						got = append(got, eitem{x.Address, m})
					}
					if next == nil {
						perr = "nil-cursor-without-end"
						break
					}
					if n > len(engUniv)+4 {
						perr = "no-termination"
						break
					}
					cur = next
				}
				multi := "no-object-on-several-shards"
				for _, x := range want {
					if x.holders&(x.holders-1) != 0 {
						multi = "object-on-several-shards"
					}
				}
				detail := fmt.Sprintf("engine, %s, page size %d, shard order %v, cursor %s: got %s want %s", s, p, ord, c.Name, fmtItems(got), fmtItems(want))
				if perr != "" {
					viol("engine:protocol:"+strings.SplitN(perr, ":", 2)[0]+":"+mclass, detail+" ("+perr+")", ec)
					continue
				}
				var ga, wa []oid.Address
				for _, x := range got {
					ga = append(ga, x.addr)
				}
				for _, x := range want {
					wa = append(wa, x.addr)
				}
				if d := compareAddrs(ga, wa); d != "" {
					viol(fmt.Sprintf("engine:%s:%s:%s:%s", d, mclass, cursorClass(c), multi), detail, ec)
					continue
				}
				bad := false
				for i := range want {
					if got[i].holders != want[i].holders {
						bad = true
					}
				}
				if bad {
					viol(fmt.Sprintf("engine:holder-set:%s:%s", mclass, cursorClass(c)), detail, ec)
					continue
				}
				if len(want) > 0 {
					r.Nontrivial(fmt.Sprint("engine", s, ord, c.Name))
					outcomes.Store("engine:"+multi, true)
				}
			}
		}
	}
	// every shard on its own: the same property one level below
	for i, sh := range w.Shards {
		var exp []oid.Address
		for _, x := range s.expected() {
			if x.holders&(1<<uint(i)) != 0 {
				exp = append(exp, x.addr)
			}
		}
		for _, p := range []int{1, 2, len(exp) + 1} {
			r.Eval(1)
			got, perr := listAll(sh.Sh, p, startCursor{nil_: true}, len(engUniv)+4)
			if perr != "" || compareAddrs(got, exp) != "" {
				viol("shard-in-engine:"+perr+compareAddrs(got, exp)+":"+mclass,
					fmt.Sprintf("shard #%d of engine, %s, page size %d: %s got %s want %s", i, s, p, perr, fmtAddrs(got), fmtAddrs(exp)), ecase{s, p, nil, "nil"})
			}
		}
	}
}

func engineStates(shards int) []estate {
	var out []estate
	k := 1 << uint(shards)
	enumx.Seqs(k, len(engUniv), func(a []int) bool {
		as := append([]int{}, a...)
		out = append(out, estate{Shards: shards, Assign: as})
		for i := range engUniv {
			if as[i] != 0 {
				out = append(out, estate{shards, as, "delete", i})
			}
		}
		for c := 0; c < 2; c++ {
			has := false
			for i, u := range engUniv {
				if u.Cnr == c && as[i] != 0 {
					has = true
				}
			}
			if has {
				out = append(out, estate{shards, as, "inhume-container", c})
			}
		}
		return true
	})
	return out
}

func main() {
	r = ev.Start("C06", ev.Exploration)
	var err error
	tmpDir, err = os.MkdirTemp("/dev/shm", "verif-c06-")
	if err != nil {
		r.Fatal("tmp: %v", err)
	}
	initUniverse()
	initEngineUniverse()
	finish := func() {
		os.RemoveAll(tmpDir)
		if len(violClasses) > 0 {
			var ks []string
			for k := range violClasses {
				ks = append(ks, k)
			}
			sort.Strings(ks)
			fmt.Printf("violation classes (%d):\n", len(ks))
			for _, k := range ks {
				fmt.Printf("  %7d  %s\n", violClasses[k], k)
			}
			r.Set("violation_classes", violClasses)
		}
		r.Finish()
	}
	if r.Replay != "" {
		// the artefact is either a metabase/shard case or an engine case
		var mc mcase
		r.LoadReplay(&mc)
		if mc.Level != "" {
			var cs []startCursor
			for _, c := range startCursors(true) {
				if c.Name == mc.Cursor {
					cs = append(cs, c)
				}
			}
			runState(mc.Level, mc.State, []int{mc.Page}, cs)
		} else {
			var ec ecase
			r.LoadReplay(&ec)
			runEngineState(ec.State, []int{ec.Page}, [][]int{ec.Order})
		}
		finish()
	}

	t0 := time.Now()
	states := allStates()
	pagesM := []int{1, 2, 3, 4, 5, 6, 7}
	curAll := startCursors(true)
	enumx.Parallel(len(states), func(i int) {
		if expired.Load() {
			return
		}
		runState("metabase", states[i], pagesM, curAll)
		if r.Expired() {
			expired.Store(true)
		}
	})
	r.Set("phase_metabase_s", time.Since(t0).Seconds())
	t0 = time.Now()
	// shard level: same states; quick = reduced pages/cursors
	pagesS, curS := []int{1, 2, 7}, startCursors(false)
	if r.Thorough() {
		pagesS, curS = pagesM, curAll
	}
	enumx.Parallel(len(states), func(i int) {
		if expired.Load() {
			return
		}
		runState("shard", states[i], pagesS, curS)
		if r.Expired() {
			expired.Store(true)
		}
	})
	r.Set("phase_shard_s", time.Since(t0).Seconds())
	t0 = time.Now()
	// engine level
	es := engineStates(2)
	orders2 := [][]int{{0, 1}, {1, 0}}
	enumx.Parallel(len(es), func(i int) {
		if expired.Load() {
			return
		}
		runEngineState(es[i], []int{1, 2, 3, 4, 5}, orders2)
		if r.Expired() {
			expired.Store(true)
		}
	})
	r.Set("phase_engine2_s", time.Since(t0).Seconds())
	nEng3 := 0
	if r.Thorough() {
		es3 := engineStates(3)
		nEng3 = len(es3)
		var orders3 [][]int
		enumx.Perms(3, func(p []int) bool { orders3 = append(orders3, append([]int{}, p...)); return true })
		enumx.Parallel(len(es3), func(i int) {
			if expired.Load() {
				return
			}
			runEngineState(es3[i], []int{1, 2, 3, 5}, orders3)
			if r.Expired() {
				expired.Store(true)
			}
		})
	}
	var outs []string
	outcomes.Range(func(k, _ any) bool { outs = append(outs, k.(string)); return true })
	sort.Strings(outs)
	r.Set("outcome_classes", len(outs))
	r.Set("outcomes", outs)
	r.Set("store_states", len(states))
	r.Set("engine_states_2_shards", len(es))
	r.Set("engine_states_3_shards", nEng3)
	r.Set("listings", listings.Load())
	r.Set("list_calls", calls.Load())
	r.Set("shard_order_iterations_served_by_vmaps", vmapsCalls())
	if vmapsCalls() == 0 {
		r.Fatal("the maps->vmaps import rewrite is not in effect: shard visiting order is not controlled")
	}
	r.Sample(map[string]any{"metabase_state": states[len(states)/2].String(), "expected": fmtAddrs(states[len(states)/2].expected())})
	r.Sample(map[string]any{"engine_state": es[len(es)/2].String(), "expected": fmtItems(es[len(es)/2].expected())})
	r.Rule("metabase and shard: every subset of 6 addresses (3 containers; one object is a split child with a virtual parent) x {no mark, garbage mark / tombstone of each stored object, inhume / delete of each non-empty container} " +
		"x page sizes 1..7 x 12 start cursors (shard, quick: pages {1,2,7}, 7 cursors); engine: every assignment of 4 addresses to subsets of 2 shards (thorough also 3 shards) x {no mark, engine.Delete of each stored address, " +
		"InhumeContainer of each non-empty container} x page sizes 1..5 x every shard visiting order x 5 start cursors, plus each shard of the engine alone; one evaluation = one listing paged to the end; " +
		"non-trivial = distinct (state, cursor[, order]) with a non-empty expected listing")
	r.Exhaustive(!expired.Load())
	r.Assume("expired and locked objects are not part of the universe (the listing ignores expiration by design; availability rules are C01's subject); redundant garbage marks are not used",
		"'after the cursor' is defined by (container ID bytes, object ID bytes) order, as engine.NewCursor documents; the listing order itself is checked because the engine merge relies on it",
		"engine-level removal goes through engine.Delete / engine.InhumeContainer; objects are placed on chosen shards directly through the shard handles")
	finish()
}

func vmapsCalls() int64 { return vmaps.Calls() }
