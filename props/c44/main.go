// C44: garbage collection eventually removes everything that should be removed.
//
// A real one-shard StorageEngine (FSTree + metabase on /dev/shm, remover batch size 2, background
// ticker never fires). Every operation sequence up to a depth over a small alphabet (puts of regular /
// split-child / tombstone / lock objects, garbage marks, container removal, epoch tick) is applied through
// the engine API; then the deterministic driver (epoch+1 -> new-epoch handler -> one remover pass)* is
// run synchronously until the persistent state stops changing (bounded). At the fixpoint the oracle from
// the property text is evaluated against the blob storage and the raw metabase contents.
package main

import (
	"bytes"
	"context"
	"crypto/sha256"
	"fmt"
	"os"
	"path/filepath"
	"sort"
	"strings"
	"sync"
	"sync/atomic"
	"time"

	"github.com/nspcc-dev/bbolt"
	"github.com/nspcc-dev/neofs-node/pkg/local_object_storage/blobstor/fstree"
	"github.com/nspcc-dev/neofs-node/pkg/local_object_storage/engine"
	meta "github.com/nspcc-dev/neofs-node/pkg/local_object_storage/metabase"
	"github.com/nspcc-dev/neofs-node/pkg/local_object_storage/shard"
	"github.com/nspcc-dev/neofs-node/verif/lib/enumx"
	"github.com/nspcc-dev/neofs-node/verif/lib/ev"
	"github.com/nspcc-dev/neofs-sdk-go/checksum"
	cid "github.com/nspcc-dev/neofs-sdk-go/container/id"
	"github.com/nspcc-dev/neofs-sdk-go/object"
	oid "github.com/nspcc-dev/neofs-sdk-go/object/id"
	"github.com/nspcc-dev/neofs-sdk-go/user"
	"go.uber.org/zap"
)

// ---------------------------------------------------------------------------------------------
// universe

type kind int

const (
	kReg kind = iota
	kChild // last split child carrying the parent header + ID
	kTomb
	kLock
	kVirtual
)

type spec struct {
	name   string
	k      kind
	cnr    int
	exp    uint64
	target string
	parent string
	idByte byte // first ID byte: fixes the key order inside the container bucket
}

// Parents sort before their children and before everything else, so that with remover batch size 2
// the two virtual parents are the first garbage entries of the container.
var universe = []spec{
	{name: "P", k: kVirtual, idByte: 0x08},
	{name: "Q", k: kVirtual, idByte: 0x0c},
	{name: "R1", k: kReg, exp: 2, idByte: 0x30},
	{name: "R2", k: kReg, idByte: 0x40},
	{name: "R3", k: kReg, idByte: 0x50},
	{name: "C2", k: kChild, parent: "P", idByte: 0x60},
	{name: "D2", k: kChild, parent: "Q", idByte: 0x70},
	{name: "R4", k: kReg, cnr: 1, idByte: 0x30},
	{name: "T2", k: kTomb, target: "R2", exp: 3, idByte: 0x20},
	{name: "TP", k: kTomb, target: "P", exp: 3, idByte: 0x90},
	{name: "TQ", k: kTomb, target: "Q", exp: 3, idByte: 0xa0},
	{name: "T4", k: kTomb, target: "R4", exp: 2, cnr: 1, idByte: 0x20},
	{name: "L1", k: kLock, target: "R1", exp: 4, idByte: 0x10},
	{name: "L3", k: kLock, target: "R3", exp: 2, idByte: 0xb0},
}

const maxExp = 4

// extra objects used only by the scripted bulk histories (garbage volume >> remover batch size 2)
func init() {
	add := func(sp spec) { universe = append(universe, sp) }
	for i := 1; i <= 6; i++ {
		add(spec{name: fmt.Sprintf("G%d", i), k: kReg, idByte: byte(0x31 + i)})
		add(spec{name: fmt.Sprintf("TG%d", i), k: kTomb, target: fmt.Sprintf("G%d", i), exp: 3, idByte: byte(0x21 + i)})
	}
	for i := 1; i <= 5; i++ {
		add(spec{name: fmt.Sprintf("E%d", i), k: kReg, exp: uint64(1 + i%2), idByte: byte(0x41 + i)})
	}
	for i := 1; i <= 3; i++ {
		add(spec{name: fmt.Sprintf("LE%d", i), k: kLock, target: fmt.Sprintf("E%d", i), exp: 3, idByte: byte(0x11 + i)})
	}
	for i := 1; i <= 7; i++ {
		add(spec{name: fmt.Sprintf("Z%d", i), k: kReg, cnr: 1, exp: uint64(i % 2 * 2), idByte: byte(0x51 + i)})
	}
	// a split object whose virtual parent sorts AFTER its children (no batch blocking)
	add(spec{name: "P2", k: kVirtual, idByte: 0xe0})
	add(spec{name: "K1", k: kChild, parent: "P2", idByte: 0x61})
	add(spec{name: "K2", k: kChild, parent: "P2", idByte: 0x62})
	add(spec{name: "TP2", k: kTomb, target: "P2", exp: 3, idByte: 0x91})
	// expiration-index family (container cB): expired objects whose lock outlives the whole run, and
	// unlocked expired objects before / after them in the expiration index (epoch order, then ID order)
	add(spec{name: "XB", k: kReg, cnr: 1, exp: 1, idByte: 0x48})  // earlier epoch than XL
	add(spec{name: "XS", k: kReg, cnr: 1, exp: 2, idByte: 0x38})  // same epoch, smaller ID
	add(spec{name: "XL", k: kReg, cnr: 1, exp: 2, idByte: 0x40})  // expired + live lock LL
	add(spec{name: "XG", k: kReg, cnr: 1, exp: 2, idByte: 0x48})  // same epoch, greater ID
	add(spec{name: "XA", k: kReg, cnr: 1, exp: 3, idByte: 0x30})  // later epoch
	add(spec{name: "XL2", k: kReg, cnr: 1, exp: 3, idByte: 0x40}) // second expired + live lock LL2
	add(spec{name: "XA2", k: kReg, cnr: 1, exp: 4, idByte: 0x30}) // after the second locked one
	add(spec{name: "XV", k: kReg, cnr: 1, idByte: 0x44})          // alive, never expires
	add(spec{name: "LL", k: kLock, cnr: 1, target: "XL", exp: longLockExp, idByte: 0x10})
	add(spec{name: "LL2", k: kLock, cnr: 1, target: "XL2", exp: longLockExp, idByte: 0xf0})
}

// longLockExp is beyond the last epoch the driver ever reaches: these locks are alive at quiescence.
const longLockExp = 1000

// expiration-index scripts: every subset of the unlocked expired objects x {one, two} locked expired
// objects x {alive object present or not} x {natural, reversed} arrival order
func expIndexScripts() [][]string {
	unlocked := []string{"XB", "XS", "XG", "XA", "XA2"}
	var out [][]string
	for m := 0; m < 1<<len(unlocked); m++ {
		for locked := 1; locked <= 2; locked++ {
			for _, alive := range []bool{false, true} {
				sc := []string{"XL", "LL"}
				if locked == 2 {
					sc = append(sc, "XL2", "LL2")
				}
				for i, n := range unlocked {
					if m&(1<<i) != 0 {
						sc = append(sc, n)
					}
				}
				if alive {
					sc = append(sc, "XV")
				}
				out = append(out, sc)
				if (m+locked)%2 == 0 {
					rv := make([]string, len(sc))
					for i := range sc {
						rv[i] = sc[len(sc)-1-i]
					}
					out = append(out, rv)
				}
			}
		}
	}
	return out
}

var bulkScripts = [][]string{
	// everything, natural order, then the container removal
	{"G1", "G2", "G3", "G4", "G5", "G6", "E1", "E2", "E3", "E4", "E5", "K1", "K2", "Z1", "Z2", "Z3", "Z4", "Z5", "Z6", "Z7",
		"LE1", "LE2", "LE3", "TG1", "TG2", "TG3", "TG4", "TG5", "TG6", "TP2", "rmB"},
	// same with the small-universe objects and epoch ticks mixed in
	{"R1", "L1", "G1", "G2", "E1", "LE1", "tick", "G3", "G4", "TG1", "TG2", "TG3", "Z1", "Z2", "Z3", "Z4", "rmB", "tick", "E2", "E3",
		"K1", "K2", "TP2", "TG4", "R2", "T2", "R3", "L3", "markR3", "G5", "G6", "TG5", "TG6"},
}

type uobj struct {
	spec
	id   oid.ID
	cnr  cid.ID
	addr oid.Address
	obj  *object.Object
}

var (
	cnrs   [2]cid.ID
	owner  user.ID
	byName = map[string]*uobj{}
	names  []string
)

func h32(label string) [32]byte { return sha256.Sum256([]byte("verif-c44-" + label)) }

func baseObject(c cid.ID, id oid.ID, name string, typ object.Type, exp uint64) *object.Object {
	o := object.New(c, owner)
	o.SetID(id)
	o.SetType(typ)
	pl := []byte("payload-of-" + name)
	if typ == object.TypeTombstone || typ == object.TypeLock {
		pl = nil
	}
	o.SetPayload(pl)
	o.SetPayloadSize(uint64(len(pl)))
	o.SetPayloadChecksum(checksum.NewSHA256(sha256.Sum256(pl)))
	if exp != 0 {
		o.SetAttributes(object.NewAttribute(object.AttributeExpirationEpoch, fmt.Sprint(exp)))
	}
	return o
}

func buildUniverse() {
	cnrs[0] = cid.ID(h32("cnr-A"))
	cnrs[0][0] = 0x20
	cnrs[1] = cid.ID(h32("cnr-B"))
	cnrs[1][0] = 0x40
	h := h32("owner")
	owner = user.NewFromScriptHash([20]byte(h[:20]))
	for _, s := range universe {
		if byName[s.name] != nil {
			panic("duplicate universe name " + s.name)
		}
		id := oid.ID(h32("oid-" + s.name))
		id[0] = s.idByte
		u := &uobj{spec: s, id: id, cnr: cnrs[s.cnr]}
		u.addr = oid.NewAddress(u.cnr, u.id)
		byName[s.name] = u
		names = append(names, s.name)
	}
	for _, u := range byName {
		switch u.k {
		case kReg:
			u.obj = baseObject(u.cnr, u.id, u.name, object.TypeRegular, u.exp)
		case kChild:
			u.obj = baseObject(u.cnr, u.id, u.name, object.TypeRegular, u.exp)
			p := byName[u.parent]
			par := baseObject(u.cnr, p.id, p.name, object.TypeRegular, 0)
			par.SetPayload(nil)
			par.SetPayloadSize(64)
			first := oid.ID(h32("first-of-" + u.parent))
			u.obj.SetFirstID(first)
			u.obj.SetPreviousID(first)
			u.obj.SetParent(par)
			u.obj.SetParentID(p.id)
		case kTomb:
			u.obj = baseObject(u.cnr, u.id, u.name, object.TypeTombstone, u.exp)
			u.obj.AssociateDeleted(byName[u.target].id)
		case kLock:
			u.obj = baseObject(u.cnr, u.id, u.name, object.TypeLock, u.exp)
			u.obj.AssociateLocked(byName[u.target].id)
		}
	}
}

// ---------------------------------------------------------------------------------------------
// operation alphabet (simplest first)

type opKind int

const (
	oPut opKind = iota
	oMark
	oMarkRedundant
	oRmCnr
	oTick
)

type op struct {
	k   opKind
	obj string
	cnr int
}

func (o op) String() string {
	switch o.k {
	case oPut:
		return "Put(" + o.obj + ")"
	case oMark:
		return "MarkGarbage(" + o.obj + ")"
	case oMarkRedundant:
		return "MarkRedundant(" + o.obj + ")"
	case oRmCnr:
		return fmt.Sprintf("RemoveContainer(c%c)", 'A'+o.cnr)
	}
	return "Epoch+1"
}

var alphabet []op

func buildAlphabet() {
	for _, n := range []string{"R1", "R2", "R3", "C2", "D2", "R4", "T2", "TP", "TQ", "T4", "L1", "L3"} {
		alphabet = append(alphabet, op{k: oPut, obj: n})
	}
	alphabet = append(alphabet, op{k: oMark, obj: "R3"}, op{k: oMarkRedundant, obj: "R2"},
		op{k: oRmCnr, cnr: 0}, op{k: oRmCnr, cnr: 1}, op{k: oTick})
	nEnum = len(alphabet)
	// ops used only by the scripted bulk histories
	for _, sp := range universe {
		if sp.k != kVirtual && opIndex("Put("+sp.name+")") < 0 {
			alphabet = append(alphabet, op{k: oPut, obj: sp.name})
		}
	}
}

var nEnum int

func scriptSeq(r *ev.Run, script []string) []int {
	var seq []int
	for _, t := range script {
		n := "Put(" + t + ")"
		switch t {
		case "rmB":
			n = "RemoveContainer(cB)"
		case "tick":
			n = "Epoch+1"
		case "markR3":
			n = "MarkGarbage(R3)"
		}
		i := opIndex(n)
		if i < 0 {
			r.Fatal("bulk script: unknown op %s", n)
		}
		seq = append(seq, i)
	}
	return seq
}

// ---------------------------------------------------------------------------------------------
// the real system

type epochSrc struct{ v atomic.Uint64 }

func (e *epochSrc) CurrentEpoch() uint64 { return e.v.Load() }

type noPayments struct{}

func (noPayments) PaymentsDisabled() bool            { return true }
func (noPayments) UnpaidSince(cid.ID) (int64, error) { return -1, nil }

type sys struct {
	dir string
	eng *engine.StorageEngine
	sh  *shard.Shard
	fst *fstree.FSTree
	db  *meta.DB
	ep  *epochSrc
}

var (
	scratch string
	sysSeq  atomic.Int64
)

func newSys(r *ev.Run) *sys {
	s := &sys{ep: &epochSrc{}}
	s.dir = filepath.Join(scratch, fmt.Sprintf("s%d", sysSeq.Add(1)))
	opts := *bbolt.DefaultOptions
	opts.NoSync = true
	opts.NoFreelistSync = true
	s.fst = fstree.New(fstree.WithPath(filepath.Join(s.dir, "fstree")), fstree.WithDepth(1),
		fstree.WithNoSync(true), fstree.WithCombinedCountLimit(1))
	s.eng = engine.New(engine.WithLogger(zap.NewNop()))
	_, err := s.eng.AddShard(
		shard.WithBlobstor(s.fst),
		shard.WithLogger(zap.NewNop()),
		shard.WithMetaBaseOptions(
			meta.WithPath(filepath.Join(s.dir, "meta")),
			meta.WithEpochState(s.ep),
			meta.WithMaxBatchSize(1),
			meta.WithBoltDBOptions(&opts),
			meta.WithLogger(zap.NewNop()),
		),
		shard.WithRemoverBatchSize(2),
		shard.WithGCRemoverSleepInterval(24*time.Hour),
		shard.WithContainerPayments(noPayments{}),
	)
	if err != nil {
		r.Fatal("AddShard: %v", err)
	}
	if err := s.eng.Init(); err != nil {
		r.Fatal("engine init: %v", err)
	}
	shs := s.eng.VerifC44Shards()
	if len(shs) != 1 {
		r.Fatal("expected one shard, got %d", len(shs))
	}
	s.sh = shs[0]
	s.db = s.sh.VerifC44Meta()
	return s
}

func (s *sys) close() {
	s.eng.Close()
	os.RemoveAll(s.dir)
}

// ---------------------------------------------------------------------------------------------
// reference model, written from the property text. Acceptance of an operation is the engine's return
// value; the model records which stored objects are doomed and why.

type model struct {
	stored  map[string]bool
	tombed  map[string]bool // target of an accepted tombstone
	marked  map[string]bool
	doomedC map[string]bool // was stored in a container when it was removed
	rmCnr   [2]bool
}

func newModel() *model {
	return &model{stored: map[string]bool{}, tombed: map[string]bool{}, marked: map[string]bool{}, doomedC: map[string]bool{}}
}

func (s *sys) apply(m *model, o op) string {
	ctx := context.Background()
	switch o.k {
	case oPut:
		u := byName[o.obj]
		if err := s.eng.Put(ctx, u.obj, nil); err != nil {
			return "rejected"
		}
		// Put of an already stored object is a no-op that returns nil.
		if !m.stored[o.obj] {
			// A nil return for an object of a removed container / removed object would be a different
			// property's concern; here the model just follows what is physically there.
			ok, _ := s.fst.Exists(u.addr)
			if !ok {
				return "accepted-not-stored"
			}
			m.stored[o.obj] = true
			if u.k == kTomb {
				m.tombed[u.target] = true
			}
		}
		return "ok"
	case oMark, oMarkRedundant:
		u := byName[o.obj]
		mk := engine.GarbageMarkDefault
		if o.k == oMarkRedundant {
			mk = engine.GarbageMarkRedundant
		}
		if err := s.eng.Delete(ctx, u.addr, mk); err != nil {
			return "rejected"
		}
		if m.stored[o.obj] && !m.rmCnr[u.spec.cnr] {
			m.marked[o.obj] = true
			return "ok"
		}
		return "ok-nothing-to-mark"
	case oRmCnr:
		if err := s.eng.InhumeContainer(ctx, cnrs[o.cnr]); err != nil {
			return "rejected"
		}
		m.rmCnr[o.cnr] = true
		for n := range m.stored {
			if byName[n].spec.cnr == o.cnr {
				m.doomedC[n] = true
			}
		}
		return "ok"
	default:
		e := s.ep.v.Add(1)
		s.sh.VerifC44NewEpoch(e)
		return "ok"
	}
}

// reasons why a stored object must be gone at the fixpoint (epoch beyond every expiration in the
// universe, so every lock is dead and every expiring object is unlocked-and-expired).
func (m *model) liveLocked(n string, epoch uint64) bool {
	for ln := range m.stored {
		l := byName[ln]
		if l.k == kLock && l.target == n && l.exp >= epoch && !m.doomedC[ln] && !m.marked[ln] {
			return true
		}
	}
	return false
}

// epoch = the epoch of the quiescent state; it is beyond every expiration of the universe except the
// long-lived locks (longLockExp), which are alive there.
func (m *model) reasons(n string, epoch uint64) []string {
	u := byName[n]
	var rs []string
	if m.tombed[n] || (u.parent != "" && m.tombed[u.parent]) {
		rs = append(rs, "tombstoned")
	}
	if m.marked[n] {
		rs = append(rs, "garbage-marked")
	}
	if u.exp != 0 && epoch > u.exp && !m.liveLocked(n, epoch) {
		switch u.k {
		case kTomb:
			rs = append(rs, "expired-tombstone")
		case kLock:
			rs = append(rs, "expired-lock")
		default:
			rs = append(rs, "expired")
		}
	}
	if m.doomedC[n] {
		rs = append(rs, "container-removed")
	}
	return rs
}

// ---------------------------------------------------------------------------------------------
// observation of the persistent state

type snapshot struct {
	blobs map[string]bool     // universe objects whose blob exists
	keys  map[string][]string // universe object -> kinds of metabase keys that still mention it as owner
	bkts  [2]bool             // container bucket exists
	gcMrk [2]bool
	hash  [32]byte
}

func (s *sys) snap(r *ev.Run) *snapshot {
	sn := &snapshot{blobs: map[string]bool{}, keys: map[string][]string{}}
	h := sha256.New()
	for _, n := range names {
		u := byName[n]
		if u.k == kVirtual {
			continue
		}
		ok, err := s.fst.Exists(u.addr)
		if err != nil {
			r.Fatal("fstree exists: %v", err)
		}
		if ok {
			sn.blobs[n] = true
			h.Write([]byte("blob:" + n + ";"))
		}
	}
	err := s.db.VerifC44Dump(func(b, k, v []byte) {
		if len(b) == 1 && b[0] == 5 {
			return // shard info bucket (random shard ID, version): not part of the logical state
		}
		h.Write(b)
		h.Write([]byte{0xfe})
		h.Write(k)
		h.Write([]byte{0xfd})
		h.Write(v)
		if len(b) != 33 || b[0] != 255 {
			return
		}
		ci := -1
		for i := range cnrs {
			if bytes.Equal(b[1:], cnrs[i][:]) {
				ci = i
			}
		}
		if ci < 0 {
			return
		}
		sn.bkts[ci] = true
		if len(k) == 0 {
			return
		}
		if len(k) == 1 && k[0] == 4 {
			sn.gcMrk[ci] = true
		}
		for _, n := range names {
			u := byName[n]
			if u.spec.cnr != ci {
				continue
			}
			var kindStr string
			switch {
			case k[0] == 0 && len(k) == 33 && bytes.Equal(k[1:], u.id[:]):
				kindStr = "id"
			case k[0] == 3 && len(k) > 33 && bytes.Equal(k[1:33], u.id[:]):
				kindStr = "id->attr"
			case k[0] == 5 && len(k) == 33 && bytes.Equal(k[1:], u.id[:]):
				kindStr = "garbage-mark"
			case (k[0] == 1 || k[0] == 2) && len(k) > 33 && bytes.Equal(k[len(k)-32:], u.id[:]):
				kindStr = "attr->id"
			}
			if kindStr != "" && !contains(sn.keys[n], kindStr) {
				sn.keys[n] = append(sn.keys[n], kindStr)
			}
		}
	})
	if err != nil {
		r.Fatal("dump: %v", err)
	}
	copy(sn.hash[:], h.Sum(nil))
	return sn
}

func contains(s []string, x string) bool {
	for _, y := range s {
		if y == x {
			return true
		}
	}
	return false
}

// ---------------------------------------------------------------------------------------------

type tcase struct {
	Ops []string
}

type checker struct {
	r        *ev.Run
	outcomes sync.Map
	finals   sync.Map
	maxIters atomic.Int64
}

var allFP sync.Map
var tNew, tClose, tDrive atomic.Int64

func (c *checker) violation(fp, what string, tc tcase) {
	if _, seen := allFP.LoadOrStore(fp, what); !seen && os.Getenv("VERIF_DEBUG") != "" {
		fmt.Printf("DEBUG-FP %s\n    %s\n", fp, what)
	}
	c.r.Violation(fp, what, tc)
}

func opIndex(name string) int {
	for i, o := range alphabet {
		if o.String() == name {
			return i
		}
	}
	return -1
}

// fingerprint: when the livelock diagnosis applies the class is the diagnosis + the failed rule (one
// root cause, three rules); otherwise the failed rule + the structural class of the object.
func fpOf(cause, rule, detail string) string {
	if cause != "" {
		return cause + rule
	}
	if detail == "" {
		return rule
	}
	return rule + ":" + detail
}

func kindName(u *uobj) string {
	return map[kind]string{kReg: "regular", kChild: "split-child", kTomb: "tombstone", kLock: "lock", kVirtual: "virtual-parent"}[u.k]
}

func (c *checker) run(seq []int, verbose bool) {
	r := c.r
	t0 := time.Now()
	s := newSys(r)
	tNew.Add(int64(time.Since(t0)))
	defer func() { t1 := time.Now(); s.close(); tClose.Add(int64(time.Since(t1))) }()
	m := newModel()
	tc := tcase{}
	var obs []string
	for _, oi := range seq {
		tc.Ops = append(tc.Ops, alphabet[oi].String())
		obs = append(obs, s.apply(m, alphabet[oi]))
	}
	hist := strings.Join(tc.Ops, "; ")
	// driver to quiescence
	t2 := time.Now()
	defer func() { tDrive.Add(int64(time.Since(t2))) }()
	bound := 4*len(universe) + maxExp + 4
	var prev [32]byte
	stable := 0
	iters := 0
	var sn *snapshot
	for ; iters < bound; iters++ {
		e := s.ep.v.Add(1)
		s.sh.VerifC44NewEpoch(e)
		s.sh.VerifC44GCPass()
		sn = s.snap(r)
		if verbose {
			fmt.Printf("  epoch %d: blobs=%v buckets=%v keys=%v\n", e, keysOf(sn.blobs), sn.bkts, sn.keys)
		}
		if sn.hash == prev {
			stable++
		} else {
			stable = 0
		}
		prev = sn.hash
		if e > maxExp+1 && stable >= 2 {
			break
		}
	}
	for {
		old := c.maxIters.Load()
		if int64(iters) <= old || c.maxIters.CompareAndSwap(old, int64(iters)) {
			break
		}
	}
	if iters >= bound {
		c.violation("no-quiescence", fmt.Sprintf("history [%s]: the persistent state still changes after %d (epoch+1; GC pass) rounds", hist, bound), tc)
		return
	}
	// diagnosis used in the fingerprints: is the next GC batch completely filled with virtual parents
	// (IDs the metabase knows but that are not physically stored and cannot be deleted directly)?
	cause := ""
	if bins, err := s.db.GetGarbage(2); err == nil {
		n, virt := 0, 0
		for _, b := range bins {
			for _, id := range b.Objects {
				n++
				for _, vn := range names {
					if v := byName[vn]; v.k == kVirtual && v.id == id && v.cnr == b.Container {
						virt++
					}
				}
			}
		}
		if n > 0 && n == virt {
			cause = "gc-batch-filled-with-undeletable-virtual-parents:"
		}
	}
	// oracle at the fixpoint
	doomedAny := false
	var outcome []string
	for _, n := range names {
		u := byName[n]
		if u.k == kVirtual {
			continue
		}
		if !m.stored[n] {
			continue
		}
		rs := m.reasons(n, s.ep.v.Load())
		if len(rs) == 0 {
			if sn.blobs[n] {
				outcome = append(outcome, n+":kept")
			} else {
				outcome = append(outcome, n+":lost")
			}
			if ep := s.ep.v.Load(); u.exp != 0 && ep > u.exp && u.k == kReg && m.liveLocked(n, ep) {
				// expired but protected by a lock that is still alive: GC must leave it alone
				doomedAny = true
				outcome[len(outcome)-1] += "(expired+live-lock)"
				if !sn.blobs[n] || len(sn.keys[n]) == 0 {
					c.violation("expired-object-with-live-lock-removed",
						fmt.Sprintf("history [%s] (results %v): at quiescence (epoch %d) %s is expired but its lock lives until epoch %d, yet GC removed it (blob present: %v, metabase keys: %v)",
							hist, obs, ep, n, longLockExp, sn.blobs[n], sn.keys[n]), tc)
				}
			}
			continue
		}
		doomedAny = true
		why := strings.Join(rs, "+")
		outcome = append(outcome, n+":"+why)
		if sn.blobs[n] {
			c.violation(fpOf(cause, "blob-not-removed", kindName(u)+":"+why),
				fmt.Sprintf("history [%s] (results %v): at quiescence (epoch %d, %d rounds) the blob of %s (%s; %s) is still in the blob storage; metabase keys owned by it: %v",
					hist, obs, s.ep.v.Load(), iters, n, kindName(u), why, sn.keys[n]), tc)
		}
		if len(sn.keys[n]) != 0 {
			c.violation(fpOf(cause, "metadata-not-removed", kindName(u)+":"+why),
				fmt.Sprintf("history [%s] (results %v): at quiescence (epoch %d, %d rounds) the metabase still has %v keys of %s (%s; %s); blob present: %v",
					hist, obs, s.ep.v.Load(), iters, sn.keys[n], n, kindName(u), why, sn.blobs[n]), tc)
		}
	}
	// virtual parents: nothing may be left once every stored child is gone
	for _, n := range names {
		u := byName[n]
		if u.k != kVirtual {
			continue
		}
		childKept := false
		childStored := false
		for _, cn := range names {
			if byName[cn].parent == n && m.stored[cn] {
				childStored = true
				if len(m.reasons(cn, s.ep.v.Load())) == 0 {
					childKept = true
				}
			}
		}
		if !childKept && len(sn.keys[n]) != 0 && (childStored || m.tombed[n]) {
			why := "children-removed"
			if m.tombed[n] {
				why = "tombstoned"
			}
			c.violation(fpOf(cause, "metadata-not-removed", "virtual-parent:"+why),
				fmt.Sprintf("history [%s] (results %v): at quiescence the metabase still has %v keys of virtual parent %s although none of its parts is left", hist, obs, sn.keys[n], n), tc)
		}
	}
	for ci := range cnrs {
		if m.rmCnr[ci] && sn.bkts[ci] {
			doomedAny = true
			c.violation(fpOf(cause, "removed-container-still-in-metadata", ""),
				fmt.Sprintf("history [%s] (results %v): container c%c was removed, at quiescence (epoch %d) its metadata bucket still exists (container GC mark present: %v)", hist, obs, 'A'+ci, s.ep.v.Load(), sn.gcMrk[ci]), tc)
		}
		if m.rmCnr[ci] {
			outcome = append(outcome, fmt.Sprintf("c%c:removed", 'A'+ci))
		}
	}
	r.Eval(1)
	r.TraceOK(1)
	ok := strings.Join(outcome, ",")
	c.outcomes.Store(ok, true)
	c.finals.Store(sn.hash, true)
	if doomedAny {
		r.Nontrivial(ok)
	}
	if len(seq) >= 3 && doomedAny && r.WantSample() {
		r.Sample(map[string]any{"history": tc.Ops, "results": obs, "rounds_to_quiescence": iters, "expected": outcome, "blobs_left": keysOf(sn.blobs)})
	}
}

func keysOf(m map[string]bool) []string {
	var r []string
	for k := range m {
		r = append(r, k)
	}
	sort.Strings(r)
	return r
}

func main() {
	r := ev.Start("C44", ev.ModelChecking)
	var err error
	scratch, err = os.MkdirTemp("/dev/shm", "verif-c44-")
	if err != nil {
		r.Fatal("scratch: %v", err)
	}
	defer os.RemoveAll(scratch)
	buildUniverse()
	buildAlphabet()
	c := &checker{r: r}
	if r.Replay != "" {
		var tc tcase
		r.LoadReplay(&tc)
		var seq []int
		for _, n := range tc.Ops {
			i := opIndex(n)
			if i < 0 {
				r.Fatal("unknown op %q", n)
			}
			seq = append(seq, i)
		}
		c.run(seq, true)
		os.RemoveAll(scratch)
		r.Finish()
	}
	maxDepth := 3
	if r.Thorough() {
		maxDepth = 4
	}
	exhaustive := true
	depthDone := 0
	// scripted bulk histories first: garbage, expired objects and removed-container contents of 15-30
	// objects against a remover batch of 2
	for _, sc := range bulkScripts {
		c.run(scriptSeq(r, sc), false)
	}
	// expiration-index family: an unlocked expired object is collected whatever else is in its container
	xs := expIndexScripts()
	enumx.Parallel(len(xs), func(i int) { c.run(scriptSeq(r, xs[i]), false) })
	r.Set("expiration_index_scripts", len(xs))
	tick := nEnum - 1
	for d := 0; d <= maxDepth; d++ {
		// every sequence of length d; an operation other than Epoch+1 is used at most once (repeating
		// a put / mark / container removal is a no-op or a rejected duplicate)
		var seqs [][]int
		enumx.Seqs(nEnum, d, func(s []int) bool {
			seen := uint64(0)
			for _, o := range s {
				if o != tick && seen&(1<<uint(o)) != 0 {
					return true
				}
				seen |= 1 << uint(o)
			}
			seqs = append(seqs, append([]int(nil), s...))
			return true
		})
		var aborted atomic.Bool
		enumx.Parallel(len(seqs), func(i int) {
			if r.Expired() {
				aborted.Store(true)
				return
			}
			c.run(seqs[i], false)
		})
		if aborted.Load() {
			exhaustive = false
			break
		}
		depthDone = d
	}
	if os.Getenv("VERIF_DEBUG") != "" {
		fmt.Println("timing new/close/drive+oracle:", time.Duration(tNew.Load()), time.Duration(tClose.Load()), time.Duration(tDrive.Load()))
	}
	nout, nfin := 0, 0
	c.outcomes.Range(func(_, _ any) bool { nout++; return true })
	c.finals.Range(func(_, _ any) bool { nfin++; return true })
	r.State(nfin)
	r.Transition(int(r.Evals()))
	r.Set("outcome_classes", nout)
	r.Set("distinct_quiescent_states", nfin)
	r.Set("depth_completed", depthDone)
	r.Set("max_rounds_to_quiescence", c.maxIters.Load())
	r.Set("alphabet", func() []string {
		var a []string
		for _, o := range alphabet {
			a = append(a, o.String())
		}
		return a
	}())
	r.Rule("192 scripted expiration-index histories in one container (1 or 2 expired objects whose lock outlives the run x every subset of 5 unlocked expired objects placed before / after them in the expiration index: earlier epoch, same epoch with smaller and greater ID, later epoch, after the second locked one x alive object present or not, natural and reversed arrival; oracle: the unlocked expired ones are gone, the locked ones are kept) + 2 scripted bulk histories (31-33 operations: 6 tombstoned, 5 expiring (3 of them locked), 7 removed-container objects, a tombstoned split object, mixed with epoch ticks; garbage volume 15-30 objects vs remover batch 2) + every operation sequence of length <= depth over the 17-op alphabet (12 puts: regular +- expiration, two split children of two parents, 4 tombstones, 2 locks; 2 garbage marks; 2 container removals; epoch tick; non-tick ops used at most once) applied to a fresh real one-shard engine, then (epoch+1; new-epoch handler; remover pass)* until the raw metabase dump + blob set is unchanged for 2 rounds beyond every expiration; non-trivial = distinct expectation vector with at least one object/container that must be removed")
	r.Exhaustive(exhaustive)
	r.Assume("one shard, no write-cache, remover batch size 2, GC jobs invoked synchronously (ticker interval 24h); payments disabled",
		"operation acceptance is the engine's return value; the model (which objects must go and why) is written from the property text",
		"objects that need not be removed are not judged (their fate is recorded in the outcome vector only)")
	os.RemoveAll(scratch)
	r.Finish()
}
